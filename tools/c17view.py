import json,glob,collections,sys
seen=collections.OrderedDict()
for f in sorted(glob.glob('/verif/replays/%s-*.json' % sys.argv[1])):
    j=json.load(open(f))
    sig=j.get('sig') or j.get('failure',{}).get('sig')
    d=j.get('detail') or j.get('failure',{}).get('detail')
    if sig in seen: continue
    seen[sig]=1
    lines=d.split('\n')
    print('==',sig,f); print('  ',lines[0][:400]); print('  ',lines[1][:300])

#!/bin/bash
# tools/fuzz.sh <lex|compile_format|serde_text> <seconds> [jobs]   supplementary coverage-guided campaign
# exit 0 = no crash within the budget, 1 = the target's oracle failed (artifact path printed), 2 = build problem
target=${1:?target}; secs=${2:-60}; jobs=${3:-4}
cd /verif/engine || exit 2
export CARGO_NET_OFFLINE=true RUSTFLAGS="--cfg koto_verif"
/verif/check --build >/dev/null 2>&1 || exit 2
cargo +nightly fuzz build --fuzz-dir /verif/fuzz $target >/verif/engine/run/fuzz-build.log 2>&1 || { tail -20 /verif/engine/run/fuzz-build.log; exit 2; }
corpus=/verif/engine/run/fuzz-corpus/$target
mkdir -p $corpus
if [ "$target" = "serde_text" ]; then
  printf '\x00{"a": [1, 2.5, "x", null, true]}' > $corpus/j1; printf '\x01a:\n  - 1\n  - b: "x"\n' > $corpus/y1; printf '\x02a = 1\n[t]\nb = "x"\n' > $corpus/t1
else
  /verif/engine/target-rc/debug/kv fuzzseeds $corpus >/dev/null
fi
cargo +nightly fuzz run --fuzz-dir /verif/fuzz $target $corpus -- -max_total_time=$secs -max_len=2048 -len_control=0 -jobs=$jobs -workers=$jobs -print_final_stats=1 > /verif/engine/run/fuzz-$target.log 2>&1
rc=$?
grep -E "stat::number_of_executed_units|stat::new_units_added" /verif/engine/run/fuzz-$target.log fuzz-*.log 2>/dev/null | head -8
ls /verif/fuzz/artifacts/$target 2>/dev/null | head -5
if [ $rc -ne 0 ] || ls /verif/fuzz/artifacts/$target/crash-* >/dev/null 2>&1; then echo "FUZZ-FAILURE target=$target artifacts=/verif/fuzz/artifacts/$target"; exit 1; fi
exit 0

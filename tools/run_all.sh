#!/bin/bash
# run every claimed check (quick by default) and print one summary line each
tier=${1:-quick}
cd /verif
for id in $(python3 -c "import json;print(' '.join(c['property_id'] for c in json.load(open('MANIFEST.json'))['checks']))"); do
  out=$(timeout 1800 ./check $id $tier 2>&1); rc=$?
  echo "$id rc=$rc $(echo "$out" | grep -c '^VIOLATION') violations; $(echo "$out" | grep -c '^KNOWN-FINDING') known; $(echo "$out" | tail -1)"
done
python3-vt tools/validate.py

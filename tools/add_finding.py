#!/usr/bin/env python3
"""tools/add_finding.py ID status 'props,comma' 'what' --sig S [--sig S2] --repro PROP 'json-case' [--commit c]"""
import json,sys,argparse
ap=argparse.ArgumentParser()
ap.add_argument('id');ap.add_argument('status');ap.add_argument('props');ap.add_argument('what')
ap.add_argument('--sig',action='append',default=[]);ap.add_argument('--repro',nargs=2,action='append',default=[]);ap.add_argument('--commit')
a=ap.parse_args()
p='/verif/known_findings.json'
d=json.load(open(p))
d['findings']=[f for f in d['findings'] if f['id']!=a.id]
e=dict(id=a.id,status=a.status,properties=a.props.split(','),what=a.what,sigs=a.sig,repros=[dict(property=pr,case=json.loads(c)) for pr,c in a.repro])
if a.commit: e['commit']=a.commit
d['findings'].append(e)
if a.status=='fixed':
    line=f"fixed: property={e['properties'][0]} {a.commit} {a.what}"
    if line not in d['log']: d['log'].append(line)
json.dump(d,open(p,'w'),indent=1,ensure_ascii=False)
print('ok',a.id)

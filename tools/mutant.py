#!/usr/bin/env python3
"""In-place mutant spot check: tools/mutant.py PROP[,PROP] FILE OLD NEW  (FILE relative to /repo)
Applies the textual replacement (first occurrence, or all with count 0 via env MUT_ALL=1), runs
./check PROP quick, prints the summary and reverts the file. Never leaves /repo modified."""
import sys, subprocess, os
props, f, old, new = sys.argv[1].split(','), sys.argv[2], sys.argv[3], sys.argv[4]
p = os.path.join('/repo', f)
src = open(p).read()
if old not in src:
    print('MUTANT: pattern not found'); sys.exit(2)
open(p, 'w').write(src.replace(old, new) if os.environ.get('MUT_ALL') else src.replace(old, new, 1))
try:
    for prop in props:
        r = subprocess.run(['timeout', '900', './check', prop, 'quick'], cwd='/verif', capture_output=True, text=True)
        lines = r.stdout.strip().splitlines()
        viol = [l for l in lines if l.startswith('VIOLATION')]
        print(f'{prop}: exit={r.returncode} violations={len(viol)} :: {lines[-1] if lines else r.stderr[-300:]}')
        if r.returncode == 2:
            print(r.stdout[-600:], r.stderr[-600:])
finally:
    open(p, 'w').write(src)
    subprocess.run(['git', '-C', '/repo', 'status', '--short'])

#!/usr/bin/env python3
"""List failure signatures of the last run of a check: tools/triage.py C06 quick [n]"""
import json,glob,sys
prop,tier=sys.argv[1],sys.argv[2]; n=int(sys.argv[3]) if len(sys.argv)>3 else 1
sigs={}
for f in sorted(glob.glob(f'/verif/engine/run/{prop}-{tier}/shard*.state.json')):
    st=json.load(open(f))
    for x in st['failures']:
        sigs.setdefault(x['sig'].split('|')[0],[]).append(x)
    for h in st.get('harness_errors',[]): print('HARNESS',h[:300])
for s,v in sorted(sigs.items()):
    print('==',s,len(v))
    for x in v[:n]:
        print('   case:',json.dumps(x['case'],ensure_ascii=False)[:1500])
        print('   detail:',x['detail'][:600].replace('\n','\n      '))

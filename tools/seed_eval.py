#!/usr/bin/env python3
"""tools/seed_eval.py ID [extra check ids...]: run the checks against each confirmed candidate change in /tmp/seed/out-ID,
applying it to /repo and undoing it straight afterwards; keeps the change under /verif/seeded/<ID>-m<k>/."""
import sys, os, subprocess, json, shutil, glob, re
ID = sys.argv[1]; extra = sys.argv[2:]
R = os.environ.get('SEED_ROUND', '')
tier = os.environ.get('SEED_TIER', 'quick')
conf = open(f'/tmp/seed/confirm{R}-{ID}.txt').read() if os.path.exists(f'/tmp/seed/confirm{R}-{ID}.txt') else ''
for m in sorted(d for d in glob.glob(f'/tmp/seed/out{R}-{ID}/m*') if os.path.isdir(d)):
    k = os.path.basename(m)
    sec = conf.split(f'== {ID} {k}')[1].split('== ')[0] if f'== {ID} {k}' in conf else ''
    suite_ok = bool(re.search(r'suite: \d+ passed 0 failed ; build errors: 0', sec))
    demo_differs = 'demo: differs' in sec
    patch = os.path.join(m, 'patch.diff')
    assert subprocess.run(['git', '-C', '/repo', 'status', '--short'], capture_output=True, text=True).stdout.strip() == '', '/repo not clean'
    r = subprocess.run(['git', '-C', '/repo', 'apply', patch], capture_output=True, text=True)
    if r.returncode != 0:
        print(ID, k, 'patch does not apply to /repo:', r.stderr[:200]); continue
    results = {}
    try:
        for chk in [ID] + extra:
            r = subprocess.run(['timeout', '3000', './check', chk, tier], cwd='/verif', capture_output=True, text=True)
            lines = r.stdout.strip().splitlines()
            viol = [l for l in lines if l.startswith('VIOLATION')]
            results[chk] = dict(exit=r.returncode, violations=len(viol), summary=lines[-1] if lines else r.stderr[-200:])
            # first violation signature
            if viol:
                rp = viol[0].split('replay=')[1]
                try:
                    j = json.load(open(rp)); results[chk]['first_sig'] = j.get('sig'); results[chk]['first_detail'] = (j.get('detail') or '')[:400]
                except Exception as e: pass
    finally:
        subprocess.run(['git', '-C', '/repo', 'checkout', '--', '.'])
    dest = f'/verif/seeded/{ID}-{k}' if not R else f'/verif/seeded/{ID}-r{R}{k}'
    os.makedirs(dest, exist_ok=True)
    for f in os.listdir(m):
        if f.startswith('demo') or f == 'patch.diff':
            shutil.copy(os.path.join(m, f), dest)
    meta = {}
    try: meta = json.load(open(os.path.join(m, 'meta.json')))
    except Exception: pass
    try:
        prev = json.load(open(os.path.join(dest, 'meta.json')))
        for keep in ('history', 'adapted'):
            if keep in prev and keep not in meta: meta[keep] = prev[keep]
    except Exception: pass
    meta['origin'] = 'fresh sub-agent given only the property text and a scratch worktree'
    meta['confirmed'] = dict(compiles_and_suite_passes=suite_ok, demo_differs_from_original_build=demo_differs, confirmation_log=sec.strip()[:1500])
    meta.setdefault('detection', {})[tier] = results
    meta['base_commit'] = subprocess.run(['git', '-C', '/repo', 'log', '--format=%h', '-1'], capture_output=True, text=True).stdout.strip()
    json.dump(meta, open(os.path.join(dest, 'meta.json'), 'w'), indent=1)
    print(ID, k, 'suite_ok' if suite_ok else 'SUITE?', 'demo_differs' if demo_differs else 'DEMO?', {c: (v['exit'], v['violations'], v.get('first_sig')) for c, v in results.items()})

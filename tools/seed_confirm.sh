#!/bin/bash
# tools/seed_confirm.sh ID   — confirm the candidate seeded changes of /tmp/seed/out-ID in the agent's scratch
# worktree (compiles, existing suite passes, demo differs from the original build); results in /tmp/seed/confirm-ID.txt
ID=$1; R=${SEED_ROUND:-}; WT=/tmp/seed/wt$R-$ID; OUT=/tmp/seed/out$R-$ID; RES=/tmp/seed/confirm$R-$ID.txt
export CARGO_NET_OFFLINE=true
: > $RES
cd $WT || exit 1
git checkout -q -- . ; git clean -fdq -e target
timeout 3000 cargo build -q --offline -p koto_cli 2>/dev/null; cp target/debug/koto /tmp/seed/koto-orig$R-$ID
for m in $OUT/m[0-9]; do
  k=$(basename $m)
  echo "== $ID $k" >> $RES
  git checkout -q -- .
  if ! git apply --check $m/patch.diff 2>>$RES; then echo "patch does not apply" >> $RES; continue; fi
  git apply $m/patch.diff
  timeout 3000 cargo test --workspace --no-fail-fast --offline > /tmp/seed/test$R-$ID-$k.log 2>&1
  echo "suite: $(grep -E '^test result' /tmp/seed/test$R-$ID-$k.log | awk '{p+=$4; f+=$6} END {print p" passed "f" failed"}') ; build errors: $(grep -c '^error' /tmp/seed/test$R-$ID-$k.log)" >> $RES
  timeout 3000 cargo build -q --offline -p koto_cli 2>/dev/null
  filt() { grep -v "^warning\|^ *Compiling\|^ *Finished\|^ *Running\|^ *Blocking\|^ *|\|^ *= \|^ *--> \|^$"; }
  if [ -f $m/demo.sh ]; then
    # host-side demo: the sub-agent's demo.sh, run from the worktree root on the mutated tree, then on the original
    (cd $WT && timeout 1500 bash $m/demo.sh 2>&1 | filt > /tmp/seed/demo$R-$ID-$k.mut)
    git checkout -q -- . ; git clean -fdq -e target
    (cd $WT && timeout 1500 bash $m/demo.sh 2>&1 | filt > /tmp/seed/demo$R-$ID-$k.orig)
    if cmp -s /tmp/seed/demo$R-$ID-$k.orig /tmp/seed/demo$R-$ID-$k.mut; then echo "demo: SAME output on original and mutated build (demo.sh)" >> $RES; else echo "demo: differs (demo.sh; orig vs mutated):" >> $RES; diff /tmp/seed/demo$R-$ID-$k.orig /tmp/seed/demo$R-$ID-$k.mut | head -12 >> $RES; fi
  elif [ -f $m/demo.koto ]; then
    (cd $m && timeout 20 /tmp/seed/koto-orig$R-$ID demo.koto > /tmp/seed/demo$R-$ID-$k.orig 2>&1; timeout 20 $WT/target/debug/koto demo.koto > /tmp/seed/demo$R-$ID-$k.mut 2>&1)
    if cmp -s /tmp/seed/demo$R-$ID-$k.orig /tmp/seed/demo$R-$ID-$k.mut; then echo "demo: SAME output on original and mutated build" >> $RES; else echo "demo: differs (orig vs mutated):" >> $RES; diff /tmp/seed/demo$R-$ID-$k.orig /tmp/seed/demo$R-$ID-$k.mut | head -12 >> $RES; fi
  else echo "demo: no demo.koto ($(ls $m | tr '\n' ' '))" >> $RES; fi
done
git checkout -q -- .
echo "== done" >> $RES

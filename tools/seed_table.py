#!/usr/bin/env python3
"""Regenerates the seeded-change table in DESIGN.md from /verif/seeded/*/meta.json"""
import json, glob, os, re
rows = []
for d in sorted(glob.glob('/verif/seeded/*')):
    try: m = json.load(open(os.path.join(d, 'meta.json')))
    except Exception: continue
    name = os.path.basename(d)
    det = m.get('detection', {})
    cells = []
    for tier in ('quick', 'thorough'):
        for chk, r in sorted(det.get(tier, {}).items()):
            if r.get('violations', 0) > 0 and r.get('exit') == 1:
                cells.append(f"{chk} {tier}: **caught** (`{(r.get('first_sig') or '?')[:60]}`)")
            elif r.get('exit') == 2:
                cells.append(f"{chk} {tier}: inconclusive")
            else:
                cells.append(f"{chk} {tier}: missed")
    conf = m.get('confirmed', {})
    caught = any(r.get('violations', 0) > 0 for t in det.values() for r in t.values())
    ok = 'yes' if conf.get('compiles_and_suite_passes') and conf.get('demo_differs_from_original_build') else (('suite passes; host-side / formatter demo: behaviour change confirmed by the check itself (violation on the changed tree, none on the original)' if caught else 'suite passes; demo not runnable by the confirm script') if conf.get('compiles_and_suite_passes') else 'NOT CONFIRMED')
    hist = m.get('history', '')
    rows.append(f"| {name} | {(m.get('summary') or '').replace('|','/')[:170]} | {ok} | {'; '.join(cells)}{(' — ' + hist) if hist else ''} |")
table = "| change | what was changed | confirmed | detection |\n|---|---|---|---|\n" + "\n".join(rows) + "\n"
p = '/verif/DESIGN.md'
s = open(p).read()
s = re.sub(r'<!-- SEED-TABLE-BEGIN -->.*?<!-- SEED-TABLE-END -->', '<!-- SEED-TABLE-BEGIN -->\n' + table.replace('\\', '\\\\') + '<!-- SEED-TABLE-END -->', s, flags=re.S)
open(p, 'w').write(s)
print(len(rows), 'rows')

#!/usr/bin/env python3
"""Regenerates /verif/MANIFEST.json from the table below (kept in one place so it stays valid)."""
import json, subprocess
CLAIMED = {
 "C09": dict(
   technique="bounded-exhaustive enumeration + proptest string generation against a from-first-principles position oracle (property-based testing)",
   text="Exploration: every string up to length 4 (quick) / 5 (thorough) over a 26-symbol alphabet that reaches every lexer mode is enumerated completely, plus 2e5 (quick) / 3e6 (thorough) proptest-generated token-shaped strings and the repository corpus with CRLF/indent/truncation variants; each token stream is checked against positions recomputed from the raw bytes. Complete below the length bound for that alphabet, sampled above it; no absence proof.",
   note="Trusts: the oracle's own recount (LF count, char boundaries, leading space/tab count) and proptest. Indent of lines that begin inside a multi-line token and tokens after the first Error token are not judged (the statement does not define them).",
   design="§4 C09"),
}
CLAIMED["C06"] = dict(
   technique="mutation-neighbourhood + proptest token soups/noise and a bounded-exhaustive boundary-value sweep of every core-library entry point, in isolated processes with panic/abort capture (fuzzing-style robustness testing)",
   text="Exploration: corpus texts, a seeded 12% (quick) / complete (thorough) single-token mutation neighbourhood, token soups and UTF-8 noise go through compile, format (3 option sets), error rendering and a sandboxed 50 ms run; every callable of the live prelude is applied to ALL argument tuples of arity <= 2 from a 55-value boundary pool (fresh values per call) plus a seeded arity-3 sample. Any panic, abort or unexplained hang is a violation unless it matches a listed known finding by panic site. Cannot show absence of panics beyond the explored inputs.",
   note="Overflow checks are ON in the engine build (as in the repository's own test profile): arithmetic overflow panics count. Allocation failure / capacity overflow / native stack overflow and hangs of natively spinning calls are counted as resource events, not judged. File/process functions are removed from the prelude.",
   design="§4 C06")
CLAIMED["C01"] = dict(
   technique="differential property-based testing against an independent reference interpreter (model-based), proptest-driven grammar generation with library + AST delta shrinking, bounded-exhaustive operator trees, metamorphic context variants",
   text="Exploration: 12k (quick) / 150k (thorough) generated core programs, each run at top level, inside a function, inside a nested closure and after 5/40/120(/200) extra live locals, plus five re-embeddings of the observed expression (call argument, list element, map value, interpolation, condition), are compared (stdout, rendered result, Ok/Err class) with a tree-walking reference interpreter written from the language guide; operator trees of depth 2 over all 14 binary operators x unary wrappers x 9 operand kinds are enumerated (quick: 1 in 8, thorough: all 254k). Sampled above those bounds; no absence proof.",
   note="Trusts the reference model M (written from the guide, calibrated on documented examples) and Rust's f64 arithmetic/formatting. Cases where the guide is silent are dropped as 'unjudged' (counted). Known shape F25 is excluded by construction.",
   design="§4 C01")
CLAIMED["C02"] = dict(
   technique="differential property-based testing against an independent reference interpreter with coroutine-modelled generators; proptest-driven scenario generation, library + AST delta shrinking",
   text="Exploration: 8k (quick) / 120k (thorough) generated programs combining function signatures (positional, nested-unpack with ellipsis, defaults reading outer variables, variadic, ignored), call forms (too few .. too many arguments, packed runs, empty packs, piped chains, instance calls with self), recursion, capture-by-copy with reassignment and shared containers, closure factories, nested closures and generators consumed by for / unpacking / to_tuple / pause-and-resume / packed forwarding; each program also runs inside a function and a nested closure; stdout (bodies print their bound arguments and every yield/resume), result and Ok/Err class must equal the reference interpreter's. Sampled; no absence proof.",
   note="Trusts M (binding rules transcribed from the guide's 'Functions' and 'Generators' chapters; generators are coroutines with strict hand-off). Known shape F27 excluded by construction; error texts not compared.",
   design="§4 C02")
CLAIMED["C03"] = dict(
   technique="differential property-based testing: proptest-generated match shapes x bounded-exhaustive subject universe against an independent reference interpreter; generated unpacking programs",
   text="Exploration: 12k (quick) / 120k (thorough) match shapes (1-5 arms, or-alternatives, patterns nested <= 3 with ellipsis / rest capture / typed ids / map patterns / guards / else, 1-2 subjects) are each run against a subject universe of scalars, ranges, maps and ALL lists and tuples of size <= 2 over six element kinds plus a seeded sample (thorough: all) of size 3; plus 12k / 120k unpacking programs (multi-assignment with holes from lists, tuples, ranges, strings, generators, scalars; for with several arguments). Arm selection, bindings, single evaluation of the subject and fall-through to null are compared with the reference interpreter per (shape, subject).",
   note="Trusts M's matching rules (transcribed from the guide's match chapter). Sequence patterns against strings/ranges/maps, named rest of lists, Range x Indexable and names bound in only some alternatives are not judged. Known shapes F26, C03-size-null, C03-map-null excluded by construction.",
   design="§4 C03")
CLAIMED["C04"] = dict(
   technique="fault-injection property-based testing: proptest-generated try/catch/finally skeletons around call carriers with a planted fault, differential against an independent reference interpreter, plus a VM stack-residue post-condition through a read-only hook",
   text="Exploration: 25k (quick) / 300k (thorough) generated programs plus 400 / 4000 per fault kind: nested try / typed catches / untyped catch (value, rethrow, new throw) / finally skeletons (depth <= 5) around function calls, each / keep / fold callbacks, generators, `@+` overloads and `@display` from interpolation, with one of 18 planted fault kinds (three kinds of thrown values and 15 runtime errors incl. errors inside half-built strings, lists, tuples, maps and call arguments, arity errors). Marker trace, handler selection, finally placement/value, state after the catch, uncaught message and outcome class are compared with the reference interpreter; VM stacks must be empty after successful runs.",
   note="Trusts M's unwinding rules (guide: 'Errors'). Texts of caught runtime errors are never printed. Known shapes F28, F30 and C04-gen-typed are excluded by construction and replayed as known findings.",
   design="§4 C04")
CLAIMED["C05"] = dict(
   technique="structural bytecode verification as an executable validity predicate over generated and mutated programs (property-based testing with a bounded-exhaustive limit walk), determinism checked by repeated and cross-process compilation",
   text="Exploration: every text the parser accepts among the corpus, a seeded 15% (quick) / complete (thorough) single-token mutation neighbourhood, 8k / 120k generated programs of four profiles and a limit walk of +-2 / +-6 around every encoding limit (u8 registers through locals, nesting, call and function arguments, captures, defaults, multi-assignment; varint constants and size hints at 128 / 16384; import lists; loop / while / if / function bodies and backward jumps around 64 KiB) is compiled and its bytecode verified structurally on EVERY path (decode, function extents, jump targets, register and constant operands, builder / try balance by abstract interpretation), recompiled in-process (and the corpus in a forked process) for determinism, run for internal faults, and limit cases are checked against a closed-form result.",
   note="Trusts the verifier's reading of the instruction set through the public InstructionReader, and the token/AST predicate that keys the known shape 'control exit inside an expression'. Internal faults at run time are recognised by error text.",
   design="§4 C05")
CLAIMED["C10"] = dict(
   technique="metamorphic property-based testing: trivia insertion on the corpus against canonical-AST identity, layout-vector pairs of generated programs against each other and the reference interpreter, and line-prefix cuts against the indentation-error classification",
   text="Exploration: 12 (quick) / 80 (thorough) seeded trivia variants of every corpus text (trailing whitespace, trailing / own-line / column-0 / multi-line comments, blank lines with and without stray indentation, inline comments) must parse to the identical canonical syntax tree; 15k / 200k generated programs of three profiles are printed under two random layout vectors (inline vs block forms, quote style, call parentheses, operator line breaks, comments, blank lines) which must behave identically, agree with the reference interpreter and parse to the same tree modulo cosmetic fields; every line prefix of each program is classified (header awaiting a block / trailing `=` or operator => is_indentation_error; top-level statement boundary => compiles).",
   note="Trusts the printer's notion of admissible layouts (one statement per line, continuation lines strictly deeper for each further break, no breaks inside headers) and the Debug-rendering-based canonical AST. Cuts not listed by the statement are not judged.",
   design="§4 C10")
CLAIMED["C11"] = dict(
   technique="round-trip / metamorphic property-based testing of the formatter over corpus, generated and mutated programs x an option grid (re-parse to canonical AST, bytecode equality, behaviour equality, comment and literal preservation, idempotence)",
   text="Exploration: the corpus and 8 Unicode stress texts x 6 (quick) / all 160 (thorough) formatter option combinations, 5k / 80k generated programs of three profiles in random spellings, and a seeded sample of corpus mutants that still parse: format() must return Ok without panicking; output must parse to the same canonical tree (modulo cosmetic fields), compile to the same bytecode and constants, behave identically when runnable, keep every comment in order, keep every number / string literal token, and be a fixed point of format(). Mutants are judged for totality, comments and literals only.",
   note="The pinned formatter has pervasive defects whenever it has to break lines; those cases are keyed to the known finding C11-line-breaks by an input/option predicate (line does not fit after re-indentation, line_length <= 40, chain_break_threshold <= 1, input already breaks inside an expression), so the strict clauses effectively cover programs that fit on their lines. Other known shapes: wildcard import, format-spec representation, odd-width characters, leading-minus line, blank line after a function header.",
   design="§4 C11")
CLAIMED["C12"] = dict(
   technique="property-based testing with planted faults and planted illegal tokens at known positions (the generator is the oracle), plus a span-order invariant over every instruction of generated and corpus programs",
   text="Exploration: 60k (quick) / 600k (thorough) planted-fault programs (generated preamble with multi-line constructs and trivia, one of 8 fault kinds on a known line, optionally spread over two lines, reached through 0-4 carriers - calls, methods, each callbacks, overloads, nested blocks - and filler) are run through KotoVm::run: the trace must map, innermost first, to exactly the fault line and the call-site lines, the rendered message must quote those lines in order, and debug output must carry the line of the debug keyword; illegal tokens planted at known token boundaries of corpus texts must be reported on their line with a column inside it; every compile error over a sample of the mutation neighbourhood must point inside the source; and over 6k / 100k generated programs and the corpus the source span of successive instructions may never step back to an earlier top-level statement.",
   note="Only lines are judged (columns must merely lie inside the line). Native adaptor frames are expected on the line of the call that drives them (repeated lines are collapsed).",
   design="§4 C12")
CLAIMED["C13"] = dict(
   technique="model-based property-based testing: bounded-exhaustive enumeration of adaptor chains x sources x consumers (deeper chains proptest-sampled) against a sequence model on plain vectors, with a pull-trace oracle for laziness",
   text="Exploration: every adaptor chain of depth <= 2 over 31 adaptor instances (each, keep, skip/take/step/chunks/windows with parameters 0..3, take-while, chain, zip, enumerate, flatten, intersperse, cycle, reversed, iter) x 14 source kinds (list, tuple, three range forms, string, map, tracing generator, string chars/bytes/split/lines, @next object, @iterator object) of every length 0..5 x 21 consumers (quick: all consumers up to depth 1 and a rotated consumer at depth 2; thorough: all) plus 150k / 2.5M sampled pipelines of depth 3-4; printed results must equal the vector model (incl. errors for zero parameters and reversed on non-bidirectional chains, mixed next/next_back partitioning, copy independence, reuse after exhaustion) and generator pull traces must show no pull before consumption, pulls in order exactly once, and no more pulls than the model's demand plus declared look-ahead.",
   note="Trusts the vector model (Rust std iterator semantics + the core-library docs). Copies of iterators over user objects, sums/minima of single incomparable values and endless pipelines are not judged.",
   design="§4 C13")
CLAIMED["C14"] = dict(
   technique="model-based property-based testing: proptest-generated operation histories over aliased containers run against an abstract heap model (reference interpreter), plus exhaustive pair/triple enumeration of a 44-value boundary pool for the equality, ordering, map-key and sorting laws",
   text="Exploration: 40k (quick) / 1M (thorough) generated histories of 4-24 container operations (list/map/tuple core functions, indexing, slicing, +, copy/deep_copy, aliasing through assignment, arguments and captures) printed after every step and compared with the abstract heap; every pair and triple of a 44-value boundary pool (ints, floats incl. -0.0 and 2^53 neighbours, strings, tuples, ranges, lists, maps, null, bools) for reflexivity, symmetry, != as negation, transitivity, totality of < on numbers and strings, key identity in maps of 1, 2, 9 and 40 entries (both index-table regimes), sort = ordered permutation; exhaustive map index assignment over sizes 1-4 x index x key.",
   note="Trusts the abstract heap in model.rs. Ordering between an integer and a float beyond 2^53 is a recorded finding (C14-order-2p53) and excluded by construction from the key/transitivity clauses; NaN is excluded as the property states.",
   design="§4 C14")
NOT_YET = {}
props=[json.loads(l) for l in open('/verif/properties.jsonl')]
checks=[]; na=[]
for p in props:
    i=p['id']
    if i in CLAIMED:
        c=CLAIMED[i]
        checks.append(dict(property_id=i, quick_cmd=f"./check {i} quick", thorough_cmd=f"./check {i} thorough",
            evidence_file=f"/verif/evidence/{i}.json", replay_cmd_template=f"./check {i} --replay {{path}}", engine="kv",
            level_claimed=dict(category="exploration", text=c['text'], design_ref=c['design']), level_note=c['note'], technique=c['technique']))
    else:
        na.append(dict(property_id=i, reason=NOT_YET.get(i, "check not built yet in this session (planned, see DESIGN.md §4); property-based testing applies, nothing is claimed until the check exists")))
hooks=subprocess.run(['git','-C','/repo','log','--format=%h %s','--grep=verif hook'],capture_output=True,text=True).stdout.strip().splitlines()
m=dict(version=1,
  setup_cmd="./check --build",
  hooks=dict(guard="--cfg koto_verif", enable="RUSTFLAGS='--cfg koto_verif' (set by ./check for the engine build, which compiles /repo's crates by path)",
     baseline_off_cmd="cd /repo && cargo test --workspace --no-fail-fast --offline", source_commits=[h.split()[0] for h in hooks], add_only=True),
  engines=[dict(name="kv", path="/verif/engine", serves_properties=[c['property_id'] for c in checks],
     kind_free_text="Rust property-based testing engine: proptest-driven generators with library shrinking, bounded-exhaustive enumerators, independent oracles (reference models, recomputation, round trips, metamorphic relations), isolated worker processes with panic/abort/hang capture")],
  checks=checks, not_applicable=na,
  notes="Exit codes: 0 held (KNOWN-FINDING lines possible), 1 violation, 2 inconclusive (engine build failure, harness error, vacuous run). VERIF_SEED selects the generator seed (default 1). Known findings: /verif/known_findings.json.")
json.dump(m,open('/verif/MANIFEST.json','w'),indent=1)
print("claimed",len(checks),"not_applicable",len(na))

#![no_main]
//! C20 oracle under coverage guidance: json / yaml / toml from_string never panics and accepted values are stable
use libfuzzer_sys::fuzz_target;

fuzz_target!(|data: &[u8]| {
    if data.is_empty() {
        return;
    }
    let fmt = ["json", "yaml", "toml"][(data[0] % 3) as usize];
    let text = String::from_utf8_lossy(&data[1..]).to_string();
    if let Some(f) = kv::fuzz_support::serde_text(fmt, &text) {
        panic!("C20 violation {}: {}", f.sig, f.detail);
    }
});

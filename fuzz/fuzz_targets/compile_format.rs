#![no_main]
//! C06 / C11 oracles under coverage guidance: compile, format and error rendering never panic
//! (panics of recorded findings are tolerated by signature), formatted output of parseable text parses
use libfuzzer_sys::fuzz_target;

fuzz_target!(|data: &[u8]| {
    let text = String::from_utf8_lossy(data).to_string();
    if text.len() > 4000 {
        return;
    }
    kv::fuzz_support::exercise_text_tolerating_known("C06", &text);
});

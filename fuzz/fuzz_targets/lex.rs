#![no_main]
//! C09 oracle under coverage guidance: tokens tile the input, positions recomputed independently
use libfuzzer_sys::fuzz_target;

fuzz_target!(|data: &[u8]| {
    let text = String::from_utf8_lossy(data);
    if let Some((what, detail)) = kv::props::c09::check_lex(&text) {
        panic!("C09 violation {what}: {detail}\ninput: {text:?}");
    }
});

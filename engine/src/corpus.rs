//! Corpus collected at run time from /repo's working tree
use std::path::{Path, PathBuf};

pub const REPO: &str = "/repo";

#[derive(Clone, Debug)]
pub struct Item {
    pub name: String,
    pub text: String,
    /// expected stdout if the docs state it (check! lines) and the block is meant to run
    pub expected: Option<String>,
    /// runnable without extra prelude entries / files (docs of core lib and language guide)
    pub runnable: bool,
    pub origin: &'static str,
}

fn md_blocks(path: &Path, out: &mut Vec<Item>, runnable_doc: bool) {
    let Ok(text) = std::fs::read_to_string(path) else { return };
    let mut in_block = false;
    let mut skip_check = false;
    let mut skip_run = false;
    let mut block = String::new();
    let mut n = 0;
    let mut fence_indent = 0;
    for line in text.lines() {
        let trimmed = line.trim_start();
        if !in_block {
            if let Some(rest) = trimmed.strip_prefix("```") {
                let mut info = rest.trim().split(',');
                if info.next() == Some("koto") {
                    in_block = true;
                    fence_indent = line.len() - trimmed.len();
                    let m = info.next();
                    skip_check = m == Some("skip_check");
                    skip_run = m == Some("skip_run");
                    block.clear();
                }
            }
        } else if trimmed.starts_with("```") {
            in_block = false;
            n += 1;
            let mut script = String::new();
            let mut expected = String::new();
            for l in block.lines() {
                if l.starts_with("print! ") {
                    script.push_str(&l.replacen("print! ", "print ", 1));
                    script.push('\n');
                } else if l.starts_with("check!") {
                    if let Some(e) = l.strip_prefix("check! ") {
                        expected.push_str(e);
                    }
                    expected.push('\n');
                } else {
                    script.push_str(l);
                    script.push('\n');
                }
            }
            out.push(Item {
                name: format!("{}#{}", path.strip_prefix(REPO).unwrap_or(path).display(), n),
                text: script,
                expected: if skip_check || skip_run { None } else { Some(expected) },
                runnable: runnable_doc && !skip_run,
                origin: "docs",
            });
        } else {
            let l = if line.len() >= fence_indent && line[..fence_indent].trim().is_empty() { &line[fence_indent..] } else { line };
            block.push_str(l);
            block.push('\n');
        }
    }
}

fn walk(dir: &Path, ext: &str, out: &mut Vec<PathBuf>) {
    let Ok(rd) = std::fs::read_dir(dir) else { return };
    let mut entries: Vec<_> = rd.filter_map(|e| e.ok()).map(|e| e.path()).collect();
    entries.sort();
    for p in entries {
        if p.is_dir() {
            if p.file_name().map(|n| n == "target").unwrap_or(false) {
                continue;
            }
            walk(&p, ext, out);
        } else if p.extension().map(|e| e == ext).unwrap_or(false) {
            out.push(p);
        }
    }
}

/// Script literals in Rust test files: r#"..."# / r"..." / "..." string literals that look like Koto
fn rust_literals(path: &Path, out: &mut Vec<Item>) {
    let Ok(text) = std::fs::read_to_string(path) else { return };
    let b = text.as_bytes();
    let mut i = 0;
    let mut n = 0;
    while i < b.len() {
        if b[i] == b'r' && i + 1 < b.len() && (b[i + 1] == b'"' || b[i + 1] == b'#') && (i == 0 || !(b[i - 1].is_ascii_alphanumeric() || b[i - 1] == b'_')) {
            let mut j = i + 1;
            let mut hashes = 0;
            while j < b.len() && b[j] == b'#' {
                hashes += 1;
                j += 1;
            }
            if j < b.len() && b[j] == b'"' {
                let start = j + 1;
                let close = format!("\"{}", "#".repeat(hashes));
                if let Some(end) = text[start..].find(&close) {
                    let lit = &text[start..start + end];
                    if lit.len() >= 3 && lit.len() < 4000 {
                        n += 1;
                        out.push(Item {
                            name: format!("{}@{}", path.strip_prefix(REPO).unwrap_or(path).display(), n),
                            text: dedent(lit),
                            expected: None,
                            runnable: false,
                            origin: "rust-literal",
                        });
                    }
                    i = start + end + close.len();
                    continue;
                }
            }
        }
        if b[i] == b'"' {
            // ordinary literal: skip over it, collecting simple ones
            let start = i + 1;
            let mut j = start;
            let mut simple = true;
            while j < b.len() && b[j] != b'"' {
                if b[j] == b'\\' {
                    simple = false;
                    j += 1;
                }
                j += 1;
            }
            if simple && j < b.len() && j > start + 2 && j - start < 400 {
                let lit = &text[start..j];
                if lit.contains(' ') || lit.contains('\n') {
                    n += 1;
                    out.push(Item {
                        name: format!("{}@{}", path.strip_prefix(REPO).unwrap_or(path).display(), n),
                        text: dedent(lit),
                        expected: None,
                        runnable: false,
                        origin: "rust-literal",
                    });
                }
            }
            i = j + 1;
            continue;
        }
        if b[i] == b'\'' {
            // char literal or lifetime: skip 'x' forms
            if i + 2 < b.len() && b[i + 2] == b'\'' {
                i += 3;
                continue;
            }
            if i + 3 < b.len() && b[i + 1] == b'\\' && b[i + 3] == b'\'' {
                i += 4;
                continue;
            }
        }
        if b[i] == b'/' && i + 1 < b.len() && b[i + 1] == b'/' {
            while i < b.len() && b[i] != b'\n' {
                i += 1;
            }
            continue;
        }
        i += 1;
    }
}

pub fn dedent(s: &str) -> String {
    let s = s.strip_prefix('\n').unwrap_or(s);
    let min = s
        .lines()
        .filter(|l| !l.trim().is_empty())
        .map(|l| l.len() - l.trim_start_matches(' ').len())
        .min()
        .unwrap_or(0);
    let mut out = String::new();
    for l in s.lines() {
        if l.len() >= min {
            out.push_str(&l[min..]);
        } else {
            out.push_str(l.trim_start_matches(' '));
        }
        out.push('\n');
    }
    out
}

pub fn load() -> Vec<Item> {
    let mut out = vec![];
    let docs = Path::new(REPO).join("crates/cli/docs");
    md_blocks(&docs.join("language_guide.md"), &mut out, true);
    md_blocks(&docs.join("about.md"), &mut out, true);
    for f in ["iterator", "koto", "list", "map", "number", "range", "string", "test", "tuple"] {
        md_blocks(&docs.join(format!("core_lib/{f}.md")), &mut out, true);
    }
    for f in ["io", "os"] {
        md_blocks(&docs.join(format!("core_lib/{f}.md")), &mut out, false);
    }
    let mut libs = vec![];
    walk(&docs.join("libs"), "md", &mut libs);
    for p in libs {
        md_blocks(&p, &mut out, false);
    }
    let mut kotos = vec![];
    walk(&Path::new(REPO).join("koto/tests"), "koto", &mut kotos);
    walk(&Path::new(REPO).join("koto/benches"), "koto", &mut kotos);
    walk(&Path::new(REPO).join("libs"), "koto", &mut kotos);
    walk(&Path::new(REPO).join("crates/koto/examples"), "koto", &mut kotos);
    for p in kotos {
        if let Ok(text) = std::fs::read_to_string(&p) {
            out.push(Item { name: p.strip_prefix(REPO).unwrap_or(&p).display().to_string(), text, expected: None, runnable: false, origin: "koto-file" });
        }
    }
    for dir in ["crates/runtime/tests", "crates/bytecode/src", "crates/parser/tests", "crates/format/tests", "crates/koto/tests", "crates/cli/tests"] {
        let mut rs = vec![];
        walk(&Path::new(REPO).join(dir), "rs", &mut rs);
        for p in rs {
            if dir == "crates/bytecode/src" && !p.ends_with("compiler.rs") {
                continue;
            }
            rust_literals(&p, &mut out);
        }
    }
    // hand-written programs for constructs that neither the repository's texts nor the generators
    // produce (try as an element of a multi-line literal, map patterns with `as` in arguments, ...);
    // their expected output was checked by hand against the guide when they were written
    let mut zoo = vec![];
    walk(Path::new("/verif/zoo"), "koto", &mut zoo);
    zoo.sort();
    for p in zoo {
        if let Ok(text) = std::fs::read_to_string(&p) {
            let expected = std::fs::read_to_string(p.with_extension("out")).ok();
            out.push(Item { name: format!("zoo/{}", p.file_name().map(|n| n.to_string_lossy().to_string()).unwrap_or_default()), text, expected, runnable: true, origin: "zoo" });
        }
    }
    // de-duplicate by text
    let mut seen = std::collections::HashSet::new();
    out.retain(|i| seen.insert(crate::core::fnv(i.text.as_bytes())));
    out
}

//! Generic walks over koto_parser's Ast through the Debug rendering of its nodes: child references
//! print as `AstIndex(n)` and constants as `ConstantIndex(n)`, which gives a structure-agnostic
//! traversal and a canonical form without depending on the exact shape of every Node variant.
use koto_parser::{Ast, AstIndex, Constant};

fn scan_indices(text: &str, tag: &str) -> Vec<(usize, usize, u32)> {
    // (start, end, n) of every `tag(n)` occurrence
    let mut out = vec![];
    let mut pos = 0;
    while let Some(p) = text[pos..].find(tag) {
        let s = pos + p;
        let after = s + tag.len();
        if text[after..].starts_with('(') {
            let digits: String = text[after + 1..].chars().take_while(|c| c.is_ascii_digit()).collect();
            let end = after + 1 + digits.len();
            if !digits.is_empty() && text[end..].starts_with(')') {
                // not part of a longer identifier
                let ok_before = s == 0 || !text[..s].chars().last().map(|c| c.is_alphanumeric() || c == '_').unwrap_or(false);
                if ok_before {
                    out.push((s, end + 1, digits.parse().unwrap()));
                }
                pos = end + 1;
                continue;
            }
        }
        pos = after;
    }
    out
}

pub fn node_debug(ast: &Ast, idx: AstIndex) -> String {
    format!("{:?}", ast.node(idx).node)
}

pub fn kind_of(debug: &str) -> &str {
    let end = debug.find(|c: char| !(c.is_alphanumeric() || c == '_')).unwrap_or(debug.len());
    &debug[..end]
}

pub fn children(ast: &Ast, idx: AstIndex) -> Vec<AstIndex> {
    let d = node_debug(ast, idx);
    scan_indices(&d, "AstIndex").into_iter().map(|(_, _, n)| AstIndex::from(n)).filter(|c| usize::from(*c) < ast.nodes().len()).collect()
}

fn constant_text(ast: &Ast, n: u32) -> String {
    match ast.constants().get(n as usize) {
        Some(Constant::F64(x)) => format!("f64:{:?}", x),
        Some(Constant::I64(x)) => format!("i64:{x}"),
        Some(Constant::Str(s)) => format!("str:{:?}", s),
        None => format!("missing-constant:{n}"),
    }
}

#[derive(Clone, Copy, Default)]
pub struct CanonOpts {
    /// ignore purely cosmetic fields (inline-if flag, quote kind, map braces, tuple parentheses)
    pub ignore_cosmetic: bool,
}

/// Canonical rendering of the sub-tree at `idx`: spans are not part of Node's Debug output, child
/// indices are expanded in place, constants are resolved to their values.
pub fn canonical(ast: &Ast, idx: AstIndex, opts: CanonOpts, depth: usize) -> String {
    canonical_in(ast, idx, opts, depth, "")
}

fn canonical_in(ast: &Ast, idx: AstIndex, opts: CanonOpts, depth: usize, parent: &str) -> String {
    if depth > 400 {
        return "<too-deep>".into();
    }
    let mut d = node_debug(ast, idx);
    let kind_owned = kind_of(&d).to_string();
    let my_kind = kind_owned.as_str();
    if opts.ignore_cosmetic && my_kind == "Debug" {
        // `debug` records the source text of its expression: layout dependent by design
        if let (Some(a), Some(b)) = (d.find("expression_string: "), d.find(", expression: ")) {
            if a < b {
                d.replace_range(a..b, "expression_string: _");
            }
        }
    }
    if opts.ignore_cosmetic {
        for (from, to) in [
            ("inline: true", "inline: _"),
            ("inline: false", "inline: _"),
            ("quote: Single", "quote: _"),
            ("quote: Double", "quote: _"),
            ("braces: true", "braces: _"),
            ("braces: false", "braces: _"),
            ("parentheses: true", "parentheses: _"),
            ("parentheses: false", "parentheses: _"),
        ] {
            d = d.replace(from, to);
        }
    }
    // accessed_non_locals is a set: sort its rendering
    let mut out = String::new();
    let mut last = 0;
    let mut subs: Vec<(usize, usize, String)> = vec![];
    for (s, e, n) in scan_indices(&d, "AstIndex") {
        if (n as usize) < ast.nodes().len() {
            subs.push((s, e, format!("<{}>", canonical_in(ast, AstIndex::from(n), opts, depth + 1, my_kind))));
        }
    }
    for (s, e, n) in scan_indices(&d, "ConstantIndex") {
        subs.push((s, e, format!("#{}#", constant_text(ast, n))));
    }
    subs.sort_by_key(|x| x.0);
    for (s, e, text) in subs {
        if s < last {
            continue;
        }
        out.push_str(&d[last..s]);
        out.push_str(&text);
        last = e;
    }
    out.push_str(&d[last..]);
    if opts.ignore_cosmetic && my_kind == "Nested" {
        // parentheses around a whole statement / block tail (the printer adds them to lines that
        // start with '-') or around a number literal
        let kids = children(ast, idx);
        if kids.len() == 1 {
            let stmt_pos = matches!(parent, "MainBlock" | "Block" | "Function" | "If" | "MatchArm" | "SwitchArm" | "For" | "While" | "Until" | "Loop" | "Try");
            if stmt_pos || matches!(kind_of(&node_debug(ast, kids[0])), "Int" | "SmallInt" | "Float") {
                return canonical_in(ast, kids[0], opts, depth + 1, parent);
            }
        }
    }
    if opts.ignore_cosmetic && my_kind == "TempTuple" && matches!(parent, "Assign" | "MultiAssign") {
        // `a, b = 1, 2` and `a, b = (1, 2)`: the paren-free spelling of the tuple on the right-hand side
        if let (Some(a), Some(b)) = (out.find('['), out.rfind(']')) {
            return format!("Tuple {{ elements: {}, parentheses: _ }}", &out[a..=b]);
        }
    }
    if opts.ignore_cosmetic && out.starts_with("Block([<") {
        // a block holding a single expression is the indented spelling of that expression
        let kids = children(ast, idx);
        if kids.len() == 1 {
            return canonical_in(ast, kids[0], opts, depth + 1, parent);
        }
    }
    out
}

pub fn canonical_program(ast: &Ast, opts: CanonOpts) -> String {
    match ast.entry_point() {
        Some(e) => canonical(ast, e, opts, 0),
        None => String::new(),
    }
}

/// Known-shape predicate: a return / break / continue node that has an ancestor which is an
/// expression under construction (sequence, string, operator operand, call argument, ...)
pub fn control_exit_inside_expression(ast: &Ast) -> bool {
    const FINE: [&str; 22] = [
        "MainBlock", "Block", "If", "Match", "MatchArm", "Switch", "SwitchArm", "Loop", "While", "Until", "For", "Function", "Try", "Assign", "MultiAssign", "Export", "Nested", "FunctionArgs", "Return", "Break", "Throw", "Yield",
    ];
    fn go(ast: &Ast, idx: AstIndex, in_expr: bool, depth: usize, found: &mut bool) {
        if depth > 400 || *found {
            return;
        }
        let d = node_debug(ast, idx);
        let k = kind_of(&d);
        if matches!(k, "Return" | "Break" | "Continue") && in_expr {
            *found = true;
            return;
        }
        // values of return / break / throw are expressions, but a control exit directly as their
        // value (`break i * return`) only counts through the operator node
        let child_in_expr = if k == "Function" { false } else { in_expr || !FINE.contains(&k) };
        for c in children(ast, idx) {
            go(ast, c, child_in_expr, depth + 1, found);
        }
    }
    let mut found = false;
    if let Some(e) = ast.entry_point() {
        go(ast, e, false, 0, &mut found);
    }
    found
}

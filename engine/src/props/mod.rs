use crate::core::Prop;
pub mod c09;

pub fn all() -> Vec<&'static Prop> {
    vec![&c09::PROP]
}

use crate::core::Prop;
pub mod c01;
pub mod c02;
pub mod c03;
pub mod c04;
pub mod c05;
pub mod c06;
pub mod c07;
pub mod c08;
pub mod c09;
pub mod c10;
pub mod c11;
pub mod c12;
pub mod c13;
pub mod c14;
pub mod c15;
pub mod c16;
pub mod c17;
pub mod c18;
pub mod c19;
pub mod c20;

pub fn all() -> Vec<&'static Prop> {
    vec![&c01::PROP, &c02::PROP, &c03::PROP, &c04::PROP, &c05::PROP, &c06::PROP, &c07::PROP, &c08::PROP, &c09::PROP, &c10::PROP, &c11::PROP, &c12::PROP, &c13::PROP, &c14::PROP, &c15::PROP, &c16::PROP, &c17::PROP, &c18::PROP, &c19::PROP, &c20::PROP]
}

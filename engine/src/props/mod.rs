use crate::core::Prop;
pub mod c06;
pub mod c09;

pub fn all() -> Vec<&'static Prop> {
    vec![&c06::PROP, &c09::PROP]
}

//! C03 — pattern matching and unpacking
use crate::core::*;
use crate::kx::{self, RunOpts};
use crate::lang::*;
use crate::model;
use crate::pgen::{self as gen_, Src};
use serde_json::{Value, json};

pub static PROP: Prop = Prop {
    id: "C03",
    rule: "(a) match shapes decoded from a proptest choice vector: 1-2 subjects (evaluated through a printing trace function), 1-5 arms x 1-3 `or` alternatives, patterns nested <= 3 from {literal, id, `_`, `_name`, typed id/wildcard, tuple/list pattern with optional leading/trailing `...`/`rest...`, map pattern with `as`}, optional `if` guards, optional else; every arm prints its index and all bound names. Each shape is run against a subject universe: scalars, ranges, maps over keys {x, y, z} and ALL containers of size <= 2 (quick: seeded sample of 40 per shape incl. size 3; thorough: all of size <= 3) over {0, 1, 'a', null, (1, 2), [0]}. (b) unpacking: multi-assignment with `_` holes from lists, tuples, ranges, ASCII strings, generators and scalars of length 0..5 for 2..4 targets, and `for` with several arguments. Oracle: the reference interpreter M per (shape, subject): first matching arm, exact bindings, null when nothing matches, subject evaluated once, missing targets null, extras ignored. Non-trivial: selected arm is not the first, or a nested / ellipsis / map pattern took part; distinct by (shape, subject) hash.",
    assumptions: &[
        "known shapes excluded by construction and replayed: F26 (arm binds the subject variable's name), C03-size-null (ellipsis pattern against a subject without a size)",
        "sequence patterns against strings, ranges and maps are not judged (the guide does not define them)",
        "alternatives of one arm bind no names (the guide has no rule for names bound in only some alternatives)",
    ],
    shards: |_| 14,
    run_shard,
    replay,
    min_nontrivial_fraction: 0.2,
};

const ATOMS: [&str; 6] = ["0", "1", "'a'", "null", "(1, 2)", "[0]"];

fn atom(i: usize) -> E {
    match i {
        0 => E::Int(0),
        1 => E::Int(1),
        2 => lit_str("a"),
        3 => E::Null,
        4 => E::Tuple(vec![E::Int(1), E::Int(2)]),
        _ => E::List(vec![E::Int(0)]),
    }
}

/// the subject universe (index -> expression)
pub fn universe() -> Vec<E> {
    let mut u = vec![E::Int(0), E::Int(1), E::Int(7), lit_str("a"), lit_str("b"), E::Null, E::Bool(true), E::Bool(false), E::Float(2.5), E::Paren(bx(E::Range(Some(bx(E::Int(0))), Some(bx(E::Int(2))), false)))];
    u.push(E::Map(vec![]));
    u.push(E::Map(vec![("x".into(), E::Int(0))]));
    u.push(E::Map(vec![("y".into(), E::Int(1))]));
    u.push(E::Map(vec![("x".into(), E::Int(0)), ("y".into(), E::Int(1))]));
    u.push(E::Map(vec![("x".into(), lit_str("a")), ("y".into(), E::List(vec![E::Int(0)])), ("z".into(), E::Int(1))]));
    u.push(E::Map(vec![("count".into(), E::Int(3)), ("x".into(), E::Int(0))]));
    u.push(E::Map(vec![("min".into(), E::Int(1)), ("keys".into(), E::Int(2))]));
    let n = ATOMS.len();
    for list in [false, true] {
        let mk = |v: Vec<E>| if list { E::List(v) } else { E::Tuple(v) };
        u.push(mk(vec![]));
        for a in 0..n {
            u.push(mk(vec![atom(a)]));
            for b in 0..n {
                u.push(mk(vec![atom(a), atom(b)]));
                for c in 0..n {
                    u.push(mk(vec![atom(a), atom(b), atom(c)]));
                }
            }
        }
    }
    // nested
    u.push(E::Tuple(vec![E::Tuple(vec![E::Int(0), E::Int(1)]), E::Int(1)]));
    u.push(E::Tuple(vec![E::Int(0), E::List(vec![E::Int(1), lit_str("a")])]));
    u.push(E::List(vec![E::Tuple(vec![E::Int(1), E::Int(2)]), E::Tuple(vec![E::Int(0)])]));
    u
}

struct PG<'a> {
    s: Src<'a>,
    names: usize,
    bound: Vec<String>,
    nested_used: bool,
}

impl<'a> PG<'a> {
    fn fresh(&mut self) -> String {
        self.names += 1;
        let n = format!("p{}", self.names);
        self.bound.push(n.clone());
        n
    }
    fn ty(&mut self) -> Option<String> {
        if self.s.chance(25) {
            Some(self.s.pick_str(&["Number", "String", "List", "Tuple", "Map", "Null", "Bool", "Any", "Indexable", "Iterable", "Number?"]))
        } else {
            None
        }
    }
    fn lit(&mut self) -> E {
        match self.s.below(6) {
            0 => E::Int(0),
            1 => E::Int(1),
            2 => lit_str("a"),
            3 => E::Null,
            4 => E::Bool(true),
            _ => E::Int(7),
        }
    }
    fn pat(&mut self, depth: u32, bind: bool) -> Pat {
        let c = if depth == 0 { self.s.weighted(&[35, 30, 20, 0, 0]) } else { self.s.weighted(&[25, 20, 12, 33, 10]) };
        match c {
            0 => Pat::Lit(self.lit()),
            1 => {
                if bind {
                    let t = self.ty();
                    Pat::Id(self.fresh(), t)
                } else {
                    let t = self.ty();
                    Pat::Wild(None, t)
                }
            }
            2 => {
                let t = self.ty();
                let named = self.s.chance(30);
                Pat::Wild(if named { Some("ig".into()) } else { None }, t)
            }
            3 => {
                self.nested_used = true;
                let n = self.s.below(4) as usize;
                let mut ps: Vec<Pat> = (0..n).map(|_| self.pat(depth - 1, bind)).collect();
                // `()` in a pattern is the null literal and `[]` is not a pattern: an empty sequence
                // pattern always carries an ellipsis
                let force_rest = ps.is_empty();
                match if force_rest { self.s.below(2) } else { self.s.below(5) } {
                    0 => {
                        let r = if bind && self.s.chance(60) { Pat::Rest(Some(self.fresh())) } else { Pat::Rest(None) };
                        ps.insert(0, r);
                    }
                    1 => {
                        let r = if bind && self.s.chance(60) { Pat::Rest(Some(self.fresh())) } else { Pat::Rest(None) };
                        ps.push(r);
                    }
                    _ => {}
                }
                // match patterns only know `()` sequence patterns (they match lists and tuples)
                let _ = self.s.chance(30);
                Pat::Seq(ps, false)
            }
            _ => {
                self.nested_used = true;
                // besides plain keys: keys that are also names of core-library functions of maps and
                // iterators (a missing key must not be found in a library module)
                let pool = ["x", "y", "z", "count", "min", "keys", "next", "size", "first", "get"];
                let n = 1 + self.s.below(2) as usize;
                let start = if self.s.chance(35) { 3 + self.s.below(6) as usize } else { 0 };
                let keys: Vec<&str> = (0..n).map(|i| pool[(start + i) % pool.len()]).collect();
                let mut es = vec![];
                for k in keys.iter() {
                    if bind {
                        if self.s.chance(30) {
                            let r = self.fresh();
                            es.push((k.to_string(), Some(r)));
                        } else {
                            self.bound.push(k.to_string());
                            es.push((k.to_string(), None));
                        }
                    } else {
                        // map patterns always bind their keys: only usable in binding arms
                        return Pat::Wild(None, None);
                    }
                }
                Pat::Map(es)
            }
        }
    }
}

#[derive(Clone, Debug, serde::Serialize, serde::Deserialize)]
pub struct Shape {
    pub n_subjects: usize,
    pub arms: Vec<Arm>,
    pub els: bool,
    pub nested: bool,
}

pub fn build_shape(data: &[u32]) -> Shape {
    let mut g = PG { s: Src::new(data), names: 0, bound: vec![], nested_used: false };
    let n_subjects = if g.s.chance(20) { 2 } else { 1 };
    let n_arms = 1 + g.s.below(5) as usize;
    let mut arms = vec![];
    for ai in 0..n_arms {
        let n_alts = 1 + g.s.weighted(&[65, 25, 10]);
        g.bound.clear();
        let bind = n_alts == 1;
        let mut alts = vec![];
        for _ in 0..n_alts {
            let mut alt = vec![];
            for _ in 0..n_subjects {
                alt.push(g.pat(3, bind));
            }
            alts.push(alt);
        }
        // duplicate names in one alternative are not allowed: make them unique by construction (fresh())
        let mut bound = g.bound.clone();
        bound.sort();
        bound.dedup();
        let guard = if g.s.chance(20) {
            // guards read a bound name when there is one
            Some(match bound.first() {
                Some(n) if g.s.chance(70) => E::Bin(Op::Ne, bx(id(n)), bx(E::Int(g.s.below(2) as i64))),
                _ => E::Bool(g.s.chance(50)),
            })
        } else {
            None
        };
        // body: print arm index and bound names, value = index
        let mut parts = vec![SPart::Lit(format!("A{ai}"))];
        for n in &bound {
            parts.push(SPart::Lit(format!(" {n}=")));
            parts.push(SPart::Expr(id(n), None));
        }
        arms.push(Arm { alts, guard, body: vec![E::Print(vec![E::Str(parts)]), E::Int(ai as i64)] });
    }
    let els = g.s.chance(30);
    Shape { n_subjects, arms, els, nested: g.nested_used }
}

/// patterns outside the generator's domain (reachable through reduction only)
fn bad_pat(p: &Pat) -> bool {
    match p {
        Pat::Seq(_, true) => true,
        Pat::Seq(ps, _) => ps.is_empty() || ps.iter().filter(|x| matches!(x, Pat::Rest(_))).count() > 1 || ps.iter().any(bad_pat),
        Pat::Map(es) => es.is_empty(),
        Pat::Rest(_) => false,
        _ => false,
    }
}

fn has_rest(p: &Pat) -> bool {
    match p {
        Pat::Rest(_) => true,
        Pat::Seq(ps, _) => ps.iter().any(has_rest),
        _ => false,
    }
}

/// the program for one shape and a list of subjects
pub fn program(shape: &Shape, subjects: &[Vec<E>]) -> Vec<E> {
    let mut prog = gen_::header();
    let params: Vec<String> = (0..shape.n_subjects).map(|i| format!("s{i}")).collect();
    let subj: Vec<E> = params.iter().map(|p| E::Call(bx(id("tr")), vec![(id(p), false)])).collect();
    let m = E::Match(subj, shape.arms.clone(), if shape.els { Some(vec![E::Print(vec![lit_str("ELSE")]), E::Int(-1)]) } else { None });
    prog.push(E::Assign(
        bx(id("mf")),
        None,
        bx(E::Fn(params.iter().map(|p| FnArg { pat: Pat::Id(p.clone(), None), default: None, variadic: false }).collect(), None, vec![E::Assign(bx(id("r")), None, bx(m)), id("r")])),
    ));
    for s in subjects {
        let call = E::Call(bx(id("mf")), s.iter().map(|e| (e.clone(), false)).collect());
        prog.push(E::Try(
            vec![E::Print(vec![E::Str(vec![SPart::Lit("=> ".into()), SPart::Expr(call, None)])])],
            vec![Catch { name: "_e".into(), ty: None, body: vec![E::Print(vec![lit_str("ERR")])] }],
            None,
        ));
    }
    prog
}

/// Names documented for a core-library module (`## name` headings of its documentation page)
fn core_names(module: &str) -> &'static Vec<String> {
    use std::collections::HashMap;
    use std::sync::{Mutex, OnceLock};
    static CACHE: OnceLock<Mutex<HashMap<String, &'static Vec<String>>>> = OnceLock::new();
    let mut c = CACHE.get_or_init(|| Mutex::new(HashMap::new())).lock().unwrap();
    if let Some(v) = c.get(module) {
        return v;
    }
    let text = std::fs::read_to_string(format!("/repo/docs/core_lib/{module}.md")).unwrap_or_default();
    let names: Vec<String> = text.lines().filter_map(|l| l.strip_prefix("## ")).map(|n| n.trim().to_string()).collect();
    let leaked: &'static Vec<String> = Box::leak(Box::new(names));
    c.insert(module.to_string(), leaked);
    leaked
}

fn map_pattern_keys(p: &Pat, out: &mut Vec<String>) {
    match p {
        Pat::Map(es) => out.extend(es.iter().map(|e| e.0.clone())),
        Pat::Seq(ps, _) => ps.iter().for_each(|q| map_pattern_keys(q, out)),
        _ => {}
    }
}

/// Recorded finding C03-map-pattern-core-fn: a map pattern reads its keys with the ordinary `.` lookup,
/// so a key that names a core-library function of the subject's type "is present" in any such value
fn core_fn_leak(shape: &Shape, subject: &[E]) -> bool {
    let mut keys = vec![];
    for a in &shape.arms {
        for alt in &a.alts {
            for p in alt {
                map_pattern_keys(p, &mut keys);
            }
        }
    }
    fn leaks(k: &str, v: &E) -> bool {
        if let E::Paren(x) = v {
            return leaks(k, x);
        }
        let has = |m: &str| core_names(m).iter().any(|n| n == k);
        let here = match v {
            E::List(_) => has("list") || has("iterator"),
            E::Tuple(_) => has("tuple") || has("iterator"),
            E::Str(_) => has("string") || has("iterator"),
            E::Range(..) => has("range") || has("iterator"),
            E::Int(_) | E::Float(_) => has("number"),
            E::Map(es) => !es.iter().any(|(n, _)| n == k) && has("map"),
            _ => false,
        };
        here || match v {
            E::List(xs) | E::Tuple(xs) => xs.iter().any(|x| leaks(k, x)),
            E::Map(es) => es.iter().any(|(_, x)| leaks(k, x)),
            _ => false,
        }
    }
    keys.iter().any(|k| subject.iter().any(|v| leaks(k, v)))
}

pub fn eval_shape(shape: &Shape, subjects: &[Vec<E>]) -> Eval {
    // judge every subject separately in M; keep the judged ones for the Koto script
    let mut judged: Vec<Vec<E>> = vec![];
    let mut expected = String::new();
    let mut nontrivial = false;
    let mut unjudged = 0;
    let mut leak_excluded = 0;
    for s in subjects {
        if core_fn_leak(shape, s) {
            leak_excluded += 1;
            continue;
        }
        let p = program(shape, std::slice::from_ref(s));
        let m = model::run_program(&p, true);
        match m.result {
            Some(Ok(_)) => {
                if !m.stdout.contains("A0") || shape.nested {
                    nontrivial = true;
                }
                expected.push_str(&m.stdout);
                judged.push(s.clone());
            }
            _ => unjudged += 1,
        }
    }
    if judged.is_empty() {
        let mut ev = Eval { discard: true, classes: vec!["all-subjects-unjudged"], ..Default::default() };
        for _ in 0..leak_excluded {
            ev.classes.push("excluded:map-pattern-core-fn");
        }
        return ev;
    }
    let prog = program(shape, &judged);
    let src = print_program(&prog, &Layout::canonical());
    let out = kx::run(&src, &RunOpts::default());
    let mut ev = Eval::pass(nontrivial);
    for _ in 0..leak_excluded {
        ev.classes.push("excluded:map-pattern-core-fn");
    }
    if unjudged > 0 {
        ev.classes.push("some-subjects-unjudged");
    }
    if shape.nested {
        ev.classes.push("nested-or-map-pattern");
    }
    if shape.arms.iter().any(|a| a.alts.len() > 1) {
        ev.classes.push("alternatives");
    }
    if shape.arms.iter().any(|a| a.guard.is_some()) {
        ev.classes.push("guard");
    }
    if shape.arms.iter().any(|a| a.alts.iter().any(|alt| alt.iter().any(has_rest))) {
        ev.classes.push("ellipsis");
    }
    if let kx::Outcome::CompileErr(m, _) = &out.outcome {
        ev.fail = Some(Fail::new("c03:compile-error", format!("match shape does not compile: {m}\n{src}")));
        return ev;
    }
    if out.stdout != expected || !out.outcome.is_ok() {
        // find the first differing subject for the report
        let el: Vec<&str> = expected.lines().collect();
        let ol: Vec<&str> = out.stdout.lines().collect();
        let k = el.iter().zip(ol.iter()).position(|(a, b)| a != b).unwrap_or(el.len().min(ol.len()));
        ev.fail = Some(Fail::new(
            "c03:match-diff",
            format!("first difference at output line {k}: model {:?}, koto {:?}; koto outcome {:?}\n--- source:\n{src}", el.get(k), ol.get(k), out.outcome.class()),
        ));
    }
    ev
}

fn pick_subjects(shape: &Shape, seed: u64, all: bool, u: &[E]) -> Vec<Vec<E>> {
    let mut out = vec![];
    if shape.n_subjects == 1 {
        for (i, e) in u.iter().enumerate() {
            let big = matches!(e, E::List(v) | E::Tuple(v) if v.len() == 3);
            if all || !big || fnv(format!("{seed}:{i}").as_bytes()) % 100 < 6 {
                out.push(vec![e.clone()]);
            }
        }
        if !all && out.len() > 60 {
            // seeded sample of 60
            out.sort_by_key(|s| fnv(format!("{seed}:{}", print_expr(&s[0])).as_bytes()));
            out.truncate(60);
        }
    } else {
        let small: Vec<&E> = u.iter().filter(|e| !matches!(e, E::List(v) | E::Tuple(v) if v.len() >= 2)).collect();
        for (i, a) in small.iter().enumerate() {
            for (j, b) in small.iter().enumerate() {
                if all || fnv(format!("{seed}:{i}:{j}").as_bytes()) % 100 < 8 {
                    out.push(vec![(*a).clone(), (*b).clone()]);
                }
            }
        }
    }
    out
}

// ---------------------------------------------------------------------------------------------
// unpacking

fn unpack_program(data: &[u32]) -> Vec<E> {
    let mut s = Src::new(data);
    let mut prog = gen_::header();
    // a generator used as source
    prog.push(E::Assign(
        bx(id("gen")),
        None,
        bx(E::Fn(
            vec![FnArg { pat: Pat::Id("n".into(), None), default: None, variadic: false }],
            None,
            vec![E::For(
                vec![Pat::Id("i".into(), None)],
                bx(E::Range(Some(bx(E::Int(0))), Some(bx(id("n"))), false)),
                vec![E::Print(vec![E::Str(vec![SPart::Lit("pull ".into()), SPart::Expr(id("i"), None)])]), E::Yield(bx(E::Bin(Op::Mul, bx(id("i")), bx(E::Int(10)))))],
            )],
        )),
    ));
    let n_stmts = 2 + s.below(5);
    let mut counter = 0;
    let mut all_names: Vec<String> = vec![];
    for _ in 0..n_stmts {
        let len = s.below(6) as usize;
        let items: Vec<E> = (0..len).map(|i| E::Int(i as i64 + 1)).collect();
        let src_e = match s.below(7) {
            0 => E::List(items),
            1 => E::Tuple(items),
            2 => E::Range(Some(bx(E::Int(0))), Some(bx(E::Int(len as i64))), false),
            3 => lit_str(&"abcdef"[..len]),
            4 => E::Call(bx(id("gen")), vec![(E::Int(len as i64), false)]),
            5 => E::Int(42),
            _ => E::Call(bx(id("tr")), vec![(E::Tuple(items), false)]),
        };
        let n_targets = 2 + s.below(3) as usize;
        if s.chance(75) {
            let mut names = vec![];
            let mut targets = vec![];
            for _ in 0..n_targets {
                if s.chance(20) {
                    targets.push(id("_"));
                } else if !all_names.is_empty() && s.chance(40) {
                    // a target that already holds a value: a missing element must overwrite it with null
                    let n: String = all_names[s.below(all_names.len() as u32) as usize].clone();
                    if !names.contains(&n) {
                        names.push(n.clone());
                        targets.push(id(&n));
                    } else {
                        targets.push(id("_"));
                    }
                } else {
                    counter += 1;
                    let n = format!("t{counter}");
                    names.push(n.clone());
                    all_names.push(n.clone());
                    targets.push(id(&n));
                }
            }
            if names.is_empty() {
                continue;
            }
            prog.push(E::MultiAssign(targets, bx(src_e)));
            let mut parts = vec![];
            for n in &names {
                parts.push(SPart::Lit(format!("{n}=")));
                parts.push(SPart::Expr(id(n), None));
                parts.push(SPart::Lit(" ".into()));
            }
            prog.push(E::Print(vec![E::Str(parts)]));
        } else {
            // for with several arguments over a list of tuples of varying sizes
            let rows = 1 + s.below(3);
            let mut list = vec![];
            for _ in 0..rows {
                let w = s.below(4) as usize;
                let row: Vec<E> = (0..w).map(|i| E::Int(i as i64 + 10 * list.len() as i64)).collect();
                list.push(if s.chance(50) { E::Tuple(row) } else { E::List(row) });
            }
            counter += 2;
            let (a, b) = (format!("t{}", counter - 1), format!("t{counter}"));
            let second_wild = s.chance(20);
            let mut parts = vec![SPart::Lit("row ".into()), SPart::Expr(id(&a), None)];
            if !second_wild {
                // the arguments keep their values from the previous iteration unless every row rebinds them
                parts.push(SPart::Lit(" ".into()));
                parts.push(SPart::Expr(id(&b), None));
            }
            prog.push(E::For(
                vec![Pat::Id(a.clone(), None), if second_wild { Pat::Wild(None, None) } else { Pat::Id(b.clone(), None) }],
                bx(E::List(list)),
                vec![E::Print(vec![E::Str(parts)])],
            ));
        }
    }
    prog
}

fn eval_unpack(prog: &[E]) -> Eval {
    let m = model::run_program(prog, true);
    let Some(res) = m.result else {
        return Eval { discard: true, classes: vec!["unjudged"], ..Default::default() };
    };
    let src = print_program(prog, &Layout::canonical());
    let out = kx::run(&src, &RunOpts::default());
    let mut ev = Eval::pass(true).class("unpacking");
    let exp = crate::props::c01::Expect { stdout: m.stdout, result: res };
    if let Some((what, detail)) = crate::props::c01::compare(&exp, &out) {
        ev.fail = Some(Fail::new(format!("c03:unpack-{what}"), format!("{detail}\n--- source:\n{src}")));
    }
    ev
}

fn shape_json(shape: &Shape, subjects: &[Vec<E>]) -> Value {
    json!({"kind": "match", "shape": serde_json::to_value(shape).unwrap(), "subjects": serde_json::to_value(subjects).unwrap(), "src": print_program(&program(shape, &subjects[..subjects.len().min(3)]), &Layout::canonical())})
}

fn run_shard(ctx: &mut Ctx) {
    let u = universe();
    let quick = ctx.quick();
    let seed = ctx.seed;
    let n = ctx.tier.pick(12_000, 120_000);
    let post = |data: &Vec<u32>, f: &Fail| -> Option<(Value, Fail)> {
        let shape = build_shape(data);
        let subjects = pick_subjects(&shape, seed ^ fnv(&serde_json::to_vec(&shape.arms).unwrap()), !quick, &u);
        reduce_match(&shape, &subjects, f)
    };
    ctx.explore_r(
        "match",
        n,
        &gen_::choice_stream(220),
        |data| {
            let shape = build_shape(data);
            let subjects = pick_subjects(&shape, seed ^ fnv(&serde_json::to_vec(&shape.arms).unwrap()), !quick, &u);
            shape_json(&shape, &subjects)
        },
        |data| {
            let shape = build_shape(data);
            let subjects = pick_subjects(&shape, seed ^ fnv(&serde_json::to_vec(&shape.arms).unwrap()), !quick, &u);
            let mut ev = eval_shape(&shape, &subjects);
            ev.classes.push(if shape.n_subjects == 2 { "two-subjects" } else { "one-subject" });
            ev
        },
        Some(&post),
    );
    let n2 = ctx.tier.pick(12_000, 120_000);
    ctx.explore(
        "unpack",
        n2,
        &gen_::choice_stream(80),
        |data| {
            let p = unpack_program(data);
            json!({"kind": "unpack", "src": print_program(&p, &Layout::canonical()), "ast": serde_json::to_value(&p).unwrap()})
        },
        |data| eval_unpack(&unpack_program(data)),
    );
}

fn reduce_match(shape: &Shape, subjects: &[Vec<E>], f: &Fail) -> Option<(Value, Fail)> {
    let class = sig_class(&f.sig).to_string();
    // 1. find a single failing subject
    let mut subj: Option<Vec<E>> = None;
    for s in subjects {
        if let Ok(ev) = guarded(|| eval_shape(shape, std::slice::from_ref(s))) {
            if ev.fail.map(|f2| sig_class(&f2.sig) == class).unwrap_or(false) {
                subj = Some(s.clone());
                break;
            }
        }
    }
    let subj = subj?;
    // 2. reduce the shape
    let mut last = None;
    let leaves = [json!("Null"), json!({"Int": 0}), json!({"Wild": [null, null]})];
    let reduced = crate::shrink::reduce(
        shape,
        &leaves,
        &mut |sh: &Shape| {
            if sh.arms.is_empty() || sh.arms.iter().any(|a| a.alts.is_empty() || a.body.is_empty() || a.alts.iter().any(|alt| alt.len() != sh.n_subjects || alt.iter().any(bad_pat))) {
                return false;
            }
            match guarded(|| eval_shape(sh, std::slice::from_ref(&subj))) {
                Ok(ev) => match ev.fail {
                    Some(f2) if sig_class(&f2.sig) == class => {
                        last = Some(f2);
                        true
                    }
                    _ => false,
                },
                Err(_) => false,
            }
        },
        std::time::Duration::from_secs(10),
    );
    last.map(|f2| (shape_json(&reduced, &[subj.clone()]), f2))
}

fn replay(case: &Value) -> Option<Fail> {
    match case["kind"].as_str()? {
        "match" => {
            let shape: Shape = serde_json::from_value(case["shape"].clone()).ok()?;
            let subjects: Vec<Vec<E>> = serde_json::from_value(case["subjects"].clone()).ok()?;
            eval_shape(&shape, &subjects).fail
        }
        "unpack" => {
            let p: Vec<E> = serde_json::from_value(case["ast"].clone()).ok()?;
            eval_unpack(&p).fail
        }
        "known-src" => {
            // hand-written repro of a known shape: source + expected stdout
            let out = kx::run(case["src"].as_str()?, &RunOpts::default());
            let exp = case["expect_stdout"].as_str()?;
            if out.stdout != exp { Some(Fail::new(format!("c03:shape-{}", case["shape"].as_str()?), format!("expected stdout {exp:?}, got {:?} ({:?})", out.stdout, out.outcome))) } else { None }
        }
        _ => None,
    }
}

//! C07 — a failed run leaves the runtime reusable and clean
use crate::core::*;
use crate::kx::{self, Capture, RunOpts};
use crate::pgen::{Src, choice_stream};
use koto_runtime::{BinaryOp, KValue, ReadOp, UnaryOp, WriteOp};
use serde::{Deserialize, Serialize};
use serde_json::{Value, json};
use std::path::PathBuf;

pub static PROP: Prop = Prop {
    id: "C07",
    rule: "histories of 3-24 operations on ONE Koto instance decoded from a proptest choice vector: compile_and_run of succeeding scripts (export a value, push to an exported list), of failing scripts (30 failure carriers: top-level throw; error at call depth 1-4; inside each / fold / sort / keep callbacks; inside a generator; inside a half-built list / tuple / map / interpolated string / argument list / nested combinations of them; `return` and `break` out of half-built values; failed let / argument / return hint; compile error; missing import; import of a module that throws after exporting; import cycle; error inside @+ / @iterator / @index / @display overloads; rethrow from catch; error inside finally; failing @test; timeout under a 40 ms limit) each preceded by completed effects, call_exported_function / call_function with good and bad arguments, value_to_string of good and throwing values, and the VM entry points run_unary_op (7 operators), run_binary_op (24), run_read_op, run_write_op, make_iterator + next on operands whose overloads succeed, throw or return the wrong type. After EVERY operation: (1) the guarded accessor reports registers = call stack = sequence builders = string builders = register base = 0; (2) a battery of 10 probe scripts (nested calls, 300-element list literal, interpolation with nested call, generator, unpacking, try/catch, good import, recursion depth 100, nested builders inside a caught error) prints exactly what it prints on a fresh instance; (3) the exports map equals the model's (completed effects only). In addition 400 consecutive failing host calls of each kind are followed by the battery. Non-trivial: the history contains a failure followed by at least two further operations.",
    assumptions: &[
        "the module directory is created per shard under engine/run; timeouts use a 40 ms limit and are drawn rarely (they cost wall-clock time)",
        "the Ok/Err outcome of an individual host call is only judged where the guide defines it (write through run_write_op, exported function results); the property is about what is left behind",
    ],
    shards: |_| 16,
    run_shard,
    replay,
    min_nontrivial_fraction: 0.3,
};

// ---------------------------------------------------------------------------------------------

const SETUP: &str = "\
export l = []
export f_ok = |x| x + 1
export f_throw = |x| throw 'boom'
export f_nested = |x| [1, (2, '{x}{f_throw x}')]
export f_cb = |x| (1, 2, 3).each(|y| if y == x then throw 'cb' else y).to_tuple()
export f_gen = |x|
  g = ||
    yield 1
    throw 'gen'
  g().to_tuple()
export f_catch = |x|
  try
    f_nested x
  catch e
    'caught'
export obj_bad =
  @display: || throw 'disp'
  @debug: || 42
  @negate: || throw 'neg'
  @+: |o| throw 'add'
  @r+: |o| throw 'radd'
  @+=: |o| throw 'addassign'
  @<: |o| throw 'less'
  @==: |o| 'notabool'
  @index: |i| throw 'idx'
  @index_assign: |i, v| throw 'ia'
  @access: |k| throw 'acc'
  @access_assign: |k, v| throw 'aa'
  @size: || 'notanumber'
  @iterator: || throw 'it'
  @call: || throw 'call'
export obj_next_bad =
  @next: || throw 'next'
  @next_back: || throw 'nextback'
export obj_ok =
  @display: || 'OK'
  @negate: || 1
  @+: |o| 2
  @r+: |o| 3
  @+=: |o| self
  @<: |o| true
  @==: |o| true
  @index: |i| 3
  @index_assign: |i, v| null
  @size: || 4
  @iterator: || (1, 2).iter()
  @call: || 5
export obj_unimpl =
  @+: |o| throw koto.unimplemented
export plain_list = [1, 2, 3]
";

/// (name, body) — each body is appended after the completed effects and must fail
pub fn carriers() -> Vec<(&'static str, &'static str)> {
    vec![
        ("throw", "throw 'top'\n"),
        ("depth3", "a = || throw 'deep'\nb = || [a()]\nc = || '{b()}'\nc()\n"),
        ("each", "(1, 2).each(|x| throw 'e').to_tuple()\n"),
        ("fold", "(1, 2).fold 0, |a, x| throw 'e'\n"),
        ("sort", "[2, 1].sort |x| throw 'e'\n"),
        ("keep", "[2, 1].keep(|x| throw 'e').to_list()\n"),
        ("generator", "g = ||\n  yield 1\n  throw 'gen'\nfor x in g()\n  x\n"),
        ("list", "f = || throw 'e'\n[1, 2, f()]\n"),
        ("tuple", "f = || throw 'e'\n(1, 2, f())\n"),
        ("map", "f = || throw 'e'\nm = {a: 1, b: f()}\n"),
        ("string", "f = || throw 'e'\n'{1}{f()}'\n"),
        ("args", "f = || throw 'e'\ng = |a, b| a\ng 1, f()\n"),
        ("nested-builders", "f = || throw 'e'\n[1, (2, '{3}{[4, f()]}')]\n"),
        ("nested-in-call", "f = || throw 'e'\ng = |x| [x, '{x}{f()}']\n['a', g(1)]\n"),
        ("return-in-list", "f = || [1, 2, return 3]\nf()\nthrow 'after'\n"),
        ("break-in-list", "for x in (1, 2)\n  y = [x, (x, break)]\nthrow 'after'\n"),
        ("let-hint", "let x: String = 1\n"),
        ("export-let-hint", "export let bad_export: Number = 'str'\n"),
        ("export-multi-hint", "export let bad_a: Number, bad_b: Number = 'x', 1\n"),
        ("arg-hint", "f = |x: String| x\nf 1\n"),
        ("ret-hint", "f = |x| -> String\n  x\nf 1\n"),
        ("compile-error", "x = (1,\n"),
        ("import-missing", "import no_such_module_c07\n"),
        ("import-bad", "import bad\n"),
        ("import-cycle", "import cyc_a\n"),
        ("import-bad-main", "import bad_main\n"),
        ("import-bad-test", "import bad_test\n"),
        ("overload-add", "o = {@+: |x| throw 'add'}\n[1, o + 1]\n"),
        ("overload-iterator", "o = {@iterator: || throw 'it'}\nfor x in o\n  x\n"),
        ("overload-index", "f = |(a, b)| a\no = {@index: (|i| throw 'ix'), @size: || 2}\n[1, f o]\n"),
        ("overload-display", "o = {@display: || throw 'd'}\n'{1}{o}'\n"),
        ("rethrow", "try\n  throw 'a'\ncatch e\n  [1, throw e]\n"),
        ("finally", "try\n  1\ncatch e\n  2\nfinally\n  f = || throw 'fin'\n  [1, '{1}{f()}']\n"),
        ("test", "@test failing = ||\n  assert false\n"),
        ("unimplemented", "o = {@+: |x| throw koto.unimplemented}\n(1, o + 1)\n"),
        ("native-callback-depth", "f = |x| (1, 2).each(|y| (3, 4).each(|z| throw 'zz').to_tuple()).to_tuple()\n'{f 1}'\n"),
        ("timeout", "x = 0\nloop\n  x += 1\n"),
        // the limit strikes while the executing frame is not the entry frame
        ("timeout-in-function", "f = ||\n  x = 0\n  loop\n    x += 1\ng = || [1, '{f()}']\ng()\n"),
        ("timeout-in-generator", "g = ||\n  yield 1\n  x = 0\n  loop\n    x += 1\nfor v in g()\n  v\n"),
        ("timeout-in-callback", "cb = |v|\n  x = 0\n  loop\n    x += 1\n(1, 2).each(cb).to_tuple()\n"),
        ("timeout-in-overload", "o =\n  @+: |r|\n    x = 0\n    loop\n      x += 1\n[1, o + 1]\n"),
    ]
}

#[derive(Clone, Debug, Serialize, Deserialize)]
pub enum Op {
    RunOk(i64),
    RunFail(usize, i64),
    CallExported(String, u8),
    ValueToString(u8),
    Unary(u8, u8),
    Binary(u8, u8, u8),
    Read(u8, u8),
    Write(u8, u8),
    MakeIterator(u8),
}

const FUNCS: [&str; 9] = ["f_ok", "f_throw", "f_nested", "f_cb", "f_gen", "f_catch", "obj_ok", "obj_bad", "no_such_fn"];
const OPERANDS: u8 = 8;

fn gen_history(s: &mut Src, allow_timeout: bool) -> Vec<Op> {
    let n = 3 + s.below(22) as usize;
    let ncar = carriers().len() as u32;
    let mut ops = vec![];
    for k in 0..n {
        let op = match s.weighted(&[3, 8, 3, 2, 3, 3, 2, 2, 2]) {
            0 => Op::RunOk(k as i64 + 1),
            1 => {
                let mut c = s.below(ncar) as usize;
                if carriers()[c].0.starts_with("timeout") && !(allow_timeout && s.below(2) == 0) {
                    // (the timeout carriers are the last five of the table)
                    c = s.below(ncar - 5) as usize;
                }
                Op::RunFail(c, k as i64 + 1)
            }
            2 => Op::CallExported(FUNCS[s.below(FUNCS.len() as u32) as usize].to_string(), s.below(3) as u8),
            3 => Op::ValueToString(s.below(OPERANDS as u32) as u8),
            4 => Op::Unary(s.below(7) as u8, s.below(OPERANDS as u32) as u8),
            5 => Op::Binary(s.below(24) as u8, s.below(OPERANDS as u32) as u8, s.below(OPERANDS as u32) as u8),
            6 => Op::Read(s.below(2) as u8, s.below(OPERANDS as u32) as u8),
            7 => Op::Write(s.below(2) as u8, s.below(OPERANDS as u32) as u8),
            _ => Op::MakeIterator(s.below(OPERANDS as u32) as u8),
        };
        ops.push(op);
    }
    ops
}

fn operand(koto: &koto::Koto, k: u8) -> KValue {
    let get = |n: &str| koto.exports().get(n).unwrap_or(KValue::Null);
    match k {
        0 => get("obj_ok"),
        1 => get("obj_bad"),
        2 => get("obj_next_bad"),
        3 => get("obj_unimpl"),
        4 => KValue::Number(1.into()),
        5 => KValue::Str("str".into()),
        6 => get("plain_list"),
        _ => KValue::Null,
    }
}

const UNARY: [UnaryOp; 7] = [UnaryOp::Debug, UnaryOp::Display, UnaryOp::Iterator, UnaryOp::Next, UnaryOp::NextBack, UnaryOp::Negate, UnaryOp::Size];
const BINARY: [BinaryOp; 24] = [
    BinaryOp::Add,
    BinaryOp::Subtract,
    BinaryOp::Multiply,
    BinaryOp::Divide,
    BinaryOp::Remainder,
    BinaryOp::Power,
    BinaryOp::AddRhs,
    BinaryOp::SubtractRhs,
    BinaryOp::MultiplyRhs,
    BinaryOp::DivideRhs,
    BinaryOp::RemainderRhs,
    BinaryOp::PowerRhs,
    BinaryOp::AddAssign,
    BinaryOp::SubtractAssign,
    BinaryOp::MultiplyAssign,
    BinaryOp::DivideAssign,
    BinaryOp::RemainderAssign,
    BinaryOp::PowerAssign,
    BinaryOp::Less,
    BinaryOp::LessOrEqual,
    BinaryOp::Greater,
    BinaryOp::GreaterOrEqual,
    BinaryOp::Equal,
    BinaryOp::NotEqual,
];

fn battery() -> Vec<&'static str> {
    vec![
        "f = |a| |b| |c| a + b + c\nprint f(1)(2)(3)\n",
        "x = 7\nl = [x, x + 1, x + 2, x + 3, x + 4, x + 5, x + 6, x + 7, x + 8, x + 9, x + 10, x + 11, x + 12, x + 13, x + 14, x + 15, x + 16, x + 17, x + 18, x + 19]\nprint l.fold 0, |a, b| a + b\nprint size (0..300).to_list()\n",
        "g = |x| '<{x}>'\nprint 'a{g 1}b{g (g 2)}c{[g 3, (g 4, 5)]}'\n",
        "gen = |n|\n  for i in 0..n\n    yield i * i\nprint gen(5).to_tuple()\n",
        "a, b, c = 1, (2, 3, 4), 5\nprint a, b, c\nf = |(x, y), z...| x + y + size z\nprint f((1, 2), 3, 4)\nmatch b\n  (first, rest...) then print first, rest\n",
        "r = try\n  [1, '{1 + null}']\ncatch e\n  'caught'\nfinally\n  print 'fin'\nprint 'outer<{r}>' \n",
        "import good\nprint good.value, good.twice 21\n",
        "f = |n| if n == 0 then 0 else 1 + f(n - 1)\nprint f 100\n",
        "h = ||\n  try\n    (1, [2, '{3}{throw 'x'}'])\n  catch _\n    'c'\nprint [0, 'p{h()}q', (h(), 1)]\n",
        // modules whose import fails must fail again in the same way
        "f1 = ||\n  try\n    import bad\n    'imported'\n  catch e\n    'failed'\nf2 = ||\n  try\n    import bad_main\n    'imported'\n  catch e\n    'failed'\nf3 = ||\n  try\n    import bad_test\n    'imported'\n  catch e\n    'failed'\nf4 = ||\n  try\n    import cyc_a\n    'imported'\n  catch e\n    'failed'\nprint f1(), f2(), f3(), f4()\n",
    ]
}

/// Debug helper: the battery's output on a fresh instance
pub fn print_battery() {
    let dir = PathBuf::from(format!("/verif/engine/run/c07-modules/dbg-{}", std::process::id()));
    write_modules(&dir);
    let mut fresh = new_instance(&dir, None);
    for (i, o) in battery_outputs(&mut fresh).iter().enumerate() {
        println!("{i}: {o:?}");
    }
    let _ = std::fs::remove_dir_all(&dir);
}

pub struct Instance {
    pub koto: koto::Koto,
    pub cap: Capture,
    pub dir: PathBuf,
}

pub fn write_modules(dir: &PathBuf) {
    let _ = std::fs::create_dir_all(dir);
    let w = |n: &str, t: &str| {
        let _ = std::fs::write(dir.join(n), t);
    };
    w("main.koto", "# the script path must exist for imports to resolve\n");
    w("good.koto", "export value = 'good'\nexport twice = |x| x * 2\n");
    w("bad.koto", "export early = 1\nthrow 'bad module'\n");
    w("bad_main.koto", "export value = 42\n@main = || throw 'flaky main failed'\n");
    w("bad_test.koto", "export value = 43\n@test failing = || assert false\n");
    w("cyc_a.koto", "import cyc_b\nexport a = 1\n");
    w("cyc_b.koto", "import cyc_a\nexport b = 1\n");
}

pub fn new_instance(dir: &PathBuf, limit_ms: Option<u64>) -> Instance {
    let cap = Capture::default();
    let mut settings = kx::settings(&cap, &RunOpts { limit_ms, ..Default::default() });
    settings.run_tests = false;
    let koto = koto::Koto::with_settings(settings);
    Instance { koto, cap, dir: dir.clone() }
}

fn run_script(inst: &mut Instance, src: &str) -> kx::Outcome {
    let path = inst.dir.join("main.koto");
    let opts = RunOpts { script_path: Some(path.to_string_lossy().to_string()), ..Default::default() };
    kx::run_on(&mut inst.koto, src, &opts)
}

fn battery_outputs(inst: &mut Instance) -> Vec<String> {
    battery()
        .iter()
        .map(|b| {
            inst.cap.take();
            let o = run_script(inst, b);
            format!("{}|{}", inst.cap.take(), o.class())
        })
        .collect()
}

fn render(v: &KValue) -> String {
    match v {
        KValue::Number(n) => n.to_string(),
        KValue::Str(s) => format!("'{s}'"),
        KValue::List(l) => format!("[{}]", l.data().iter().map(render).collect::<Vec<_>>().join(", ")),
        KValue::Map(_) => "map".into(),
        KValue::Function(_) => "fn".into(),
        KValue::Null => "null".into(),
        other => other.type_as_string().to_string(),
    }
}

fn exports_rendered(inst: &Instance) -> Vec<(String, String)> {
    inst.koto.exports().data().iter().map(|(k, v)| (render(k.value()), render(v))).collect()
}

fn apply(inst: &mut Instance, op: &Op, model: &mut Vec<(String, String)>, list: &mut Vec<i64>) -> Option<String> {
    // returns a description of a wrongly judged outcome (only where the outcome is defined)
    let set = |model: &mut Vec<(String, String)>, k: &str, v: String| {
        if let Some(e) = model.iter_mut().find(|e| e.0 == format!("'{k}'")) {
            e.1 = v;
        } else {
            model.push((format!("'{k}'"), v));
        }
    };
    match op {
        Op::RunOk(n) => {
            let src = format!("export a = {n}\nl.push {n}\nexport b{n} = 'b'\n");
            let o = run_script(inst, &src);
            list.push(*n);
            set(model, "a", n.to_string());
            set(model, &format!("b{n}"), "'b'".into());
            if !o.is_ok() {
                return Some(format!("a succeeding script failed: {o:?}"));
            }
        }
        Op::RunFail(c, n) => {
            let (name, body) = carriers()[*c];
            let src = format!("export a = {n}\nl.push {n}\n{body}");
            // tests are only enabled for the carrier that needs them: an exported failing test would
            // (by design) make every later run on the instance fail as well
            inst.koto.set_run_tests(name == "test");
            let o = run_script(inst, &src);
            inst.koto.set_run_tests(false);
            if name != "compile-error" {
                list.push(*n);
                set(model, "a", n.to_string());
            }
            if o.is_ok() {
                return Some(format!("failure carrier {name} did not fail"));
            }
        }
        Op::CallExported(name, arg) => {
            let a = match arg {
                0 => KValue::Number(1.into()),
                1 => KValue::Str("s".into()),
                _ => KValue::Null,
            };
            let r = inst.koto.call_exported_function(name, &[a][..]);
            match (name.as_str(), arg, &r) {
                ("f_ok", 0, Ok(KValue::Number(n))) if i64::from(n) == 2 => {}
                ("f_ok", 0, other) => return Some(format!("f_ok(1) gave {:?}", other.as_ref().map(render).map_err(|e| e.to_string()))),
                ("f_catch", _, Ok(KValue::Str(s))) if s.as_str() == "caught" => {}
                ("f_catch", _, other) => return Some(format!("f_catch gave {:?}", other.as_ref().map(render).map_err(|e| e.to_string()))),
                ("f_throw" | "f_nested" | "f_gen" | "no_such_fn", _, Ok(v)) => return Some(format!("{name} returned {} instead of failing", render(v))),
                _ => {}
            }
        }
        Op::ValueToString(k) => {
            let v = operand(&inst.koto, *k);
            let r = inst.koto.value_to_string(v);
            match (k, &r) {
                (0, Ok(s)) if s == "OK" => {}
                (0, other) => return Some(format!("value_to_string(obj_ok) gave {other:?}")),
                (1, Ok(s)) => return Some(format!("value_to_string of a throwing @display gave {s:?}")),
                _ => {}
            }
        }
        Op::Unary(o, k) => {
            let v = operand(&inst.koto, *k);
            let _ = inst.koto.verif_vm().run_unary_op(UNARY[*o as usize], v);
        }
        Op::Binary(o, a, b) => {
            let (x, y) = (operand(&inst.koto, *a), operand(&inst.koto, *b));
            let _ = inst.koto.verif_vm().run_binary_op(BINARY[*o as usize], x, y);
        }
        Op::Read(o, k) => {
            let v = operand(&inst.koto, *k);
            let (op, arg) = if *o == 0 { (ReadOp::Index, KValue::Number(1.into())) } else { (ReadOp::Access, KValue::Str("key".into())) };
            let _ = inst.koto.verif_vm().run_read_op(op, v, arg);
        }
        Op::Write(o, k) => {
            if *o == 0 && *k == 6 {
                // a fresh host-side list: the write must land where the caller said
                let l = koto_runtime::KList::from_slice(&[KValue::Number(1.into()), KValue::Number(2.into()), KValue::Number(3.into())]);
                let r = inst.koto.verif_vm().run_write_op(WriteOp::IndexAssign, KValue::List(l.clone()), KValue::Number(1.into()), KValue::Str("w".into()));
                let got = render(&KValue::List(l));
                if r.is_err() || got != "[1, 'w', 3]" {
                    return Some(format!("run_write_op(IndexAssign, [1, 2, 3], 1, 'w') gave {:?} and left the list as {got}", r.as_ref().map(render).map_err(|e| e.to_string())));
                }
            } else {
                let v = operand(&inst.koto, *k);
                let (op, arg) = if *o == 0 { (WriteOp::IndexAssign, KValue::Number(1.into())) } else { (WriteOp::AccessAssign, KValue::Str("key".into())) };
                if matches!(v, KValue::List(_)) {
                    return None; // the exported list is part of the model; not mutated here
                }
                let _ = inst.koto.verif_vm().run_write_op(op, v, arg, KValue::Number(9.into()));
            }
        }
        Op::MakeIterator(k) => {
            let v = operand(&inst.koto, *k);
            if let Ok(mut it) = inst.koto.verif_vm().make_iterator(v) {
                for _ in 0..3 {
                    if it.next().is_none() {
                        break;
                    }
                }
                let _ = it.next_back();
            }
        }
    }
    None
}

fn op_fails(op: &Op) -> bool {
    match op {
        Op::RunFail(..) => true,
        Op::CallExported(n, _) => matches!(n.as_str(), "f_throw" | "f_nested" | "f_gen" | "no_such_fn" | "obj_bad" | "f_cb"),
        Op::ValueToString(k) | Op::MakeIterator(k) | Op::Read(_, k) | Op::Write(_, k) | Op::Unary(_, k) => matches!(k, 1 | 2 | 3),
        Op::Binary(_, a, b) => matches!(a, 1 | 2 | 3) || matches!(b, 1 | 2 | 3),
        Op::RunOk(_) => false,
    }
}

fn op_sig(op: &Op) -> String {
    match op {
        Op::RunOk(_) => "run-ok".into(),
        Op::RunFail(c, _) => format!("run-fail:{}", carriers()[*c].0),
        Op::CallExported(n, _) => format!("call:{n}"),
        Op::ValueToString(_) => "value_to_string".into(),
        Op::Unary(o, _) => format!("run_unary_op:{:?}", UNARY[*o as usize]),
        Op::Binary(..) => "run_binary_op".into(),
        Op::Read(..) => "run_read_op".into(),
        Op::Write(..) => "run_write_op".into(),
        Op::MakeIterator(_) => "make_iterator".into(),
    }
}

pub fn eval_history(ops: &[Op], dir: &PathBuf, limit_ms: Option<u64>) -> Eval {
    write_modules(dir);
    let mut fresh = new_instance(dir, limit_ms);
    let expected = battery_outputs(&mut fresh);
    let mut inst = new_instance(dir, limit_ms);
    let o = run_script(&mut inst, SETUP);
    let mut failures_then_more = false;
    let mut seen_failure_at: Option<usize> = None;
    for (i, op) in ops.iter().enumerate() {
        if op_fails(op) && seen_failure_at.is_none() {
            seen_failure_at = Some(i);
        }
    }
    if let Some(i) = seen_failure_at {
        failures_then_more = ops.len() >= i + 3;
    }
    let mut ev = Eval::pass(failures_then_more);
    if !o.is_ok() {
        ev.fail = Some(Fail::new("c07:setup", format!("setup failed: {o:?}")));
        return ev;
    }
    let mut model: Vec<(String, String)> = exports_rendered(&inst);
    let mut list: Vec<i64> = vec![];
    let hist = |k: usize| -> String { ops[..=k].iter().map(|o| format!("  {o:?}")).collect::<Vec<_>>().join("\n") };
    for (k, op) in ops.iter().enumerate() {
        ev.classes.push(intern(&format!("op:{}", op_sig(op).split(':').next().unwrap())));
        if let Some(wrong) = apply(&mut inst, op, &mut model, &mut list) {
            ev.fail = Some(Fail::new(format!("c07:outcome:{}", op_sig(op)), format!("{wrong}\nhistory:\n{}", hist(k))));
            return ev;
        }
        // (1) residue
        let st = inst.koto.verif_stack_sizes();
        if st != [0, 0, 0, 0, 0] {
            ev.fail = Some(Fail::new(
                format!("c07:residue:{}", op_sig(op)),
                format!("after {op:?} the VM holds [registers, call_stack, sequence_builders, string_builders, register_base] = {st:?}\nhistory:\n{}", hist(k)),
            ));
            return ev;
        }
        // (3) exports
        if let Some(e) = model.iter_mut().find(|e| e.0 == "'l'") {
            e.1 = format!("[{}]", list.iter().map(|n| n.to_string()).collect::<Vec<_>>().join(", "));
        }
        let got = exports_rendered(&inst);
        if got != model {
            // a failing import that exported before throwing, and failing tests, are allowed to leave nothing: compare as stated
            ev.fail = Some(Fail::new(format!("c07:exports:{}", op_sig(op)), format!("exports after {op:?}:\n  got      {got:?}\n  expected {model:?}\nhistory:\n{}", hist(k))));
            return ev;
        }
        // (2) battery
        let got = battery_outputs(&mut inst);
        if got != expected {
            let idx = got.iter().zip(expected.iter()).position(|(a, b)| a != b).unwrap_or(0);
            ev.fail = Some(Fail::new(
                format!("c07:battery:{}", op_sig(op)),
                format!("after {op:?} probe script {idx} printed {:?}, a fresh instance prints {:?}\nprobe:\n{}\nhistory:\n{}", got[idx], expected[idx], battery()[idx], hist(k)),
            ));
            return ev;
        }
        let st = inst.koto.verif_stack_sizes();
        if st != [0, 0, 0, 0, 0] {
            ev.fail = Some(Fail::new("c07:residue:battery", format!("after the probe battery the VM holds {st:?}\nhistory:\n{}", hist(k))));
            return ev;
        }
    }
    ev
}

/// 400 consecutive failing host calls of one kind, then the battery
fn eval_repeat(op: &Op, dir: &PathBuf) -> Eval {
    write_modules(dir);
    let mut fresh = new_instance(dir, None);
    let expected = battery_outputs(&mut fresh);
    let mut inst = new_instance(dir, None);
    let _ = run_script(&mut inst, SETUP);
    let mut model = exports_rendered(&inst);
    let mut list = vec![];
    let mut ev = Eval::pass(true).class("repeat-400");
    for _ in 0..400 {
        let _ = apply(&mut inst, op, &mut model, &mut list);
    }
    let st = inst.koto.verif_stack_sizes();
    let got = battery_outputs(&mut inst);
    if st != [0, 0, 0, 0, 0] {
        ev.fail = Some(Fail::new(format!("c07:residue:{}", op_sig(op)), format!("after 400 x {op:?} the VM holds {st:?}")));
    } else if got != expected {
        ev.fail = Some(Fail::new(format!("c07:battery:{}", op_sig(op)), format!("after 400 x {op:?} the probe battery differs: {got:?}")));
    }
    ev
}

fn shard_dir(ctx: &Ctx) -> PathBuf {
    PathBuf::from(format!("/verif/engine/run/c07-modules/{}-{}", std::process::id(), ctx.shard))
}

fn run_shard(ctx: &mut Ctx) {
    let dir = shard_dir(ctx);
    let n = ctx.tier.pick(20_000u64, 600_000u64);
    let strat = choice_stream(110);
    let d2 = dir.clone();
    let decode = |cs: &Vec<u32>| -> (Vec<Op>, Option<u64>) {
        let mut s = Src::new(cs);
        let limit = if s.below(12) == 0 { Some(120u64) } else { None };
        (gen_history(&mut s, limit.is_some()), limit)
    };
    let shrink_dir = dir.clone();
    let post = move |cs: &Vec<u32>, f: &Fail| -> Option<(Value, Fail)> {
        // drop operations while the same signature class persists
        let (mut ops, limit) = {
            let mut s = Src::new(cs);
            let limit = if s.below(12) == 0 { Some(120u64) } else { None };
            (gen_history(&mut s, limit.is_some()), limit)
        };
        let mut fail = f.clone();
        let mut progress = true;
        while progress {
            progress = false;
            for k in 0..ops.len() {
                let mut cand = ops.clone();
                cand.remove(k);
                if let Some(g) = eval_history(&cand, &shrink_dir, limit).fail {
                    if sig_class(&g.sig) == sig_class(&fail.sig) {
                        ops = cand;
                        fail = g;
                        progress = true;
                        break;
                    }
                }
            }
        }
        Some((json!({"kind": "history", "ops": serde_json::to_value(&ops).unwrap(), "limit_ms": limit}), fail))
    };
    ctx.explore_r(
        "history",
        n,
        &strat,
        |cs| {
            let (ops, limit) = decode(cs);
            json!({"kind": "history", "ops": serde_json::to_value(&ops).unwrap(), "limit_ms": limit})
        },
        |cs| {
            let (ops, limit) = decode(cs);
            eval_history(&ops, &d2, limit)
        },
        Some(&post),
    );
    // every carrier followed by every kind of next operation (pairs), and the 400x repetitions
    let ncar = carriers().len();
    let followers = [Op::RunOk(9), Op::CallExported("f_ok".into(), 0), Op::CallExported("f_nested".into(), 0), Op::ValueToString(0), Op::Unary(1, 1), Op::Binary(0, 1, 4), Op::MakeIterator(1)];
    let mut idx = 0u64;
    for c in 0..ncar {
        for f in &followers {
            idx += 1;
            if !ctx.mine(idx) {
                continue;
            }
            let limit = if carriers()[c].0.starts_with("timeout") { Some(120) } else { None };
            if limit.is_some() && ctx.quick() && !matches!(f, Op::RunOk(_)) {
                continue;
            }
            let ops = vec![Op::RunFail(c, 1), f.clone(), Op::RunOk(3)];
            let cj = json!({"kind": "history", "ops": serde_json::to_value(&ops).unwrap(), "limit_ms": limit});
            let d = dir.clone();
            ctx.run_case(&cj, move || eval_history(&ops, &d, limit));
        }
    }
    let mut repeats: Vec<Op> = vec![Op::CallExported("f_throw".into(), 0), Op::CallExported("f_nested".into(), 0), Op::CallExported("no_such_fn".into(), 0), Op::CallExported("obj_bad".into(), 0), Op::ValueToString(1), Op::MakeIterator(1), Op::MakeIterator(2), Op::Read(0, 1), Op::Read(1, 1), Op::Read(1, 4), Op::Write(0, 1), Op::Write(1, 1), Op::RunFail(7, 1), Op::RunFail(10, 1), Op::RunFail(12, 1)];
    for o in 0..7u8 {
        for k in [1u8, 2, 4, 7] {
            repeats.push(Op::Unary(o, k));
        }
    }
    for o in [0u8, 6, 12, 18, 22] {
        for (a, b) in [(1u8, 4u8), (4, 1), (3, 4), (7, 7)] {
            repeats.push(Op::Binary(o, a, b));
        }
    }
    for (i, op) in repeats.iter().enumerate() {
        if !ctx.mine(i as u64) {
            continue;
        }
        let cj = json!({"kind": "repeat", "op": serde_json::to_value(op).unwrap()});
        let d = dir.clone();
        let op2 = op.clone();
        ctx.run_case(&cj, move || eval_repeat(&op2, &d));
    }
    let _ = std::fs::remove_dir_all(&dir);
}

fn replay(case: &Value) -> Option<Fail> {
    let dir = PathBuf::from(format!("/verif/engine/run/c07-modules/replay-{}", std::process::id()));
    let r = match case["kind"].as_str()? {
        "history" => {
            let ops: Vec<Op> = serde_json::from_value(case["ops"].clone()).ok()?;
            eval_history(&ops, &dir, case["limit_ms"].as_u64()).fail
        }
        "repeat" => {
            let op: Op = serde_json::from_value(case["op"].clone()).ok()?;
            eval_repeat(&op, &dir).fail
        }
        _ => None,
    };
    let _ = std::fs::remove_dir_all(&dir);
    r
}

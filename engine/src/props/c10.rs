//! C10 — layout and alternative spellings never change a program's meaning; indentation errors
use crate::astwalk::{self, CanonOpts};
use crate::core::*;
use crate::kx::{self, Outcome, RunOpts};
use crate::lang::*;
use crate::pgen as gen_;
use koto_lexer::Token;
use serde_json::{Value, json};

pub static PROP: Prop = Prop {
    id: "C10",
    rule: "(a) token-level trivia on the corpus: at every line break that the lexer reports as a NewLine token a seeded choice of {trailing spaces, trailing `# c` comment, blank line, blank line with stray indentation, comment line at the next line's indentation, comment line at column 0}, and at whitespace tokens an inline `#- c -#` comment; 6 variants per text; oracle: canonical AST (all fields, spans dropped) identical to the original's. (b) generated programs (core / functions / errors profiles) printed under pairs of random layout vectors (inline vs block if / arms / function bodies, quote style, parenthesised vs paren-free print, operator line breaks with deeper indentation, comments, blank lines, trailing whitespace); oracle: both layouts produce identical stdout / result / error class, equal to the reference interpreter's, and identical canonical ASTs modulo the cosmetic field set. (c) every line-prefix of generated programs in canonical block layout: when the next line is indented deeper than the last kept line (a header awaiting its block: function, if / else if / else, while / until / for / loop, try / catch / finally, match / switch, block map) compile must fail with is_indentation_error(); prefixes cut after a trailing `=` or binary operator likewise; prefixes that end at a top-level statement boundary must compile. (d) calls with and without parentheses: 4 callees (plain, with leading arguments, method) x 5 inline functions as last argument x 10 positions (statement, alone / first / middle / last entry of a list, tuple, map, argument list, nested list): both spellings print the same. Non-trivial: (a)/(b) the variant differs from the original on >= 2 lines and contains a nested construct; (c) cut at depth >= 1.",
    assumptions: &[
        "cuts the statement does not list (try without catch, open brackets, match without arms) are generated but only judged by 'a complete statement never is an indentation error'",
        "Nested (redundant parentheses) and call parentheses are semantic in the AST, so spellings that differ in them are compared by behaviour only",
    ],
    shards: |_| 14,
    run_shard,
    replay,
    min_nontrivial_fraction: 0.2,
};

fn canon(src: &str, cosmetic: bool) -> Result<String, String> {
    match koto_parser::Parser::parse(src) {
        Ok(ast) => Ok(astwalk::canonical_program(&ast, CanonOpts { ignore_cosmetic: cosmetic })),
        Err(e) => Err(format!("{e}")),
    }
}

/// (a) trivia variant of a text, driven by a seed
pub fn trivia_variant(src: &str, seed: u64) -> Option<String> {
    let toks: Vec<_> = crate::textgen::lex_all(src);
    if toks.iter().any(|t| t.token == Token::Error) {
        return None;
    }
    let mut out = String::with_capacity(src.len() + 64);
    let mut changed = 0;
    let mut string_depth = 0i32;
    for (i, t) in toks.iter().enumerate() {
        let text = &src[t.source_bytes.clone()];
        match t.token {
            Token::StringStart(_) => string_depth += 1,
            Token::StringEnd => string_depth -= 1,
            _ => {}
        }
        let h = fnv(format!("{seed}:{i}").as_bytes());
        match t.token {
            Token::NewLine if string_depth == 0 => {
                // indentation of the next line
                let next_indent: String = match toks.get(i + 1) {
                    Some(n) if n.token == Token::Whitespace => src[n.source_bytes.clone()].to_string(),
                    _ => String::new(),
                };
                let prev_is_comment = i > 0 && matches!(toks[i - 1].token, Token::CommentSingle);
                match h % 16 {
                    0 if !prev_is_comment => {
                        out.push_str("   ");
                        out.push_str(text);
                        changed += 1;
                    }
                    1 if !prev_is_comment => {
                        // comments also carry wide, combining and 4-byte characters
                        out.push_str([" # c", " # é", " # 語 note", " # a\u{301}😀", " # à"][(h / 16 % 5) as usize]);
                        out.push_str(text);
                        changed += 1;
                    }
                    2 => {
                        out.push_str(text);
                        out.push('\n');
                        changed += 1;
                    }
                    3 => {
                        out.push_str(text);
                        out.push_str("      \n");
                        changed += 1;
                    }
                    4 => {
                        out.push_str(text);
                        out.push_str(&next_indent);
                        out.push_str(["# comment line\n", "# commentaire é\n", "# 語語 😀\n"][(h / 16 % 3) as usize]);
                        changed += 1;
                    }
                    5 => {
                        out.push_str(text);
                        out.push_str("# comment at column 0\n");
                        changed += 1;
                    }
                    6 => {
                        out.push_str(text);
                        out.push_str(&next_indent);
                        out.push_str(["#- multi\n line -#\n", "#- 語\n é -#\n"][(h / 16 % 2) as usize]);
                        changed += 1;
                    }
                    _ => out.push_str(text),
                }
            }
            // `debug` records the source text of its expression, comments included
            Token::Whitespace if string_depth == 0 && i > 0 && toks[i - 1].token != Token::NewLine && h % 23 == 0 && !src.contains("debug") => {
                out.push_str([" #- c -# ", " #- é -# ", " #- 😀 -# "][(h / 23 % 3) as usize]);
                changed += 1;
            }
            _ => out.push_str(text),
        }
    }
    if changed >= 2 { Some(out) } else { None }
}

fn eval_trivia(src: &str, seed: u64) -> Eval {
    let Ok(orig) = canon(src, false) else {
        return Eval { discard: true, classes: vec!["corpus-text-does-not-parse"], ..Default::default() };
    };
    let Some(var) = trivia_variant(src, seed) else {
        return Eval { discard: true, classes: vec!["no-trivia-site"], ..Default::default() };
    };
    let mut ev = Eval::pass(orig.matches('<').count() > 6).class("trivia");
    match canon(&var, false) {
        Ok(c) => {
            if c != orig {
                ev.fail = Some(Fail::new("c10:trivia-changes-ast", format!("inserting comments / blank lines / trailing whitespace changed the syntax tree\n--- variant:\n{var}")));
            }
        }
        Err(e) => ev.fail = Some(Fail::new("c10:trivia-breaks-parse", format!("variant no longer parses: {e}\n--- variant:\n{var}"))),
    }
    ev
}

fn layout_from(seed: u64, n: usize) -> Layout {
    Layout::new((0..n).map(|i| (fnv(format!("{seed}/{i}").as_bytes()) >> 7) as u8).collect())
}

fn eval_layouts(prog: &[E], seed: u64) -> Eval {
    let mut full = gen_::header();
    full.extend(prog.iter().cloned());
    if gen_::domain_ok(&full).is_err() {
        return Eval { discard: true, classes: vec!["out-of-domain"], ..Default::default() };
    }
    let m = crate::model::run_program(&full, true);
    let Some(res) = m.result.clone() else {
        return Eval { discard: true, classes: vec!["unjudged"], ..Default::default() };
    };
    let exp = crate::props::c01::Expect { stdout: m.stdout, result: res };
    let canonical = print_program(&full, &Layout::canonical());
    let l1 = print_program(&full, &layout_from(seed, 97));
    let l2 = print_program(&full, &layout_from(seed ^ 0x9e3779b97f4a7c15, 89));
    let differing = l1.lines().zip(l2.lines()).filter(|(a, b)| a != b).count() + l1.lines().count().abs_diff(l2.lines().count());
    let mut ev = Eval::pass(differing >= 2).class("layout-pair");
    let mut canons = vec![];
    for (name, src) in [("canonical", &canonical), ("layout-1", &l1), ("layout-2", &l2)] {
        let out = kx::run(src, &RunOpts::default());
        if let Some((what, detail)) = crate::props::c01::compare(&exp, &out) {
            ev.fail = Some(Fail::new(format!("c10:layout-{what}|{name}"), format!("{name}: {detail}\n--- source:\n{src}")));
            return ev;
        }
        match canon(src, true) {
            Ok(c) => canons.push((name, c)),
            Err(e) => {
                ev.fail = Some(Fail::new("c10:layout-parse", format!("{name} does not parse: {e}\n{src}")));
                return ev;
            }
        }
    }
    // ASTs identical modulo cosmetic fields — for layouts that do not differ in parenthesisation
    // (our layout vector never adds redundant parentheses; print() parentheses are call syntax)
    let strip = |s: &str| s.replace("with_parens: true", "with_parens: _").replace("with_parens: false", "with_parens: _");
    let (a, b) = (strip(&canons[1].1), strip(&canons[2].1));
    if a != b {
        let p = a.bytes().zip(b.bytes()).position(|(x, y)| x != y).unwrap_or(a.len().min(b.len()));
        let ctx_of = |s: &str| {
            let st = p.saturating_sub(120);
            let mut st2 = st;
            while !s.is_char_boundary(st2) {
                st2 += 1;
            }
            s[st2..].chars().take(300).collect::<String>()
        };
        ev.fail = Some(Fail::new("c10:layout-ast", format!("two layouts of one program parse to different trees (modulo cosmetic fields)\n--- tree 1 near the difference: {}\n--- tree 2: {}\n--- layout 1:\n{l1}\n--- layout 2:\n{l2}", ctx_of(&a), ctx_of(&b))));
    }
    ev
}

/// (c) prefixes. Returns (judged cuts, failure)
fn eval_prefixes(prog: &[E]) -> Eval {
    let mut full = gen_::header();
    full.extend(prog.iter().cloned());
    if gen_::domain_ok(&full).is_err() {
        return Eval { discard: true, classes: vec!["out-of-domain"], ..Default::default() };
    }
    let src = print_program(&full, &Layout::canonical());
    if kx_compile(&src).is_err() {
        return Eval { discard: true, classes: vec!["program-does-not-compile"], ..Default::default() };
    }
    let lines: Vec<&str> = src.lines().collect();
    let indent = |l: &str| l.len() - l.trim_start_matches(' ').len();
    let mut ev = Eval::pass(false).class("prefixes");
    let mut judged = 0;
    // multi-line strings make line-based cuts meaningless: skip programs with newlines inside literals
    for i in 0..lines.len().saturating_sub(1) {
        let (cur, next) = (lines[i], lines[i + 1]);
        if cur.trim().is_empty() || next.trim().is_empty() {
            continue;
        }
        let prefix: String = lines[..=i].join("\n") + "\n";
        if indent(next) > indent(cur) && (cur.trim_end().ends_with(" then") || cur.trim_end().ends_with(" else") && cur.trim_start() != "else") {
            // match / switch arms with block bodies are not in the statement's list of headers
            continue;
        }
        if indent(next) > indent(cur) && cur.trim() == "else" {
            // `else` arms of switch / match are arms, not the if/else header of the statement
            let parent = lines[..i].iter().rev().find(|l| !l.trim().is_empty() && indent(l) < indent(cur));
            if parent.map(|p| p.trim_end().ends_with("switch") || p.trim_start().starts_with("match ") || p.contains("= match ")).unwrap_or(false) {
                continue;
            }
        }
        if indent(next) > indent(cur) {
            judged += 1;
            if indent(cur) > 0 {
                ev.nontrivial = true;
            }
            match kx_compile(&prefix) {
                Err((_, true)) => {}
                Err((msg, false)) => {
                    ev.fail = Some(Fail::new("c10:header-cut-not-indentation-error", format!("prefix cut after the header line {:?} fails with an ordinary error instead of an indentation error: {msg}\n--- prefix:\n{prefix}", cur)));
                    return ev;
                }
                Ok(()) => {
                    ev.fail = Some(Fail::new("c10:header-cut-compiles", format!("prefix cut after the header line {:?} (next line is indented deeper) compiles\n--- prefix:\n{prefix}", cur)));
                    return ev;
                }
            }
        } else if indent(next) == 0 && indent(cur) == 0 {
            // top-level statement boundary
            judged += 1;
            if let Err((msg, ind)) = kx_compile(&prefix) {
                ev.fail = Some(Fail::new(
                    if ind { "c10:complete-statement-indentation-error" } else { "c10:complete-statement-does-not-compile" },
                    format!("prefix ending at a top-level statement boundary does not compile (indentation error: {ind}): {msg}\n--- prefix:\n{prefix}"),
                ));
                return ev;
            }
        }
        // trailing `=` / operator cuts on simple one-line statements
        if let Some(pos) = cur.find(" = ") {
            if !cur.contains('\'') && !cur.contains('"') && !cur.trim_start().starts_with("print") {
                let cut = format!("{}{} =\n", lines[..i].iter().map(|l| format!("{l}\n")).collect::<String>(), &cur[..pos]);
                judged += 1;
                match kx_compile(&cut) {
                    Err((_, true)) => {}
                    other => {
                        ev.fail = Some(Fail::new("c10:trailing-assign-not-indentation-error", format!("program cut after a trailing `=` gives {other:?} instead of an indentation error\n--- prefix:\n{cut}")));
                        return ev;
                    }
                }
                judged += 1;
                match kx_compile(cut.trim_end_matches('\n')) {
                    Err((_, true)) => {}
                    other => {
                        ev.fail = Some(Fail::new("c10:trailing-assign-at-eof-not-indentation-error", format!("program ending directly after a trailing `=` (no final newline) gives {other:?} instead of an indentation error\n--- prefix:\n{}", cut.trim_end_matches('\n'))));
                        return ev;
                    }
                }
                for op in [" + ", " - ", " * ", " and ", " or ", " == ", " < "] {
                    if let Some(p2) = cur[pos..].rfind(op) {
                        let p2 = pos + p2;
                        // only cut when the operator is at bracket depth 0
                        let depth = cur[..p2].chars().fold(0i32, |d, c| d + matches!(c, '(' | '[' | '{') as i32 - matches!(c, ')' | ']' | '}') as i32);
                        if depth == 0 && !cur[..p2].contains('|') {
                            let cut = format!("{}{}{}\n", lines[..i].iter().map(|l| format!("{l}\n")).collect::<String>(), &cur[..p2], op.trim_end());
                            judged += 1;
                            match kx_compile(&cut) {
                                Err((_, true)) => {}
                                other => {
                                    ev.fail = Some(Fail::new("c10:trailing-operator-not-indentation-error", format!("program cut after a trailing `{}` gives {other:?} instead of an indentation error\n--- prefix:\n{cut}", op.trim())));
                                    return ev;
                                }
                            }
                            // the same cut as a REPL sends it: the operator is the very last byte
                            let bare = cut.trim_end_matches('\n');
                            judged += 1;
                            match kx_compile(bare) {
                                Err((_, true)) => {}
                                other => {
                                    ev.fail = Some(Fail::new("c10:trailing-operator-at-eof-not-indentation-error", format!("program ending directly after a trailing `{}` (no final newline) gives {other:?} instead of an indentation error\n--- prefix:\n{bare}", op.trim())));
                                    return ev;
                                }
                            }
                            break;
                        }
                    }
                }
            }
        }
    }
    if judged == 0 {
        ev.discard = true;
    }
    ev
}

fn kx_compile(src: &str) -> Result<(), (String, bool)> {
    let mut koto = koto::Koto::default();
    match koto.compile(src) {
        Ok(_) => Ok(()),
        Err(e) => Err((e.to_string().lines().next().unwrap_or("").to_string(), e.is_indentation_error())),
    }
}

fn build(data: &[u32], profile: u64) -> Vec<E> {
    match profile % 3 {
        0 => crate::props::c01::build(data).0,
        1 => crate::props::c02::build(data).0,
        _ => {
            let (p, _) = crate::props::c04::build_program(data, None);
            // strip the shared header: eval adds it again
            p.into_iter().skip(gen_::header().len()).collect()
        }
    }
}

fn has_multiline_literal(prog: &[E]) -> bool {
    let mut found = false;
    for e in prog {
        e.visit(&mut |x| {
            if let E::Str(parts) = x {
                if parts.iter().any(|p| matches!(p, SPart::Lit(l) if l.contains('\n'))) {
                    found = true
                }
            }
        });
    }
    found
}

// (d) calls with and without parentheses ------------------------------------------------------

const SPELL_PRELUDE: &str = "xs = (1, 2, 3, 4)\nea = |t, f| t.each(f).to_tuple()\nap = |f| f 10\nap2 = |v, f| f v\nob = {m: |f| f 7}\ng = |items...| items\n";
/// (callee, arguments before the function argument)
const SPELL_CALLS: [(&str, &str); 4] = [("ea", "xs, "), ("ap", ""), ("ap2", "3, "), ("ob.m", "")];
const SPELL_FUNCS: [&str; 5] = ["|x| x > 2", "|x| x", "|x| x + 1", "|x| (x, 1)", "|x| [x]"];
/// containers with a hole for the call
const SPELL_CONTAINERS: [&str; 10] = ["@", "[@]", "[@, 99]", "[0, @, 99]", "(@, 99)", "{k: @, other: 5}", "g(@, 7)", "[[@, 1], 2]", "[0, @]", "g(1, @)"];

/// the same program with the call written with parentheses and paren-free
pub fn spelling_pair(call: usize, func: usize, container: usize) -> (String, String) {
    let (callee, before) = SPELL_CALLS[call];
    let f = SPELL_FUNCS[func];
    let with = format!("{callee}({before}{f})");
    let without = format!("{callee} {before}{f}");
    let prog = |c: &str| format!("{SPELL_PRELUDE}r = {}\nprint r\n", SPELL_CONTAINERS[container].replace('@', c));
    (prog(&with), prog(&without))
}

fn eval_spelling(call: usize, func: usize, container: usize) -> Eval {
    let (with, without) = spelling_pair(call, func, container);
    let mut ev = Eval::pass(true).class("call-spelling");
    let a = kx::run(&with, &RunOpts::default());
    let b = kx::run(&without, &RunOpts::default());
    if !a.outcome.is_ok() {
        ev.fail = Some(Fail::new("c10:spelling-script", format!("the parenthesised spelling failed: {:?}\n{with}", a.outcome)));
        return ev;
    }
    if a.stdout != b.stdout || a.outcome != b.outcome {
        ev.fail = Some(Fail::new(
            "c10:call-spelling",
            format!("a call written with and without parentheses behaves differently\n--- with parentheses: {:?} {:?}\n--- paren-free: {:?} {:?}\n--- source (paren-free):\n{without}", a.stdout, a.outcome, b.stdout, b.outcome),
        ));
    }
    ev
}

fn run_shard(ctx: &mut Ctx) {
    use proptest::strategy::{Strategy, ValueTree};
    // (a) corpus trivia
    let corpus = crate::corpus::load();
    let variants = ctx.tier.pick(12u64, 80u64);
    let mut idx = 0u64;
    for c in corpus.iter() {
        for v in 0..variants {
            idx += 1;
            if !ctx.mine(idx) {
                continue;
            }
            let seed = ctx.sub_seed("trivia", idx) ^ v;
            let case = json!({"kind": "trivia", "src": c.text, "seed": seed});
            ctx.run_case(&case, || eval_trivia(&c.text, seed));
        }
    }
    // (d) call spellings: the full product
    for call in 0..SPELL_CALLS.len() {
        for func in 0..SPELL_FUNCS.len() {
            for container in 0..SPELL_CONTAINERS.len() {
                // inside brackets a comma separates entries, so a paren-free call takes one argument there:
                // callees with leading arguments are only spelled paren-free in statement position
                if !SPELL_CALLS[call].1.is_empty() && container != 0 {
                    continue;
                }
                idx += 1;
                if !ctx.mine(idx) {
                    continue;
                }
                let case = json!({"kind": "spelling", "call": call, "func": func, "container": container, "src": spelling_pair(call, func, container).1});
                ctx.run_case(&case, || eval_spelling(call, func, container));
            }
        }
    }
    // (b) layout pairs and (c) prefixes over generated programs
    let n = ctx.tier.pick(15_000u64, 200_000u64);
    for i in 0..n {
        if !ctx.mine(i) {
            continue;
        }
        if ctx.too_many_failures() {
            break;
        }
        let mut runner = seeded_runner(ctx.sub_seed("layout", i));
        let data = gen_::choice_stream(500).new_tree(&mut runner).unwrap().current();
        let prog = build(&data, i);
        let ast = serde_json::to_value(&prog).unwrap();
        let seed = ctx.sub_seed("layout-seed", i);
        let case = json!({"kind": "layouts", "ast": ast, "seed": seed, "src": print_program(&prog, &layout_from(seed, 97))});
        ctx.run_case(&case, || eval_layouts(&prog, seed));
        if !has_multiline_literal(&prog) {
            let case = json!({"kind": "prefixes", "ast": ast, "src": print_program(&prog, &Layout::canonical())});
            ctx.run_case(&case, || eval_prefixes(&prog));
        }
    }
}

fn replay(case: &Value) -> Option<Fail> {
    match case["kind"].as_str()? {
        "trivia" => eval_trivia(case["src"].as_str()?, case["seed"].as_u64()?).fail,
        "layouts" => {
            let prog: Vec<E> = serde_json::from_value(case["ast"].clone()).ok()?;
            eval_layouts(&prog, case["seed"].as_u64()?).fail
        }
        "prefixes" => {
            let prog: Vec<E> = serde_json::from_value(case["ast"].clone()).ok()?;
            eval_prefixes(&prog).fail
        }
        "spelling" => eval_spelling(case["call"].as_u64()? as usize, case["func"].as_u64()? as usize, case["container"].as_u64()? as usize).fail,
        "known-src" => {
            let out = kx::run(case["src"].as_str()?, &RunOpts::default());
            let exp = case["expect_stdout"].as_str()?;
            if out.stdout != exp || !matches!(out.outcome, Outcome::Ok(_)) { Some(Fail::new(format!("c10:shape-{}", case["shape"].as_str()?), format!("expected stdout {exp:?}, got {:?} ({:?})", out.stdout, out.outcome))) } else { None }
        }
        _ => None,
    }
}

//! C04 — errors unwind to the right handler; finally always runs
use crate::core::*;
use crate::kx::{self, Outcome, RunOpts};
use crate::lang::*;
use crate::model;
use crate::pgen::{self as gen_, Src};
use serde_json::{Value, json};

pub static PROP: Prop = Prop {
    id: "C04",
    rule: "Programs decoded from a proptest choice vector: a recursive skeleton (depth <= 5) of nested try / typed catches (String, Number, Foo) / mandatory untyped catch (yielding a value, rethrowing, or throwing a new value) / optional finally, around carriers {Koto function call, each / keep / fold callbacks driven by to_tuple, generator consumed through to_tuple, `@+` overload, `@display` reached from interpolation}, with one planted fault of 16 kinds (throw string / number / map with @type+@display, bad index, operator type mismatch, missing map key, failed assert, failed let type hint, unpack size mismatch, call of a non-callable, access on null, error inside string interpolation, inside a list / tuple / map literal under construction, inside call arguments) or no fault; every block prints a marker, a shared list is mutated before the fault and printed after each handler. Plus the complete grid fault kind x carrier x handler shape. Oracle: marker trace, result and Ok/Err class equal the reference interpreter M (innermost accepting handler, typed catches in order, finally exactly once and providing the value, state at the catch equals state at the throw); first line of an uncaught error equals the thrown message; VM stacks empty after the run (hook). A second, exhaustive stream treats a failed import as the fault: 5 failing imports (module that throws after exporting, failing @main, failing @test, import cycle, missing module) x 4 placements (in the try, in a called function, nested try that rethrows, in an iterator callback) x with / without finally; afterwards the printed state, later exports and Koto::exports() are exactly those of the importing script. Non-trivial: the fault fires under >= 1 enclosing try and crosses >= 1 frame boundary.",
    assumptions: &[
        "texts of caught runtime errors are never printed (only `type e`), thrown strings are compared",
        "known shapes excluded by construction and replayed as findings: F28 (finally skipped on return/break/continue/second throw), F30 (v = f() under try leaves pre-existing v null), C04-arity-catch, C04-builder-leak, C04-gen-typed",
    ],
    shards: |_| 14,
    run_shard,
    replay,
    min_nontrivial_fraction: 0.2,
};

pub const FAULTS: [&str; 20] = [
    "throw-local", "arity-few", "arity-many", "none", "throw-str", "throw-num", "throw-foo", "bad-index", "type-mismatch", "missing-key", "assert", "type-hint", "unpack-size", "not-callable", "null-access", "in-interp", "in-list", "in-tuple", "in-map", "in-call-args",
];
pub const CARRIERS: [&str; 12] = ["call", "each", "keep", "fold", "gen-tuple", "overload", "display", "lit-call", "cmp-overload", "zip-right", "zip-left", "seq"];

fn is_builder_fault(f: &str) -> bool {
    matches!(f, "in-interp" | "in-list" | "in-tuple" | "in-map")
}

#[derive(Default)]
pub struct Flags {
    pub tries: u32,
    pub frames: u32,
    pub fault: String,
    pub fault_under_try: bool,
    pub fault_crosses_frame: bool,
    pub builder_fault_caught: bool,
    pub carriers: Vec<&'static str>,
    pub finally: bool,
    pub typed: bool,
}

pub struct EG<'a> {
    s: Src<'a>,
    n: usize,
    fault: &'static str,
    fault_placed: bool,
    pub flags: Flags,
}

fn nul_plus_one() -> E {
    E::Bin(Op::Add, bx(E::Int(1)), bx(id("nul")))
}

impl<'a> EG<'a> {
    fn fresh(&mut self, p: &str) -> String {
        self.n += 1;
        format!("{p}{}", self.n)
    }
    fn marker(&self, text: &str) -> E {
        E::Print(vec![lit_str(text)])
    }
    fn bump_state(&self) -> E {
        E::Assign(bx(E::Index(bx(id("st")), bx(E::Int(0)))), None, bx(E::Bin(Op::Add, bx(E::Index(bx(id("st")), bx(E::Int(0)))), bx(E::Int(1)))))
    }

    /// statements raising the planted fault; the last statement is the block's value
    fn fault_block(&mut self, kind: &str) -> Vec<E> {
        let fv = self.fresh("fv");
        let assign = |e: E| E::Assign(bx(id(&fv)), None, bx(e));
        let mut b = vec![self.marker(&format!("fault {kind}")), self.bump_state()];
        match kind {
            "throw-local" => {
                // the thrown value is a local of the frame that also catches it, and is read again in the
                // handler and when it is thrown a second time
                let tl = self.fresh("tl");
                let te = self.fresh("te");
                b.push(E::Assign(bx(id(&tl)), None, bx(lit_str("boom-local"))));
                b.push(E::Try(
                    vec![E::Throw(bx(id(&tl)))],
                    vec![Catch { name: te.clone(), ty: None, body: vec![E::Print(vec![E::Str(vec![SPart::Lit("local after catch: ".into()), SPart::Expr(id(&tl), None), SPart::Lit(" ".into()), SPart::Expr(id(&te), None)])])] }],
                    None,
                ));
                b.push(E::Throw(bx(id(&tl))));
            }
            "throw-str" => b.push(E::Throw(bx(lit_str("boom")))),
            "throw-num" => b.push(E::Throw(bx(E::Int(42)))),
            "throw-foo" => b.push(E::Throw(bx(id("foo_err")))),
            "bad-index" => b.push(assign(E::Index(bx(E::List(vec![E::Int(1), E::Int(2)])), bx(E::Int(5))))),
            "type-mismatch" => b.push(assign(nul_plus_one())),
            "missing-key" => b.push(assign(E::Dot(bx(E::Map(vec![("a".into(), E::Int(1))])), "zz".into()))),
            "assert" => b.push(E::Call(bx(id("assert")), vec![(E::Bool(false), false)])),
            "type-hint" => b.push(E::Let(vec![(fv.clone(), Some("String".into()))], bx(E::Int(1)))),
            "unpack-size" => b.push(assign(E::Call(bx(id("up2")), vec![(E::Tuple(vec![E::Int(1), E::Int(2), E::Int(3)]), false)]))),
            "not-callable" => b.push(assign(E::Call(bx(id("num5")), vec![]))),
            "null-access" => b.push(assign(E::Dot(bx(id("nul")), "x".into()))),
            "in-interp" => b.push(assign(E::Str(vec![SPart::Lit("a".into()), SPart::Expr(E::Call(bx(id("tr")), vec![(E::Int(1), false)]), None), SPart::Expr(nul_plus_one(), None), SPart::Lit("b".into())]))),
            "in-list" => b.push(assign(E::List(vec![E::Int(1), E::Call(bx(id("tr")), vec![(E::Int(2), false)]), nul_plus_one(), E::Int(3)]))),
            "in-tuple" => b.push(assign(E::Tuple(vec![E::Call(bx(id("tr")), vec![(E::Int(2), false)]), nul_plus_one()]))),
            "in-map" => b.push(assign(E::Map(vec![("a".into(), E::Int(1)), ("b".into(), nul_plus_one())]))),
            "in-call-args" => b.push(assign(E::Call(bx(id("tr")), vec![(nul_plus_one(), false)]))),
            "arity-few" => b.push(assign(E::Call(bx(id("tr")), vec![]))),
            "arity-many" => b.push(assign(E::Call(bx(id("tr")), vec![(E::Int(1), false), (E::Int(2), false)]))),
            _ => b.push(E::Int(7)),
        }
        if !matches!(b.last(), Some(E::Int(_))) {
            b.push(lit_str("after-fault"));
        }
        b
    }

    /// Build a block: its last statement is its value
    pub fn build(&mut self, depth: u32, under_try: u32, frames: u32, in_display: bool) -> Vec<E> {
        // C04-builder-leak: no builder faults below a @display carrier (the caller's interpolation is
        // under construction there)
        let place_fault_here = !self.fault_placed && (depth == 0 || self.s.chance(18));
        if place_fault_here {
            self.fault_placed = true;
            let kind = self.fault;
            if kind != "none" {
                self.flags.fault_under_try = under_try > 0;
                self.flags.fault_crosses_frame = frames > 0;
                if (is_builder_fault(kind) || in_display) && under_try > 0 {
                    self.flags.builder_fault_caught = true;
                }
            }
            return self.fault_block(kind);
        }
        if depth == 0 {
            return vec![self.marker("leaf"), E::Int(self.s.below(9) as i64)];
        }
        let c = self.s.weighted(&[15, 40, 45]);
        match c {
            0 => {
                // sequence: marker, state, sub-block, marker
                let mut b = vec![self.marker("seq-in"), self.bump_state()];
                let v = self.fresh("sv");
                let sub = self.build(depth - 1, under_try, frames, in_display);
                b.push(E::Assign(bx(id(&v)), None, bx(E::Fn(vec![], None, sub))));
                // call it immediately: a frame boundary without a carrier name
                let r = self.fresh("sr");
                b.push(E::Assign(bx(id(&r)), None, bx(E::Call(bx(id(&v)), vec![]))));
                b.push(self.marker("seq-out"));
                b.push(id(&r));
                self.flags.frames += 1;
                b
            }
            1 => self.try_block(depth, under_try, frames, in_display),
            _ => self.carrier_block(depth, under_try, frames, in_display),
        }
    }

    fn try_block(&mut self, depth: u32, under_try: u32, frames: u32, in_display: bool) -> Vec<E> {
        let n = self.fresh("t");
        self.flags.tries += 1;
        let mut body = vec![self.marker(&format!("try {n}"))];
        body.extend(self.build(depth - 1, under_try + 1, frames, in_display));
        let has_finally = self.s.chance(40);
        let mut catches = vec![];
        for ty in ["String", "Number", "Foo"] {
            if self.s.chance(30) {
                self.flags.typed = true;
                let e = self.fresh("e");
                let mut cb = vec![E::Print(vec![E::Str(vec![SPart::Lit(format!("catch {n} {ty} ")), SPart::Expr(E::Call(bx(id("type")), vec![(id(&e), false)]), None)])])];
                if ty == "Foo" {
                    cb.push(E::Print(vec![E::Dot(bx(id(&e)), "code".into())]));
                }
                if ty == "String" {
                    // thrown strings carry their text; runtime error texts are not prescribed
                    cb.push(E::Print(vec![E::If(vec![(E::Bin(Op::Eq, bx(id(&e)), bx(lit_str("boom"))), vec![lit_str("is-boom")])], Some(vec![lit_str("not-boom")]))]));
                }
                cb.push(E::Print(vec![E::Str(vec![SPart::Lit("state ".into()), SPart::Expr(id("st"), None)])]));
                cb.push(lit_str(&format!("handled-{ty}")));
                catches.push(Catch { name: e, ty: Some(ty.into()), body: cb });
            }
        }
        // mandatory untyped catch
        let e = self.fresh("e");
        let mut cb = vec![
            E::Print(vec![E::Str(vec![SPart::Lit(format!("catch {n} any ")), SPart::Expr(E::Call(bx(id("type")), vec![(id(&e), false)]), None)])]),
            E::Print(vec![E::Str(vec![SPart::Lit("state ".into()), SPart::Expr(id("st"), None)])]),
        ];
        let action = if has_finally { 0 } else { self.s.weighted(&[60, 22, 18]) };
        match action {
            0 => cb.push(lit_str("handled-any")),
            1 => cb.push(E::Throw(bx(id(&e)))),
            _ => cb.push(E::Throw(bx(lit_str("second")))),
        }
        catches.push(Catch { name: e, ty: None, body: cb });
        let fin = if has_finally {
            self.flags.finally = true;
            let mut f = vec![self.marker(&format!("finally {n}"))];
            if self.s.chance(50) {
                f.push(lit_str(&format!("finally-value-{n}")));
            }
            Some(f)
        } else {
            None
        };
        let r = self.fresh("r");
        // the try expression's value may be assigned to a local that already exists and that the
        // handlers read: they must still see the old value
        let pre = self.s.chance(35);
        let mut catches = catches;
        let mut fin = fin;
        if pre {
            let show = E::Print(vec![E::Str(vec![SPart::Lit(format!("sees {r} ")), SPart::Expr(id(&r), None)])]);
            for c in catches.iter_mut() {
                c.body.insert(0, show.clone());
            }
            if let Some(f) = fin.as_mut() {
                f.insert(0, show.clone());
            }
        }
        let mut out_pre = vec![];
        if pre {
            out_pre.push(E::Assign(bx(id(&r)), None, bx(lit_str(&format!("old-{r}")))));
        }
        out_pre.extend(vec![
            E::Assign(bx(id(&r)), None, bx(E::Try(body, catches, fin))),
            E::Print(vec![E::Str(vec![SPart::Lit(format!("after {n} ")), SPart::Expr(id(&r), None), SPart::Lit(" ".into()), SPart::Expr(id("st"), None)])]),
            id(&r),
        ]);
        out_pre
    }

    fn carrier_block(&mut self, depth: u32, under_try: u32, frames: u32, in_display: bool) -> Vec<E> {
        let weights: [u32; 11] = if in_display { [24, 14, 8, 8, 12, 12, 8, 8, 6, 4, 4] } else { [18, 11, 7, 7, 11, 11, 11, 14, 10, 6, 6] };
        let c = self.s.weighted(&weights);
        let name = CARRIERS[c];
        self.flags.carriers.push(name);
        self.flags.frames += 1;
        let r = self.fresh("c");
        let f = self.fresh("k");
        let sub_display = in_display || name == "display";
        let sub = self.build(depth - 1, under_try, frames + 1, sub_display);
        let arg = |n: &str| FnArg { pat: Pat::Id(n.into(), None), default: None, variadic: false };
        let mut out = vec![];
        match name {
            "call" => {
                let mut body = vec![self.marker(&format!("enter {f}"))];
                body.extend(sub);
                out.push(E::Assign(bx(id(&f)), None, bx(E::Fn(vec![], None, body))));
                out.push(E::Assign(bx(id(&r)), None, bx(E::Call(bx(id(&f)), vec![]))));
            }
            "each" | "keep" => {
                // callback over (10, 20): the sub-block runs for the element chosen
                let k = if self.s.chance(50) { 10 } else { 20 };
                let x = self.fresh("x");
                let mut then_b = sub;
                if name == "keep" {
                    then_b.push(E::Bool(true));
                }
                let els = if name == "keep" { E::Bool(false) } else { id(&x) };
                let body = vec![
                    E::Print(vec![E::Str(vec![SPart::Lit(format!("{name} ")), SPart::Expr(id(&x), None)])]),
                    E::If(vec![(E::Bin(Op::Eq, bx(id(&x)), bx(E::Int(k))), then_b)], Some(vec![els])),
                ];
                out.push(E::Assign(bx(id(&f)), None, bx(E::Fn(vec![arg(&x)], None, body))));
                let chain = E::Call(bx(E::Dot(bx(E::Call(bx(E::Dot(bx(E::Tuple(vec![E::Int(10), E::Int(20)])), name.into())), vec![(id(&f), false)])), "to_tuple".into())), vec![]);
                out.push(E::Assign(bx(id(&r)), None, bx(chain)));
            }
            "fold" => {
                let (a, x) = (self.fresh("acc"), self.fresh("x"));
                let mut then_b = sub;
                then_b.push(E::Int(100));
                let body = vec![
                    E::Print(vec![E::Str(vec![SPart::Lit("fold ".into()), SPart::Expr(id(&x), None)])]),
                    E::If(vec![(E::Bin(Op::Eq, bx(id(&x)), bx(E::Int(20))), then_b)], Some(vec![E::Bin(Op::Add, bx(id(&a)), bx(id(&x)))])),
                ];
                out.push(E::Assign(bx(id(&f)), None, bx(E::Fn(vec![arg(&a), arg(&x)], None, body))));
                out.push(E::Assign(bx(id(&r)), None, bx(E::Call(bx(E::Dot(bx(E::Tuple(vec![E::Int(10), E::Int(20), E::Int(30)])), "fold".into())), vec![(E::Int(0), false), (id(&f), false)]))));
            }
            "gen-tuple" => {
                let mut body = vec![self.marker(&format!("gen {f} start")), E::Yield(bx(E::Int(1)))];
                let v = self.fresh("gv");
                // the sub-block's value is yielded
                let mut sub = sub;
                let last = sub.pop().unwrap_or(E::Null);
                body.extend(sub);
                body.push(E::Assign(bx(id(&v)), None, bx(last)));
                body.push(E::Yield(bx(id(&v))));
                body.push(self.marker(&format!("gen {f} end")));
                out.push(E::Assign(bx(id(&f)), None, bx(E::Fn(vec![], None, body))));
                out.push(E::Assign(bx(id(&r)), None, bx(E::Call(bx(E::Dot(bx(E::Call(bx(id(&f)), vec![])), "to_tuple".into())), vec![]))));
            }
            "overload" => {
                let o = self.fresh("o");
                let x = self.fresh("x");
                let mut body = vec![E::Print(vec![E::Str(vec![SPart::Lit("plus ".into()), SPart::Expr(id(&x), None)])])];
                body.extend(sub);
                out.push(E::Assign(bx(id(&o)), None, bx(E::Map(vec![("@+".into(), E::Fn(vec![arg(&x)], None, body))]))));
                out.push(E::Assign(bx(id(&r)), None, bx(E::Bin(Op::Add, bx(id(&o)), bx(E::Int(3))))));
            }
            "zip-right" | "zip-left" => {
                // the callback-driven iterator is one side of a zip: its error must come through
                let k = if self.s.chance(50) { 10 } else { 20 };
                let x = self.fresh("x");
                let body = vec![
                    E::Print(vec![E::Str(vec![SPart::Lit(format!("{name} ")), SPart::Expr(id(&x), None)])]),
                    E::If(vec![(E::Bin(Op::Eq, bx(id(&x)), bx(E::Int(k))), sub)], Some(vec![id(&x)])),
                ];
                out.push(E::Assign(bx(id(&f)), None, bx(E::Fn(vec![arg(&x)], None, body))));
                let effectful = E::Call(bx(E::Dot(bx(E::Tuple(vec![E::Int(10), E::Int(20)])), "each".into())), vec![(id(&f), false)]);
                let plain = E::Tuple(vec![E::Int(1), E::Int(2)]);
                let zipped = if name == "zip-right" { E::Call(bx(E::Dot(bx(plain), "zip".into())), vec![(effectful, false)]) } else { E::Call(bx(E::Dot(bx(effectful), "zip".into())), vec![(plain, false)]) };
                out.push(E::Assign(bx(id(&r)), None, bx(E::Call(bx(E::Dot(bx(zipped), "to_tuple".into())), vec![]))));
            }
            "lit-call" => {
                // the call is an element of a literal that is under construction; when the sub-block
                // recovers by itself (try inside), the enclosing literal must be completed correctly
                let mut body = vec![self.marker(&format!("enter {f}"))];
                body.extend(sub);
                out.push(E::Assign(bx(id(&f)), None, bx(E::Fn(vec![], None, body))));
                let call = E::Call(bx(id(&f)), vec![]);
                let tr1 = E::Call(bx(id("tr")), vec![(E::Int(1), false)]);
                let lit = match self.s.below(6) {
                    0 => E::List(vec![tr1, call, E::Int(3)]),
                    1 => E::Tuple(vec![E::Int(1), E::List(vec![tr1, call]), E::Int(4)]),
                    2 => E::List(vec![E::Tuple(vec![tr1, call]), E::Int(5)]),
                    3 => E::Str(vec![SPart::Lit("a".into()), SPart::Expr(E::List(vec![tr1, call]), None), SPart::Lit("b".into())]),
                    4 => E::List(vec![E::Str(vec![SPart::Lit("s".into()), SPart::Expr(call, None)]), tr1]),
                    _ => E::List(vec![E::List(vec![E::List(vec![tr1, call])]), E::Str(vec![SPart::Lit("t".into())])]),
                };
                out.push(E::Assign(bx(id(&r)), None, bx(lit)));
            }
            "cmp-overload" => {
                // the sub-block runs inside @< or @==, reached directly or through a derived comparison
                let o = self.fresh("o");
                let x = self.fresh("x");
                let variant = self.s.below(5);
                let mut body = vec![E::Print(vec![E::Str(vec![SPart::Lit("cmp ".into()), SPart::Expr(id(&x), None)])])];
                body.extend(sub);
                body.push(E::Bool(self.s.chance(50)));
                let plain = |v: bool| E::Fn(vec![arg("cx")], None, vec![E::Bool(v)]);
                let (entries, expr) = match variant {
                    0 => (vec![("@<".to_string(), E::Fn(vec![arg(&x)], None, body))], E::Bin(Op::Lt, bx(id(&o)), bx(E::Int(3)))),
                    1 => (vec![("@<".to_string(), E::Fn(vec![arg(&x)], None, body)), ("@==".to_string(), plain(false))], E::Bin(Op::Gt, bx(id(&o)), bx(E::Int(3)))),
                    2 => (vec![("@<".to_string(), plain(false)), ("@==".to_string(), E::Fn(vec![arg(&x)], None, body))], E::Bin(Op::Le, bx(id(&o)), bx(E::Int(3)))),
                    3 => (vec![("@<".to_string(), E::Fn(vec![arg(&x)], None, body)), ("@==".to_string(), plain(true))], E::Bin(Op::Ge, bx(id(&o)), bx(E::Int(3)))),
                    _ => (vec![("@==".to_string(), E::Fn(vec![arg(&x)], None, body))], E::Bin(Op::Ne, bx(id(&o)), bx(E::Int(3)))),
                };
                out.push(E::Assign(bx(id(&o)), None, bx(E::Map(entries))));
                out.push(E::Assign(bx(id(&r)), None, bx(expr)));
            }
            _ => {
                // @display reached from interpolation
                let o = self.fresh("d");
                let mut body = vec![self.marker("display")];
                let mut sub = sub;
                let last = sub.pop().unwrap_or(E::Null);
                body.extend(sub);
                let v = self.fresh("dv");
                body.push(E::Assign(bx(id(&v)), None, bx(last)));
                body.push(E::Str(vec![SPart::Lit("shown:".into()), SPart::Expr(id(&v), None)]));
                out.push(E::Assign(bx(id(&o)), None, bx(E::Map(vec![("@display".into(), E::Fn(vec![], None, body))]))));
                out.push(E::Assign(bx(id(&r)), None, bx(E::Str(vec![SPart::Lit("<".into()), SPart::Expr(id(&o), None), SPart::Lit(">".into())]))));
            }
        }
        out.push(E::Print(vec![E::Str(vec![SPart::Lit(format!("carried {name} ")), SPart::Expr(id(&r), None)])]));
        out.push(id(&r));
        out
    }
}

pub fn prelude() -> Vec<E> {
    let mut p = gen_::header();
    p.push(E::Assign(bx(id("nul")), None, bx(E::Null)));
    p.push(E::Assign(bx(id("num5")), None, bx(E::Int(5))));
    p.push(E::Assign(bx(id("st")), None, bx(E::List(vec![E::Int(0)]))));
    p.push(E::Assign(
        bx(id("foo_err")),
        None,
        bx(E::Map(vec![("@type".into(), lit_str("Foo")), ("@display".into(), E::Fn(vec![], None, vec![lit_str("foo-display")])), ("code".into(), E::Int(7))])),
    ));
    p.push(E::Assign(bx(id("up2")), None, bx(E::Fn(vec![FnArg { pat: Pat::Seq(vec![Pat::Id("ua".into(), None), Pat::Id("ub".into(), None)], false), default: None, variadic: false }], None, vec![id("ua")]))));
    p
}

pub fn build_program(data: &[u32], forced: Option<(&'static str, u32)>) -> (Vec<E>, Flags) {
    let mut s = Src::new(data);
    let fault = match forced {
        Some((f, _)) => f,
        None => FAULTS[s.weighted(&[5, 5, 6, 14, 6, 8, 6, 8, 5, 5, 5, 5, 5, 5, 6, 5, 4, 4, 5])],
    };
    let mut g = EG { s, n: 0, fault, fault_placed: false, flags: Flags::default() };
    g.flags.fault = fault.to_string();
    let depth = 2 + g.s.below(4);
    let mut prog = prelude();
    let body = g.build(depth, 0, 0, false);
    prog.extend(body);
    prog.push(E::Print(vec![E::Str(vec![SPart::Lit("end ".into()), SPart::Expr(id("st"), None)])]));
    (prog, g.flags)
}

pub fn eval_prog(prog: &[E], flags: Option<&Flags>) -> Eval {
    let m = model::run_program(prog, true);
    let Some(res) = m.result.clone() else {
        let mut ev = Eval { discard: true, ..Default::default() };
        ev.classes.push(intern(&format!("unjudged:{}", m.unjudged.clone().unwrap_or_default().chars().take(50).collect::<String>())));
        return ev;
    };
    let src = print_program(prog, &Layout::canonical());
    let out = kx::run(&src, &RunOpts::default());
    let mut ev = Eval::pass(flags.map(|f| f.fault_under_try && f.fault_crosses_frame).unwrap_or(true));
    if let Some(f) = flags {
        ev.classes.push(intern(&format!("fault:{}", f.fault)));
        for c in &f.carriers {
            ev.classes.push(c);
        }
        if f.finally {
            ev.classes.push("with-finally");
        }
        if f.typed {
            ev.classes.push("with-typed-catch");
        }
        if f.fault_under_try {
            ev.classes.push("fault-under-try");
        }
    }
    ev.classes.push(if res.is_ok() { "model-ok" } else { "model-uncaught" });
    if let Outcome::CompileErr(msg, _) = &out.outcome {
        ev.fail = Some(Fail::new("c04:compile-error", format!("{msg}\n{src}")));
        return ev;
    }
    if out.stdout != m.stdout {
        let el: Vec<&str> = m.stdout.lines().collect();
        let ol: Vec<&str> = out.stdout.lines().collect();
        let k = el.iter().zip(ol.iter()).position(|(a, b)| a != b).unwrap_or(el.len().min(ol.len()));
        ev.fail = Some(Fail::new("c04:trace-diff", format!("marker trace differs at line {k}: model {:?}, koto {:?}\n--- model:\n{}\n--- koto:\n{}\n--- outcome {:?}\n--- source:\n{src}", el.get(k), ol.get(k), m.stdout, out.stdout, out.outcome)));
        return ev;
    }
    match (&res, &out.outcome) {
        (Ok(a), Outcome::Ok(b)) => {
            if a != b {
                ev.fail = Some(Fail::new("c04:result-diff", format!("result: model {a:?}, koto {b:?}\n{src}")));
            }
        }
        (Err(_), Outcome::RunErr(msg)) => {
            if let Some(t) = &m.thrown {
                let first = msg.lines().next().unwrap_or("");
                if first != t {
                    ev.fail = Some(Fail::new("c04:uncaught-message", format!("uncaught error's first line {first:?} differs from the thrown message {t:?}\n{src}")));
                }
            }
        }
        (a, b) => ev.fail = Some(Fail::new("c04:class-diff", format!("model {a:?}, koto {b:?}\n{src}"))),
    }
    if ev.fail.is_none() && out.outcome.is_ok() && out.stacks != [0, 0, 0, 0, 0] {
        ev.fail = Some(Fail::new("c04:stack-residue", format!("VM stacks not empty after the run: {:?}\n{src}", out.stacks)));
    }
    ev
}

fn case_json(prog: &[E]) -> Value {
    json!({"kind": "prog", "src": print_program(prog, &Layout::canonical()), "ast": serde_json::to_value(prog).unwrap()})
}

// ---------------------------------------------------------------------------------------------
// a failed import is an error like any other: it unwinds to the enclosing try, and afterwards every
// variable and the exports are as they were (module files of the C07 harness: a module that throws
// at its top level after exporting, one with a failing @main, one with a failing @test, an import
// cycle, a missing module)

const FAILING_IMPORTS: [&str; 5] = ["import bad", "import bad_main", "import bad_test", "import cyc_a", "import no_such_module_c04"];
const IMPORT_PLACEMENTS: [&str; 4] = ["top", "in-function", "nested-rethrow", "in-callback"];

pub fn import_fail_source(import: usize, placement: usize, finally: bool) -> (String, String) {
    let imp = FAILING_IMPORTS[import];
    let fin = if finally { "finally\n  print 'fin'\n" } else { "" };
    let body = match IMPORT_PLACEMENTS[placement] {
        "top" => format!("r = try\n  {imp}\n  'no'\ncatch e\n  'caught'\n{fin}"),
        "in-function" => format!("f = ||\n  {imp}\n  'no'\nr = try\n  [1, f()]\ncatch e\n  'caught'\n{fin}"),
        "nested-rethrow" => format!("r = try\n  try\n    {imp}\n    'no'\n  catch e\n    print 'inner'\n    throw e\ncatch e2\n  'caught'\n{fin}"),
        _ => format!("cb = |x|\n  {imp}\n  x\nr = try\n  (1, 2).each(cb).to_tuple()\ncatch e\n  'caught'\n{fin}"),
    };
    let src = format!("export before = 1\nkeep = [1, 2]\n{body}export after = 2\nsum = || before + after\nprint r, sum(), keep\n");
    let mut expected = String::new();
    if IMPORT_PLACEMENTS[placement] == "nested-rethrow" {
        expected.push_str("inner\n");
    }
    if finally {
        expected.push_str("fin\n");
    }
    // (a finally block provides the value of the try expression: `print` yields null)
    expected.push_str(if finally { "(null, 3, [1, 2])\n" } else { "('caught', 3, [1, 2])\n" });
    (src, expected)
}

fn eval_import_fail(import: usize, placement: usize, finally: bool, dir: &std::path::PathBuf) -> Eval {
    let (src, expected) = import_fail_source(import, placement, finally);
    let mut ev = Eval::pass(true).class("failed-import");
    crate::props::c07::write_modules(dir);
    let main = dir.join("main.koto");
    let cap = kx::Capture::default();
    let opts = RunOpts { script_path: Some(main.to_string_lossy().to_string()), ..Default::default() };
    let mut settings = kx::settings(&cap, &opts);
    settings.vm_settings.run_import_tests = true;
    let mut koto = koto::Koto::with_settings(settings);
    let outcome = kx::run_on(&mut koto, &src, &opts);
    let stdout = cap.take();
    let mut exports: Vec<String> = koto.exports().data().iter().map(|(k, _)| match k.value() { koto_runtime::KValue::Str(s) => s.to_string(), other => other.type_as_string().to_string() }).collect();
    exports.sort();
    if !outcome.is_ok() || stdout != expected || exports != ["after", "before"] {
        ev.fail = Some(Fail::new(
            "c04:failed-import",
            format!("{} / {} / finally {finally}: outcome {outcome:?}\nstdout {stdout:?}, expected {expected:?}\nexports {exports:?}, expected [after, before]\n--- source:\n{src}", FAILING_IMPORTS[import], IMPORT_PLACEMENTS[placement]),
        ));
    }
    ev
}

fn run_shard(ctx: &mut Ctx) {
    {
        let dir = std::path::PathBuf::from(format!("/verif/engine/run/c04-modules/{}-{}", std::process::id(), ctx.shard));
        let mut k = 0u64;
        for import in 0..FAILING_IMPORTS.len() {
            for placement in 0..IMPORT_PLACEMENTS.len() {
                for finally in [false, true] {
                    k += 1;
                    if !ctx.mine(k) {
                        continue;
                    }
                    let case = json!({"kind": "import-fail", "import": import, "placement": placement, "finally": finally, "src": import_fail_source(import, placement, finally).0});
                    ctx.run_case(&case, || eval_import_fail(import, placement, finally, &dir));
                }
            }
        }
        let _ = std::fs::remove_dir_all(&dir);
    }
    // exhaustive grid: fault kind x forced first carrier is approximated by seeds per fault kind
    let per_fault = ctx.tier.pick(400u64, 4000u64);
    let mut idx = 0u64;
    for f in FAULTS {
        for k in 0..per_fault {
            idx += 1;
            if !ctx.mine(idx) {
                continue;
            }
            let seed = ctx.sub_seed("grid", idx);
            let mut runner = seeded_runner(seed);
            use proptest::strategy::{Strategy, ValueTree};
            let data = gen_::choice_stream(160).new_tree(&mut runner).unwrap().current();
            let _ = k;
            let (prog, flags) = build_program(&data, Some((f, 0)));
            let case = case_json(&prog);
            ctx.run_case(&case, || eval_prog(&prog, Some(&flags)));
        }
    }
    let n = ctx.tier.pick(25_000, 300_000);
    let post = |data: &Vec<u32>, f: &Fail| -> Option<(Value, Fail)> {
        let (prog, _) = build_program(data, None);
        reduce(&prog, f)
    };
    ctx.explore_r(
        "err-programs",
        n,
        &gen_::choice_stream(160),
        |data| case_json(&build_program(data, None).0),
        |data| {
            let (prog, flags) = build_program(data, None);
            eval_prog(&prog, Some(&flags))
        },
        Some(&post),
    );
}

fn reduce(prog: &Vec<E>, f: &Fail) -> Option<(Value, Fail)> {
    let class = sig_class(&f.sig).to_string();
    let mut last = None;
    let leaves = [json!("Null"), json!({"Int": 0})];
    let reduced = crate::shrink::reduce(
        prog,
        &leaves,
        &mut |p: &Vec<E>| {
            if gen_::domain_ok(p).is_err() || !c04_domain(p) {
                return false;
            }
            match guarded(|| eval_prog(p, None)) {
                Ok(ev) => match ev.fail {
                    Some(f2) if sig_class(&f2.sig) == class => {
                        last = Some(f2);
                        true
                    }
                    _ => false,
                },
                Err((loc, msg)) => {
                    let sig = panic_sig(&loc, &msg);
                    if sig_class(&sig) == class {
                        last = Some(Fail::new(sig, format!("panic at {loc}: {msg}")));
                        true
                    } else {
                        false
                    }
                }
            }
        },
        std::time::Duration::from_secs(12),
    );
    last.map(|f2| (case_json(&reduced), f2))
}

/// domain restrictions specific to this generator (kept by the reducer)
fn c04_domain(p: &[E]) -> bool {
    let mut ok = true;
    for e in p {
        e.visit(&mut |x| {
            if let E::Try(_, cs, fin) = x {
                // the last catch is untyped; with finally no catch throws (F28)
                if cs.last().map(|c| c.ty.is_some()).unwrap_or(true) {
                    ok = false;
                }
                if fin.is_some() {
                    for c in cs {
                        for s in &c.body {
                            s.visit(&mut |y| {
                                if matches!(y, E::Throw(_) | E::Return(_) | E::Break(_) | E::Continue) {
                                    ok = false
                                }
                            });
                        }
                    }
                }
            }
        });
    }
    ok
}

fn replay(case: &Value) -> Option<Fail> {
    match case["kind"].as_str()? {
        "prog" => {
            let prog: Vec<E> = serde_json::from_value(case["ast"].clone()).ok()?;
            eval_prog(&prog, None).fail
        }
        "import-fail" => {
            let dir = std::path::PathBuf::from(format!("/verif/engine/run/c04-modules/replay-{}", std::process::id()));
            let r = eval_import_fail(case["import"].as_u64()? as usize, case["placement"].as_u64()? as usize, case["finally"].as_bool()?, &dir).fail;
            let _ = std::fs::remove_dir_all(&dir);
            r
        }
        "known-src" => {
            let out = kx::run(case["src"].as_str()?, &RunOpts::default());
            let exp = case["expect_stdout"].as_str()?;
            if out.stdout != exp { Some(Fail::new(format!("c04:shape-{}", case["shape"].as_str()?), format!("expected stdout {exp:?}, got {:?} ({:?})", out.stdout, out.outcome))) } else { None }
        }
        _ => None,
    }
}

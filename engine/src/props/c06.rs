//! C06 — host safety: no input makes compile, format, run or display panic
use crate::core::*;
use crate::kx::{self, RunOpts};
use crate::textgen;
use koto::prelude::*;
use koto_format::FormatOptions;
use serde_json::{Value, json};

pub static PROP: Prop = Prop {
    id: "C06",
    rule: "(a) texts: repository corpus, its single-token mutation neighbourhood (delete / duplicate / swap / replace by each of a 40-token pool / indentation +-1,2; quick: seeded 12% sample, thorough: all), proptest token soups and valid-UTF-8 noise; each text is compiled, formatted under 3 option sets, every error is rendered, and if it compiles it is run under a 50 ms execution limit (sandboxed prelude without file/process functions) and the result or error is displayed. (b) core library: every callable found in the live prelude modules applied to all argument tuples of arity 0..2 (and a seeded sample of arity 3) from a boundary-value pool built fresh for every call; iterator results are drained for <= 64 steps and every result is displayed. Every corpus text is also exercised with CRLF / lone-CR line endings, a multi-line comment spliced in and a cut near the end. (d) string literals assembled from every escape form of the C15 table (valid, boundary, surrogate, out of range, malformed), alone and in ordered pairs, in both quote kinds, compiled directly and through koto.load inside try. Oracle: no panic payload, no abort, no hang. Non-trivial: (a) text not verbatim in the corpus that gets past the first token; (b) call that reaches the function body (error text is not 'Unexpected arguments'). Distinct by content hash.",
    assumptions: &[
        "allocation failure, capacity overflow and native stack overflow are resource exhaustion (excluded by the statement): counted, not reported",
        "loops that spin inside a native function (iterator.repeat without take, consumers of unbounded ranges) are excluded by construction from running",
        "file, process and clock functions of io/os are removed from the prelude before running (side effects on the sandbox, not part of the property)",
    ],
    shards: |_| 14,
    run_shard,
    replay,
    min_nontrivial_fraction: 0.3,
};

pub fn sandbox(koto: &mut Koto) {
    if let Some(KValue::Map(io)) = koto.prelude().get("io") {
        for k in ["create", "open", "remove_file", "read_to_string"] {
            io.remove(k);
        }
    }
    if let Some(KValue::Map(os)) = koto.prelude().get("os") {
        for k in ["command", "process_id"] {
            os.remove(k);
        }
    }
}

fn spins_in_native(src: &str) -> bool {
    // constructs that can loop forever or allocate without bound inside native code
    ["repeat", "cycle", "generate", "resize", "fill", "expanded", "pow", "import", "stdin"].iter().any(|w| src.contains(w)) || src.contains("..")
}

const FORMAT_OPTS: [FormatOptions; 3] = [
    FormatOptions { always_indent_arms: false, chain_break_threshold: 4, indent_width: 2, line_length: 100 },
    FormatOptions { always_indent_arms: true, chain_break_threshold: 1, indent_width: 4, line_length: 20 },
    FormatOptions { always_indent_arms: false, chain_break_threshold: 0, indent_width: 1, line_length: 255 },
];

/// Exercise every host-facing entry point on a text. Panics propagate to the caller's guard.
pub fn exercise_text(src: &str, allow_run: bool) -> (bool, bool) {
    let cap = kx::Capture::default();
    let opts = RunOpts { limit_ms: Some(50), ..Default::default() };
    let mut koto = Koto::with_settings(kx::settings(&cap, &opts));
    sandbox(&mut koto);
    let mut compiled = false;
    let mut ran = false;
    match koto.compile(kx::compile_args(src, &opts)) {
        Ok(chunk) => {
            compiled = true;
            if allow_run && !spins_in_native(src) {
                ran = true;
                match koto.run(chunk) {
                    Ok(v) => {
                        let _ = koto.value_to_string(v).map_err(|e| e.to_string());
                    }
                    Err(e) => {
                        let _ = e.to_string();
                    }
                }
            }
        }
        Err(e) => {
            let _ = e.to_string();
            let _ = e.is_indentation_error();
        }
    }
    for o in FORMAT_OPTS {
        match koto_format::format(src, o) {
            Ok(s) => {
                std::hint::black_box(s.len());
            }
            Err(e) => {
                let _ = e.to_string();
            }
        }
    }
    (compiled, ran)
}

fn resource_sig(sig: &str) -> bool {
    sig.starts_with("crash:alloc-failure") || sig.starts_with("crash:stack-overflow") || sig.contains("capacity overflow") || sig.contains("memory allocation")
}

/// true if the text contains a character whose display width is not 1 (non-ASCII, tab, control)
pub fn has_odd_width_char(src: &str) -> bool {
    src.chars().any(|c| c != '\n' && c != '\r' && (!c.is_ascii() || c.is_ascii_control()))
}

pub fn text_panic_sig(src: &str, loc: &str, msg: &str) -> String {
    let mut sig = panic_sig(loc, msg);
    if sig.contains(":source_slice") && has_odd_width_char(src) {
        // known: the formatter turns display columns into byte offsets
        sig.push_str(":odd-width-char-input");
    }
    sig
}

fn eval_text(src: &str, in_corpus: bool, class: &'static str) -> Eval {
    let (compiled, ran) = match guarded(|| exercise_text(src, true)) {
        Ok(x) => x,
        Err((loc, msg)) => {
            if panic_is_harness(&loc) {
                std::panic::resume_unwind(Box::new(format!("harness: {loc}: {msg}")));
            }
            return Eval::failed(text_panic_sig(src, &loc, &msg), format!("panic at {loc}: {msg}")).class(class);
        }
    };
    let past_first = textgen::token_ranges(src).len() > 1;
    let mut ev = Eval::pass(!in_corpus && past_first).class(class);
    if compiled {
        ev.classes.push("compiles");
    }
    if ran {
        ev.classes.push("ran");
    }
    ev
}

// ---------------------------------------------------------------------------------------------
// core library sweep

pub const POOL: [&str; 54] = [
    "null",
    "true",
    "false",
    "0",
    "1",
    "-1",
    "2",
    "63",
    "64",
    "255",
    "256",
    "2147483648",
    "-2147483649",
    "9007199254740993",
    "9223372036854775807",
    "(-9223372036854775807 - 1)",
    "0.5",
    "-0.0",
    "(0.0 / 0.0)",
    "(1.0 / 0.0)",
    "(-1.0 / 0.0)",
    "1e300",
    "''",
    "'abc'",
    "'é'",
    "'a語😀'",
    "'e\\u{301}x'",
    "'👨\\u{200d}👩 z'",
    "('ab' + 'cdé')",
    "'xhéllo wörld'[1..8]",
    "'a,b,,c\\r\\nd\\n'",
    "[]",
    "[1]",
    "[3, 1, 2]",
    "[[1, 2], ['a'], []]",
    "()",
    "(1, 'a')",
    "((1, 2), (3, 4))",
    "(1, 2, 3, 4, 5)[1..4]",
    "{}",
    "{a: 1, b: 2, c: 3}",
    "$ = {}\n$.insert(1, 'x')\n$.insert((1, 2), 'y')\n$.insert('k', 'z')",
    "0..3",
    "3..0",
    "1..=1",
    "|x| x",
    "|a, b| a",
    "|| throw 'cb'",
    "|x| null",
    "|x| true",
    "|x| x != 'a'",
    "[1, 2, 3].iter()",
    "$ = (1, 2).iter()\n$.next()\n$.next()\n$.next()",
    "g$ = ||\n  yield 1\n  yield 2\n$ = g$()",
];

/// extra values only used as a single argument / first argument (risk of unbounded native work)
pub const RISKY: [&str; 6] = ["1..", "..", "..=9223372036854775807", "'x'.repeat(70000)", "iterator.repeat(1)", "(1..5).peekable()"];

pub const OBJECTS: [&str; 3] = [
    // an object with many metakeys
    "{@type: 'Obj', v: 1, @display: || 'obj', @+: |o| self, @-: |o| self, @*: |o| 1, @==: |o| true, @<: |o| false, @index: |i| i, @call: |a...| a, @size: || 3, @iterator: || 0..3, @negate: || self}",
    // an object whose metakeys throw
    "{@type: 'Bad', @display: || throw 'd', @+: |o| throw 'p', @==: |o| throw 'e', @<: |o| throw 'l', @index: |i| throw 'i', @call: || throw 'c', @size: || throw 's', @iterator: || throw 'it', @next: || throw 'n'}",
    // an object with wrongly typed results
    "{@display: || 42, @size: || 'x', @iterator: || 1, @next: || self, @<: |o| 'no', @==: |o| 1}",
];

/// objects with partial / throwing / wrongly typed metakeys for the operator sweep
pub const PARTIAL_OBJECTS: [&str; 22] = [
    "{@<: |o| true}",
    "{@==: |o| true}",
    "{@<: (|o| false), @==: |o| false}",
    "{@>: |o| true}",
    "{@!=: |o| 1}",
    "{@+: |o| throw koto.unimplemented}",
    "{@r+: |o| 1, @r-: |o| throw 'r'}",
    "{@+=: |o| 1}",
    "{@next: || null}",
    "{@next: (|| 1), @next_back: || null}",
    "{@index: |i| i}",
    "{@size: || 2}",
    "{@size: (|| -1), @index: |i| throw 'x'}",
    "{@call: 1}",
    "{@display: 1, @debug: || throw 'g'}",
    "{@iterator: || null}",
    "{@negate: 1}",
    "{@<: 5, @==: 'x', @+: null}",
    "{@access: |k| throw 'a'}",
    "{@access_assign: |k, v| null, @index_assign: |i, v| throw 'ia'}",
    "{@base: {@<: |o| true}, @type: 'Child'}",
    "{@meta tag: 1, @type: 7}",
];

pub const OPERATOR_FORMS: [&str; 46] = [
    "'{a0:3}'", "'{a0:12}'", "'{a0:^9.1}'", "'{a0:é<6}'", "'{a0:08.3}'", "'{a0:x}'", "'{a0:e}'", "'{a0:>40.0?}'", "'{a0:😀^5}{a1:2}'", "'{a0:.100}'",
    "a0 + a1", "a0 - a1", "a0 * a1", "a0 / a1", "a0 % a1", "a0 ^ a1", "a0 < a1", "a0 <= a1", "a0 > a1", "a0 >= a1", "a0 == a1", "a0 != a1",
    "x = a0\n  x += a1\n  x", "x = a0\n  x -= a1\n  x", "x = a0\n  x *= a1\n  x", "x = a0\n  x /= a1\n  x", "x = a0\n  x %= a1\n  x", "x = a0\n  x ^= a1\n  x",
    "-a0", "not a0", "size a0", "a0[a1]", "a0[0]", "x = a0\n  x[0] = a1\n  x", "a0.foo", "x = a0\n  x.foo = a1\n  x", "a0(a1)", "a0()",
    "o = ''\n  for v in a0\n    o = o + '{v}'\n    if (size o) > 40\n      break\n  o", "'{a0}{a1}'", "'{a0:?}'", "(a0, a1) == (a1, a0)", "[a0].contains a1", "{k: a0} == {k: a1}", "match a0\n    (p, q...) then 1\n    {foo} then 2\n    else 3", "a0 < a1 < a0",
];

fn all_args() -> Vec<String> {
    let mut v: Vec<String> = POOL.iter().map(|s| s.to_string()).collect();
    v.extend(OBJECTS.iter().map(|s| s.to_string()));
    v
}

/// names of callables in the live prelude ("module.name" and top-level names)
pub fn prelude_functions() -> Vec<String> {
    let koto = Koto::default();
    let mut out = vec![];
    let prelude = koto.prelude().clone();
    let data = prelude.data();
    for (k, v) in data.iter() {
        let name = k.to_string();
        match v {
            KValue::Map(m) => {
                if name == "os" {
                    continue;
                }
                for (fk, fv) in m.data().iter() {
                    let fname = fk.to_string();
                    if name == "io" && !["print", "stdout", "stderr", "extend_path"].contains(&fname.as_str()) {
                        continue;
                    }
                    if fv.is_callable() {
                        out.push(format!("{name}.{fname}"));
                    }
                }
            }
            v if v.is_callable() => out.push(name),
            _ => {}
        }
    }
    out.sort();
    out
}

pub fn call_script(fname: &str, args: &[&str]) -> String {
    let mut s = String::new();
    let names = ["a0", "a1", "a2", "a3"];
    for (i, a) in args.iter().enumerate() {
        if a.contains('$') {
            s.push_str(&a.replace('$', names[i]));
            s.push('\n');
        } else {
            s.push_str(&format!("{} = {}\n", names[i], a));
        }
    }
    s.push_str(&format!("r = {}({})\n", fname, names[..args.len()].join(", ")));
    s.push_str("if (type r) == 'Iterator'\n  r = r.take(64).to_tuple()\n");
    for n in &names[..args.len()] {
        s.push_str(&format!("d = '{{{n}}}'\n"));
    }
    s.push_str("r\n");
    s
}

/// run a library-call script; returns (reached body, outcome class)
pub fn eval_call(src: &str) -> Eval {
    let cap = kx::Capture::default();
    let opts = RunOpts { limit_ms: Some(200), ..Default::default() };
    let mut koto = Koto::with_settings(kx::settings(&cap, &opts));
    sandbox(&mut koto);
    let outcome = kx::run_on(&mut koto, src, &opts);
    let reached = match &outcome {
        kx::Outcome::Ok(_) => true,
        kx::Outcome::RunErr(m) => !m.contains("Unexpected arguments") && !m.contains("insufficient arguments") && !m.contains("too many arguments"),
        kx::Outcome::CompileErr(..) => false,
    };
    let mut ev = Eval::pass(reached).class("libcall");
    ev.classes.push(match outcome {
        kx::Outcome::Ok(_) => "libcall-ok",
        kx::Outcome::RunErr(_) => "libcall-err",
        kx::Outcome::CompileErr(..) => "libcall-compile-err",
    });
    ev
}

fn not_judged(sig: &str) -> bool {
    resource_sig(sig) || sig == "hang"
}

fn run_shard(ctx: &mut Ctx) {
    ctx.resource_filter = Some(not_judged);
    ctx.set_case_limit_ms(2500);
    let t_start = std::time::Instant::now();
    let corpus = crate::corpus::load();
    let quick = ctx.quick();
    // (a1) corpus verbatim
    ctx.explore_iter(
        "corpus",
        corpus.iter(),
        |c| json!({"kind": "text", "src": c.text, "name": c.name}),
        |c| eval_text(&c.text, true, "corpus"),
    );
    // (a2) mutation neighbourhood
    let sample_pct: u64 = if quick { 12 } else { 100 };
    let mut gidx: u64 = 0;
    for (ci, c) in corpus.iter().enumerate() {
        if c.text.len() > 6000 {
            continue;
        }
        let toks = textgen::token_ranges(&c.text);
        let n = textgen::neighbourhood_size(&c.text, &toks);
        for k in 0..n {
            gidx += 1;
            if !ctx.mine(gidx) {
                continue;
            }
            if sample_pct < 100 && fnv(format!("{}:{}:{}", ctx.seed, ci, k).as_bytes()) % 100 >= sample_pct {
                continue;
            }
            if ctx.too_many_failures() {
                break;
            }
            let Some(m) = textgen::mutant(&c.text, &toks, k) else { continue };
            let case = json!({"kind": "text", "src": m, "may_exhaust": true});
            ctx.run_case(&case, || eval_text(&m, false, "mutant"));
        }
    }
    // (a2') line-ending variants: every corpus text with CRLF (and lone CR) line breaks, a multi-line comment
    // spliced in at a line start, cut at a seeded token boundary so that an error is reported near the end
    let variants = ctx.tier.pick(2u64, 12u64);
    for (ci, c) in corpus.iter().enumerate() {
        if c.text.len() > 6000 || c.text.contains('\r') {
            continue;
        }
        for v in 0..variants {
            gidx += 1;
            if !ctx.mine(gidx) || ctx.too_many_failures() {
                continue;
            }
            let h = fnv(format!("{}:eol:{}:{}", ctx.seed, ci, v).as_bytes());
            let eol = if h % 5 == 0 { "\r" } else { "\r\n" };
            let lines: Vec<&str> = c.text.lines().collect();
            if lines.is_empty() {
                continue;
            }
            let at = (h >> 8) as usize % lines.len();
            let keep = at + 1 + (h >> 24) as usize % (lines.len() - at);
            let mut t = String::new();
            for (i, l) in lines.iter().enumerate().take(keep) {
                if i == at {
                    let ind: String = l.chars().take_while(|ch| *ch == ' ').collect();
                    t.push_str(&format!("{ind}#- one{eol}two{eol}three -#{eol}"));
                }
                t.push_str(l);
                t.push_str(eol);
            }
            // cut inside the last kept line (v odd) to provoke a diagnostic there
            if v % 2 == 1 {
                let cut = t.len().saturating_sub(eol.len() + 1 + (h >> 40) as usize % 6);
                if t.is_char_boundary(cut) {
                    t.truncate(cut);
                }
            }
            let case = json!({"kind": "text", "src": t, "may_exhaust": true});
            ctx.run_case(&case, || eval_text(&t, false, "line-endings"));
        }
    }
    // (a3) soups and noise
    let n = ctx.tier.pick(30_000, 600_000);
    ctx.explore("soup", n, &textgen::soup(), |s| json!({"kind": "text", "src": s, "may_exhaust": true}), |s| eval_text(s, false, "soup"));
    ctx.explore("noise", n / 2, &textgen::noise(), |s| json!({"kind": "text", "src": s, "may_exhaust": true}), |s| eval_text(s, false, "noise"));

    let t_text = std::time::Instant::now();
    // (b) core library sweep
    let fns = prelude_functions();
    let args = all_args();
    let na = args.len();
    let nr = RISKY.len();
    // per function: arity 0 (1) + arity 1 (na + nr) + arity 2 (na * na, plus nr * na for range./koto. functions) + arity-3 sample
    let per_fn3 = ctx.tier.pick(150usize, 6000usize);
    let mut idx: u64 = 0;
    let mut total2: u64 = 0;
    for (fi, f) in fns.iter().enumerate() {
        let consumer = ["all", "any", "consume", "count", "find", "fold", "last", "max", "min", "min_max", "position", "product", "sum", "to_list", "to_map", "to_string", "to_tuple", "reversed", "extend", "contains", "sort", "size", "join", "skip", "deep_copy", "hash", "windows", "chunks"]
            .iter()
            .any(|c| f.ends_with(&format!(".{c}")) || f == c);
        let risky2 = f.starts_with("range.") || f.starts_with("koto.") && !consumer;
        let mut tuples: Vec<Vec<&str>> = vec![vec![]];
        for a in args.iter() {
            tuples.push(vec![a.as_str()]);
        }
        if !consumer {
            for a in RISKY {
                tuples.push(vec![a]);
            }
        }
        for a in args.iter() {
            for b in args.iter() {
                tuples.push(vec![a.as_str(), b.as_str()]);
            }
        }
        if risky2 {
            for a in RISKY {
                for b in args.iter() {
                    tuples.push(vec![a, b.as_str()]);
                }
            }
        }
        total2 += tuples.len() as u64;
        for j in 0..per_fn3 {
            let h = fnv(format!("{}:a3:{}:{}", ctx.seed, fi, j).as_bytes());
            tuples.push(vec![args[(h % na as u64) as usize].as_str(), args[((h >> 16) % na as u64) as usize].as_str(), args[((h >> 32) % na as u64) as usize].as_str()]);
        }
        for a in tuples {
            idx += 1;
            if !ctx.mine(idx) {
                continue;
            }
            if ctx.too_many_failures() {
                break;
            }
            let src = call_script(f, &a);
            let case = json!({"kind": "libcall", "src": src, "may_exhaust": true});
            // fork when an argument can make native code allocate or spin without bound
            let big = |x: &str| x.len() >= 10 && x.bytes().all(|b| b.is_ascii_digit() || b == b'-' || b == b'(' || b == b')' || b == b' ') || x.contains("1e300") || x.contains("/ 0.0");
            let any_big = a.iter().any(|x| big(x));
            if any_big && ["iterator.step", "iterator.skip"].contains(&f.as_str()) {
                // 2^31.. steps over an iterator spin inside native code (excluded by the statement)
                ctx.exclude("native-spin: iterator.step/skip with a huge count");
                continue;
            }
            let alloc_fn = ["iterator.chunks", "iterator.windows", "list.resize", "list.resize_with", "list.fill", "string.repeat", "string.from_bytes", "iterator.repeat", "range.expanded", "tuple.repeat", "list.repeat"].contains(&f.as_str());
            let risky = a.iter().any(|x| RISKY.contains(x)) || (any_big && alloc_fn);
            if risky {
                ctx.run_case_forked(&case, 1500, || eval_call(&src));
            } else {
                ctx.run_case(&case, || eval_call(&src));
            }
        }
    }
    // (c) operator and protocol sweep: every operator / protocol form over all ordered pairs of pool values
    // and object definitions with partial, throwing and wrongly typed metakeys
    let mut operands: Vec<String> = all_args();
    operands.extend(PARTIAL_OBJECTS.iter().map(|s| s.to_string()));
    let forms: Vec<&str> = OPERATOR_FORMS.to_vec();
    let mut oidx: u64 = 0;
    let mut ototal: u64 = 0;
    for a in operands.iter() {
        for b in operands.iter() {
            // pairs of two plain pool values are covered by the texts; one side is an object here,
            // except for the interpolation-format forms, which run for every first operand once
            let with_object = a.contains('@') || b.contains('@');
            for form in forms.iter() {
                if !with_object && !(form.starts_with("'{a0:") && std::ptr::eq(b, &operands[0])) {
                    continue;
                }
                ototal += 1;
                oidx += 1;
                if !ctx.mine(oidx) || ctx.too_many_failures() {
                    continue;
                }
                let src = format!("a0 = {a}\na1 = {b}\nr = try\n  {}\ncatch e\n  'E'\nd = try\n  '{{r}}'\ncatch e\n  'E'\nr\n", form);
                let case = json!({"kind": "libcall", "src": src, "may_exhaust": true});
                ctx.run_case(&case, || eval_call(&src));
            }
        }
    }
    // (d) string literals assembled from every escape form (valid, boundary and invalid ones), alone and in
    // pairs, both quote kinds, compiled directly and through koto.load inside try
    let parts = crate::props::c15::escape_parts();
    let mut eidx: u64 = 0;
    for (i, a) in parts.iter().enumerate() {
        for j in 0..=parts.len() {
            for q in ['\'', '"'] {
                eidx += 1;
                if !ctx.mine(eidx) || ctx.too_many_failures() {
                    continue;
                }
                let body = if j == parts.len() { a.0.to_string() } else { format!("{}{}", a.0, parts[j].0) };
                let _ = i;
                let src = format!("x = {q}{body}{q}\nprint x\nprint size x\n");
                let case = json!({"kind": "text", "src": src, "may_exhaust": false});
                ctx.run_case(&case, || eval_text(&src, false, "escape-literals"));
                if q == '\'' && !body.contains('\n') && !body.contains('"') {
                    let src = format!("r = try\n  koto.load r#\"x = '{body}'\"#\ncatch e\n  'E'\nprint r\n");
                    let case = json!({"kind": "text", "src": src, "may_exhaust": false});
                    ctx.run_case(&case, || eval_text(&src, false, "escape-literals-load"));
                }
            }
        }
    }
    if ctx.shard == 0 {
        ctx.st.exhaustive_spaces.insert("escape forms, singles and ordered pairs, two quote kinds".into(), eidx);
        ctx.st.exhaustive_spaces.insert("operator-forms x operand pairs with an object".into(), ototal);
        ctx.st.exhaustive_spaces.insert("libcalls-arity<=2".into(), total2);
        ctx.note(format!("{} prelude functions x {} pool values (+{} risky first arguments where they cannot spin natively)", fns.len(), na, nr));
        ctx.note(format!("shard 0 timing: texts {:.1}s, library sweep {:.1}s", t_text.duration_since(t_start).as_secs_f64(), t_text.elapsed().as_secs_f64()));
    }
}

fn replay(case: &Value) -> Option<Fail> {
    let src = case["src"].as_str()?;
    let r = match case["kind"].as_str()? {
        "text" => guarded(|| eval_text(src, false, "replay")),
        "libcall" => guarded(|| eval_call(src)),
        _ => return None,
    };
    match r {
        Ok(ev) => ev.fail,
        Err((loc, msg)) => {
            let sig = panic_sig(&loc, &msg);
            if resource_sig(&sig) { None } else { Some(Fail::new(sig, format!("panic at {loc}: {msg}"))) }
        }
    }
}

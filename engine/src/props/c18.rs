//! C18 — modules: exports, imports and caching behave as documented
use crate::core::*;
use crate::kx::{self, Capture, RunOpts};
use crate::pgen::{Src, choice_stream};
use serde::{Deserialize, Serialize};
use serde_json::{Value, json};
use std::collections::BTreeMap;
use std::path::PathBuf;

pub static PROP: Prop = Prop {
    id: "C18",
    rule: "module graphs of 2-6 modules written to disk, decoded from a proptest choice vector: each module is a file, a directory with main.koto, or both (the file must win); its top level prints a marker, imports other modules (edges may form cycles) through `import m`, `import m as a`, `from m import v`, `from m import v as w`, `from m import *`, the same with the module named by a string (`from 'm' import *`, `from 'm' import v`, `import 'm' as a`) or a missing name, exports a value computed from what it imported, reassigns the exported name locally (must not alter the export), reads the export from a function defined before the export, optionally defines a passing or failing @test and a @main (which may itself throw), and optionally throws after exporting. The main script imports a random sequence of modules (with repeats) each inside try/catch, prints what it got, and is run twice on the same runtime; settings run_import_tests and export_top_level_ids are drawn per case. The complete stdout (which top levels, tests and @main functions ran, in which order, how often), the imported values and Koto::exports() are compared with a reference model of the import algorithm (run once, tests then @main, cycle = error, failed module leaves nothing cached and can be retried, completed dependencies stay cached). Second stream: scripts of 2-9 top-level assignments in every target form (plain, multi, compound, let, let-multi, map pattern, map pattern with `as`, map pattern nested in a multi-assignment, chained, inside if / for, from a function result, iterated right-hand side, let with a map pattern) run with export_top_level_ids on (every assigned name is in Koto::exports() with its final value, names local to functions are not, a later chunk on the same runtime reads them) and off (nothing is exported). Non-trivial: the graph has a cycle, a failing module, a repeated import or a file/directory conflict; a script with a form other than the plain one.",
    assumptions: &["module files are written under engine/run per shard and removed afterwards", "the text of import errors is not judged, only that the import failed"],
    shards: |_| 16,
    run_shard,
    replay,
    min_nontrivial_fraction: 0.3,
};

#[derive(Clone, Debug, Serialize, Deserialize, PartialEq)]
pub enum ImportForm {
    Plain,            // import m
    PlainAs,          // import m as a
    FromValue,        // from m import v
    FromValueAs,      // from m import v as w
    Wildcard,         // from m import *
    FromMissing,      // from m import nope
    StrWildcard,      // from 'm' import *
    StrFromValue,     // from 'm' import v
    StrPlainAs,       // import 'm' as a
}

#[derive(Clone, Debug, Serialize, Deserialize)]
pub struct Module {
    /// 0 file, 1 directory, 2 both (file wins)
    layout: u8,
    imports: Vec<(usize, ImportForm)>,
    /// 0 none, 1 passing, 2 failing
    test: u8,
    has_main: bool,
    #[serde(default)]
    main_throws: bool,
    throws: bool,
}

#[derive(Clone, Debug, Serialize, Deserialize)]
pub struct Case {
    modules: Vec<Module>,
    main_imports: Vec<(usize, ImportForm)>,
    run_import_tests: bool,
    export_top_level: bool,
}

fn gen_case(s: &mut Src) -> Case {
    let n = 2 + s.below(5) as usize;
    let forms = [ImportForm::Plain, ImportForm::PlainAs, ImportForm::FromValue, ImportForm::FromValueAs, ImportForm::Wildcard, ImportForm::FromMissing, ImportForm::StrWildcard, ImportForm::StrFromValue, ImportForm::StrPlainAs];
    let pick_form = |s: &mut Src| forms[s.weighted(&[4, 2, 4, 2, 3, 1, 2, 1, 1])].clone();
    let cyclic = s.below(4) == 0;
    let mut modules = vec![];
    for k in 0..n {
        let mut imports = vec![];
        let ni = s.weighted(&[3, 4, 2, 1]);
        for _ in 0..ni {
            // mostly forward edges (a DAG); cycles when the case is drawn cyclic
            let target = if cyclic && s.below(3) == 0 { s.below(n as u32) as usize } else if k + 1 < n { k + 1 + s.below((n - k - 1) as u32) as usize } else { continue };
            imports.push((target, pick_form(s)));
        }
        // imports resolve relative to the importing file: a directory module would look for its
        // dependencies inside its own directory, so directory modules are leaves of the graph
        let layout = s.weighted(&[5, 2, 2]) as u8;
        if layout == 1 {
            imports.clear();
        }
        modules.push(Module { layout, imports, test: s.weighted(&[4, 3, 1]) as u8, has_main: s.below(2) == 0, main_throws: s.below(6) == 0, throws: s.below(8) == 0 });
    }
    let mut main_imports = vec![];
    let nm = 1 + s.below(6) as usize;
    for _ in 0..nm {
        main_imports.push((s.below(n as u32) as usize, pick_form(s)));
    }
    Case { modules, main_imports, run_import_tests: s.below(2) == 0, export_top_level: s.below(3) == 0 }
}

/// Source lines binding an import inside module/main text; returns (statement, expression that shows what was bound)
fn import_stmt(target: usize, form: &ImportForm, tag: &str) -> (String, String) {
    let m = format!("m{target}");
    match form {
        ImportForm::Plain => (format!("import {m}"), format!("{m}.v{target}")),
        ImportForm::PlainAs => (format!("import {m} as al_{tag}"), format!("al_{tag}.v{target}")),
        ImportForm::FromValue => (format!("from {m} import v{target}"), format!("v{target}")),
        ImportForm::FromValueAs => (format!("from {m} import v{target} as w_{tag}"), format!("w_{tag}")),
        ImportForm::Wildcard => (format!("from {m} import *"), format!("v{target}")),
        ImportForm::FromMissing => (format!("from {m} import nope{target}"), "'unreachable'".to_string()),
        ImportForm::StrWildcard => (format!("from '{m}' import *"), format!("v{target}")),
        ImportForm::StrFromValue => (format!("from '{m}' import v{target}"), format!("v{target}")),
        ImportForm::StrPlainAs => (format!("import '{m}' as sal_{tag}"), format!("sal_{tag}.v{target}")),
    }
}

fn module_source(k: usize, m: &Module, variant: &str) -> String {
    let mut s = format!("print 'top:m{k}{variant}'\nget_v = || v{k}\n");
    let mut parts = vec![format!("'{k}{variant}('")];
    for (i, (t, f)) in m.imports.iter().enumerate() {
        let (stmt, shown) = import_stmt(*t, f, &format!("{k}_{i}"));
        s.push_str(&stmt);
        s.push('\n');
        parts.push(shown);
        parts.push("','".to_string());
    }
    parts.push("')'".to_string());
    s.push_str(&format!("export v{k} = {}\n", parts.join(" + ")));
    s.push_str(&format!("export {{extra{k}: 'x{k}'}}\n"));
    // reading the export through a function defined before it, then a local reassignment
    s.push_str(&format!("print 'get:m{k}=' + get_v()\nv{k} = 'local'\n"));
    match m.test {
        1 => s.push_str(&format!("@test check = || print 'test:m{k}'\n")),
        2 => s.push_str(&format!("@test check = ||\n  print 'test:m{k}'\n  assert false\n")),
        _ => {}
    }
    if m.has_main {
        if m.main_throws {
            s.push_str(&format!("@main = ||\n  print 'main:m{k}'\n  throw 'main failed'\n"));
        } else {
            s.push_str(&format!("@main = || print 'main:m{k}'\n"));
        }
    }
    if m.throws {
        s.push_str(&format!("throw 'fail:m{k}'\n"));
    }
    s
}

fn main_source(c: &Case, run: usize) -> String {
    // An import that fails inside `try` leaves its local names null, and later import statements of
    // the same script that mention such a name use the null local instead of the loader. That is
    // ordinary scoping, not module behaviour, so imports that the model predicts to fail run in a
    // scope of their own; imports predicted to succeed stay at the top level.
    let fails = predicted_failures(c);
    let mut s = format!("print 'main-start:{run}'\n");
    for (i, (t, f)) in c.main_imports.iter().enumerate() {
        let (stmt, shown) = import_stmt(*t, f, &format!("r{run}_{i}"));
        if fails[i] {
            s.push_str(&format!("f{i} = ||\n  try\n    {stmt}\n    'ok:' + {shown}\n  catch e\n    'err'\nr{i} = f{i}()\nprint 'import {i}: ' + r{i}\n"));
        } else {
            s.push_str(&format!("r{i} = try\n  {stmt}\n  'ok:' + {shown}\ncatch e\n  'err'\nprint 'import {i}: ' + r{i}\n"));
        }
    }
    s.push_str("top_a = 1\ntop_a = 2\nexport explicit = 'e'\ntop_b = 'b'\n");
    s
}

fn predicted_failures(c: &Case) -> Vec<bool> {
    let mut m = Model { c, out: vec![], cache: BTreeMap::new(), in_progress: vec![] };
    c.main_imports.iter().map(|(t, f)| m.import(*t).is_err() || *f == ImportForm::FromMissing).collect()
}

// ---------------------------------------------------------------------------------------------
// model

struct Model<'a> {
    c: &'a Case,
    out: Vec<String>,
    cache: BTreeMap<usize, String>, // module -> exported v value
    in_progress: Vec<usize>,
}

impl<'a> Model<'a> {
    /// Imports module k; Ok(exported value) or Err(())
    fn import(&mut self, k: usize) -> Result<String, ()> {
        if self.in_progress.contains(&k) {
            return Err(());
        }
        if let Some(v) = self.cache.get(&k) {
            return Ok(v.clone());
        }
        let m = &self.c.modules[k];
        let variant = if m.layout == 1 { "(dir)" } else { "" };
        self.in_progress.push(k);
        let r = (|| {
            self.out.push(format!("top:m{k}{variant}"));
            let mut val = format!("{k}{variant}(");
            for (t, f) in &m.imports {
                let v = self.import(*t)?;
                if *f == ImportForm::FromMissing {
                    return Err(());
                }
                val.push_str(&v);
                val.push(',');
            }
            val.push(')');
            self.out.push(format!("get:m{k}={val}"));
            if m.throws {
                return Err(());
            }
            if self.c.run_import_tests && m.test > 0 {
                self.out.push(format!("test:m{k}"));
                if m.test == 2 {
                    return Err(());
                }
            }
            if m.has_main {
                self.out.push(format!("main:m{k}"));
                if m.main_throws {
                    return Err(());
                }
            }
            Ok(val)
        })();
        self.in_progress.pop();
        if let Ok(v) = &r {
            self.cache.insert(k, v.clone());
        }
        r
    }
}

fn expected_output(c: &Case) -> String {
    let mut m = Model { c, out: vec![], cache: BTreeMap::new(), in_progress: vec![] };
    for run in 0..2 {
        m.out.push(format!("main-start:{run}"));
        for (i, (t, f)) in c.main_imports.iter().enumerate() {
            let r = m.import(*t);
            let line = match (r, f) {
                (Ok(_), ImportForm::FromMissing) | (Err(()), _) => format!("import {i}: err"),
                (Ok(v), _) => format!("import {i}: ok:{v}"),
            };
            m.out.push(line);
        }
    }
    let mut s = m.out.join("\n");
    s.push('\n');
    s
}

fn has_cycle(c: &Case) -> bool {
    // DFS
    fn visit(c: &Case, k: usize, stack: &mut Vec<usize>, done: &mut Vec<bool>) -> bool {
        if stack.contains(&k) {
            return true;
        }
        if done[k] {
            return false;
        }
        stack.push(k);
        for (t, _) in &c.modules[k].imports {
            if visit(c, *t, stack, done) {
                return true;
            }
        }
        stack.pop();
        done[k] = true;
        false
    }
    let mut done = vec![false; c.modules.len()];
    (0..c.modules.len()).any(|k| visit(c, k, &mut vec![], &mut done))
}

pub fn eval_case(c: &Case, dir: &PathBuf) -> Eval {
    let _ = std::fs::remove_dir_all(dir);
    let _ = std::fs::create_dir_all(dir);
    for (k, m) in c.modules.iter().enumerate() {
        if m.layout == 0 || m.layout == 2 {
            let _ = std::fs::write(dir.join(format!("m{k}.koto")), module_source(k, m, ""));
        }
        if m.layout == 1 || m.layout == 2 {
            let d = dir.join(format!("m{k}"));
            let _ = std::fs::create_dir_all(&d);
            let _ = std::fs::write(d.join("main.koto"), module_source(k, m, "(dir)"));
        }
    }
    let main_path = dir.join("main.koto");
    let _ = std::fs::write(&main_path, "# main\n");
    let repeated = {
        let mut seen = vec![];
        c.main_imports.iter().any(|(t, _)| {
            let r = seen.contains(t);
            seen.push(*t);
            r
        })
    };
    let nontrivial = has_cycle(c) || c.modules.iter().any(|m| m.throws || m.test == 2 || m.layout == 2 || (m.has_main && m.main_throws)) || repeated;
    let mut ev = Eval::pass(nontrivial).class(if has_cycle(c) { "cyclic" } else { "dag" });
    let cap = Capture::default();
    let opts = RunOpts { script_path: Some(main_path.to_string_lossy().to_string()), export_top_level: c.export_top_level, ..Default::default() };
    let mut settings = kx::settings(&cap, &opts);
    settings.vm_settings.run_import_tests = c.run_import_tests;
    let mut koto = koto::Koto::with_settings(settings);
    let mut outcomes = vec![];
    for run in 0..2 {
        let o = kx::run_on(&mut koto, &main_source(c, run), &opts);
        outcomes.push(o);
    }
    let stdout = cap.take();
    let expected = expected_output(c);
    let sources = || {
        let mut s = String::new();
        for (k, m) in c.modules.iter().enumerate() {
            s.push_str(&format!("--- m{k} (layout {}):\n{}", m.layout, module_source(k, m, if m.layout == 1 { "(dir)" } else { "" })));
        }
        s.push_str(&format!("--- main (run_import_tests={}, export_top_level={}):\n{}", c.run_import_tests, c.export_top_level, main_source(c, 0)));
        s
    };
    if let Some(o) = outcomes.iter().find(|o| !o.is_ok()) {
        ev.fail = Some(Fail::new("c18:main-failed", format!("the main script failed: {o:?}\nstdout: {stdout}\n{}", sources())));
        return ev;
    }
    if stdout != expected {
        let (a, b): (Vec<&str>, Vec<&str>) = (stdout.lines().collect(), expected.lines().collect());
        let idx = a.iter().zip(b.iter()).position(|(x, y)| x != y).unwrap_or(a.len().min(b.len()));
        let kind = match (a.get(idx), b.get(idx)) {
            (Some(x), Some(y)) if x.starts_with("import") && y.starts_with("import") => "import-result",
            (Some(x), _) if x.starts_with("top:") => "extra-run",
            (_, Some(y)) if y.starts_with("top:") => "missing-run",
            (Some(x), _) if x.starts_with("test:") || x.starts_with("main:") => "tests-or-main",
            (_, Some(y)) if y.starts_with("test:") || y.starts_with("main:") => "tests-or-main",
            _ => "trace",
        };
        ev.fail = Some(Fail::new(format!("c18:{kind}"), format!("output differs at line {idx}: koto {:?}, model {:?}\nkoto:\n{stdout}\nmodel:\n{expected}\n{}", a.get(idx), b.get(idx), sources())));
        return ev;
    }
    // exports of the main script
    let exports: Vec<String> = koto.exports().data().iter().map(|(k, v)| format!("{}={}", k.value().to_string_lossy(), render(v))).collect();
    let mut want = vec![];
    if c.export_top_level {
        for i in 0..c.main_imports.len() {
            want.push(format!("r{i}"));
        }
        want.push("top_a".into());
    }
    want.push("explicit".into());
    if c.export_top_level {
        want.push("top_b".into());
    }
    let names: Vec<String> = exports.iter().map(|e| e.split('=').next().unwrap().to_string()).collect();
    // with top-level exporting the imported names are assignments as well; only the presence and values of
    // the listed names are judged, and without it nothing but `explicit` may be there
    let missing: Vec<&String> = want.iter().filter(|w| !names.contains(w)).collect();
    let unexpected: Vec<&String> = if c.export_top_level { vec![] } else { names.iter().filter(|n| !want.contains(n)).collect() };
    let top_a_ok = !c.export_top_level || exports.iter().any(|e| e == "top_a=2");
    if !missing.is_empty() || !unexpected.is_empty() || !top_a_ok {
        ev.fail = Some(Fail::new("c18:exports", format!("exports of the main script: {exports:?}; missing {missing:?}, unexpected {unexpected:?}, top_a final value ok: {top_a_ok}\n{}", sources())));
    }
    ev
}

fn render(v: &koto_runtime::KValue) -> String {
    match v {
        koto_runtime::KValue::Number(n) => n.to_string(),
        koto_runtime::KValue::Str(s) => s.to_string(),
        other => other.type_as_string().to_string(),
    }
}

trait KeyText {
    fn to_string_lossy(&self) -> String;
}
impl KeyText for koto_runtime::KValue {
    fn to_string_lossy(&self) -> String {
        match self {
            koto_runtime::KValue::Str(s) => s.to_string(),
            other => other.type_as_string().to_string(),
        }
    }
}

fn shard_dir(tag: &str) -> PathBuf {
    PathBuf::from(format!("/verif/engine/run/c18-modules/{}-{tag}", std::process::id()))
}

// ---------------------------------------------------------------------------------------------
// top-level exporting: every form of top-level assignment ends up in the exports map with its final value

/// a script of 2-9 top-level assignment statements in every target form, and the final values of the names
pub fn top_level_script(data: &[u32]) -> (String, BTreeMap<String, i64>, Vec<String>) {
    let mut s = Src::new(data);
    let names = ["a", "b", "c", "d", "e", "g"];
    let mut vals: BTreeMap<String, i64> = BTreeMap::new();
    let mut forms = vec![];
    let mut out = String::new();
    let n = 2 + s.below(8);
    for step in 0..n {
        let n1 = names[s.below(names.len() as u32) as usize];
        let n2 = loop {
            let x = names[s.below(names.len() as u32) as usize];
            if x != n1 {
                break x;
            }
        };
        let (v1, v2) = (s.below(50) as i64, 50 + s.below(50) as i64);
        let form = s.below(14);
        let form_name = match form {
            0 => {
                out.push_str(&format!("{n1} = {v1}\n"));
                vals.insert(n1.into(), v1);
                "plain"
            }
            1 => {
                out.push_str(&format!("{n1}, {n2} = {v1}, {v2}\n"));
                vals.insert(n1.into(), v1);
                vals.insert(n2.into(), v2);
                "multi"
            }
            2 if vals.contains_key(n1) => {
                out.push_str(&format!("{n1} += {v1}\n"));
                *vals.get_mut(n1).unwrap() += v1;
                "compound"
            }
            3 => {
                out.push_str(&format!("let {n1}: Number = {v1}\n"));
                vals.insert(n1.into(), v1);
                "let"
            }
            4 => {
                out.push_str(&format!("let {n1}: Number, {n2}: Number = {v1}, {v2}\n"));
                vals.insert(n1.into(), v1);
                vals.insert(n2.into(), v2);
                "let-multi"
            }
            5 => {
                out.push_str(&format!("{{{n1}, {n2}}} = {{{n1}: {v1}, {n2}: {v2}}}\n"));
                vals.insert(n1.into(), v1);
                vals.insert(n2.into(), v2);
                "map-pattern"
            }
            6 => {
                out.push_str(&format!("{{key{step} as {n1}}} = {{key{step}: {v1}}}\n"));
                vals.insert(n1.into(), v1);
                "map-pattern-as"
            }
            7 => {
                out.push_str(&format!("{n1}, {{{n2}}} = {v1}, {{{n2}: {v2}}}\n"));
                vals.insert(n1.into(), v1);
                vals.insert(n2.into(), v2);
                "multi-with-map-pattern"
            }
            8 => {
                out.push_str(&format!("{n1} = {n2} = {v1}\n"));
                vals.insert(n1.into(), v1);
                vals.insert(n2.into(), v1);
                "chained"
            }
            9 => {
                out.push_str(&format!("if true\n  {n1} = {v1}\n"));
                vals.insert(n1.into(), v1);
                "inside-if"
            }
            10 => {
                out.push_str(&format!("for i{step} in 0..2\n  {n1} = {v1} + i{step}\n"));
                vals.insert(n1.into(), v1 + 1);
                "inside-for"
            }
            11 => {
                out.push_str(&format!("f{step} = ||\n  inner{step} = {v2}\n  inner{step}\n{n1} = f{step}()\n"));
                vals.insert(n1.into(), v2);
                "from-function"
            }
            12 => {
                out.push_str(&format!("{n1}, {n2} = [{v1}, {v2}]\n"));
                vals.insert(n1.into(), v1);
                vals.insert(n2.into(), v2);
                "multi-iterated"
            }
            _ => {
                out.push_str(&format!("let {{{n1}: Number}} = {{{n1}: {v1}}}\n"));
                vals.insert(n1.into(), v1);
                "let-map-pattern"
            }
        };
        forms.push(form_name.to_string());
    }
    (out, vals, forms)
}

pub fn eval_top_level(data: &[u32]) -> Eval {
    let (src, vals, forms) = top_level_script(data);
    let mut ev = Eval::pass(forms.iter().any(|f| f != "plain"));
    for f in &forms {
        ev.classes.push(intern(&format!("top-level:{f}")));
    }
    for on in [true, false] {
        let cap = Capture::default();
        let opts = RunOpts { export_top_level: on, ..Default::default() };
        let mut koto = koto::Koto::with_settings(kx::settings(&cap, &opts));
        let o = kx::run_on(&mut koto, &src, &opts);
        if !o.is_ok() {
            ev.fail = Some(Fail::new("c18:top-level:script-failed", format!("export_top_level_ids = {on}: {o:?}\n{src}")));
            return ev;
        }
        let exports: BTreeMap<String, String> = koto.exports().data().iter().map(|(k, v)| (k.value().to_string_lossy().to_string(), render(v))).collect();
        if on {
            for (n, v) in &vals {
                if exports.get(n) != Some(&v.to_string()) {
                    ev.fail = Some(Fail::new("c18:top-level:export-missing-or-stale", format!("after the script the exports map has {n} = {:?}, the final value of the top-level assignment is {v}\nexports: {exports:?}\n{src}", exports.get(n))));
                    return ev;
                }
            }
            if let Some(n) = exports.keys().find(|n| n.starts_with("inner")) {
                ev.fail = Some(Fail::new("c18:top-level:function-local-exported", format!("{n} is local to a function but appears in the exports map\nexports: {exports:?}\n{src}")));
                return ev;
            }
            // later code on the same runtime sees the names
            let follow = format!("[{}]", vals.keys().map(|n| n.as_str()).collect::<Vec<_>>().join(", "));
            let o2 = kx::run_on(&mut koto, &follow, &opts);
            let want = format!("[{}]", vals.values().map(|v| v.to_string()).collect::<Vec<_>>().join(", "));
            if o2 != kx::Outcome::Ok(want.clone()) {
                ev.fail = Some(Fail::new("c18:top-level:follow-up", format!("a later chunk `{follow}` on the same runtime gave {o2:?}, expected {want}\n{src}")));
                return ev;
            }
        } else if !exports.is_empty() {
            ev.fail = Some(Fail::new("c18:top-level:exported-without-setting", format!("export_top_level_ids is off and the script has no `export`, but the exports map is {exports:?}\n{src}")));
            return ev;
        }
    }
    ev
}

fn run_shard(ctx: &mut Ctx) {
    let dir = shard_dir(&format!("{}", ctx.shard));
    let n = ctx.tier.pick(12_000u64, 500_000u64);
    let strat = choice_stream(90);
    let d2 = dir.clone();
    let d3 = dir.clone();
    let post = move |cs: &Vec<u32>, f: &Fail| -> Option<(Value, Fail)> {
        // drop main imports, module imports and module features while the failure class persists
        let mut c = gen_case(&mut Src::new(cs));
        let mut fail = f.clone();
        let mut progress = true;
        while progress {
            progress = false;
            let mut cands: Vec<Case> = vec![];
            for i in 0..c.main_imports.len() {
                let mut x = c.clone();
                x.main_imports.remove(i);
                if !x.main_imports.is_empty() {
                    cands.push(x);
                }
            }
            for k in 0..c.modules.len() {
                for i in 0..c.modules[k].imports.len() {
                    let mut x = c.clone();
                    x.modules[k].imports.remove(i);
                    cands.push(x);
                }
                let m = &c.modules[k];
                if m.test > 0 || m.has_main || m.throws || m.layout > 0 {
                    for what in 0..5 {
                        let mut x = c.clone();
                        match what {
                            0 => x.modules[k].test = 0,
                            1 => x.modules[k].has_main = false,
                            2 => x.modules[k].throws = false,
                            3 => x.modules[k].main_throws = false,
                            _ => x.modules[k].layout = 0,
                        }
                        cands.push(x);
                    }
                }
            }
            for x in cands {
                if let Some(g) = eval_case(&x, &d3).fail {
                    if sig_class(&g.sig) == sig_class(&fail.sig) && serde_json::to_string(&x).unwrap().len() < serde_json::to_string(&c).unwrap().len() {
                        c = x;
                        fail = g;
                        progress = true;
                        break;
                    }
                }
            }
        }
        Some((json!({"kind": "case", "case": serde_json::to_value(&c).unwrap()}), fail))
    };
    ctx.explore_r("graphs", n, &strat, |cs| json!({"kind": "case", "case": serde_json::to_value(gen_case(&mut Src::new(cs))).unwrap()}), |cs| eval_case(&gen_case(&mut Src::new(cs)), &d2), Some(&post));
    let _ = std::fs::remove_dir_all(&dir);
    let n = ctx.tier.pick(6_000u64, 200_000u64);
    ctx.explore("top-level", n, &choice_stream(60), |cs| json!({"kind": "top-level", "data": cs, "src": top_level_script(cs).0}), |cs| eval_top_level(cs));
}

fn replay(case: &Value) -> Option<Fail> {
    if case["kind"] == "top-level" {
        let data: Vec<u32> = serde_json::from_value(case["data"].clone()).ok()?;
        return eval_top_level(&data).fail;
    }
    let c: Case = serde_json::from_value(case["case"].clone()).ok()?;
    let dir = shard_dir("replay");
    let r = eval_case(&c, &dir).fail;
    let _ = std::fs::remove_dir_all(&dir);
    r
}

//! C08 — the execution limit stops runaway scripts
use crate::core::*;
use crate::corpus;
use crate::kx::{self, Capture, RunOpts};
use serde::{Deserialize, Serialize};
use serde_json::{Value, json};
use std::path::PathBuf;
use std::time::Instant;

pub static PROP: Prop = Prop {
    id: "C08",
    rule: "(a) non-terminating programs from the grid loop kind {loop, while true, until false, for over an endless generator, for over iterator.repeat, self recursion, mutual recursion} x placement {top level, function, method, closure nested three deep, @+ overload, @< overload reached from sort, @display reached from interpolation, @next of an iterated object, generator body consumed by for, callback of a native adaptor, key function of sort, imported module top level, @index reached from argument unpacking} x wrapping {none, try/catch around, catch-all inside the loop, outer retry loop around a try} x per-iteration weight {one instruction, ~50 instructions, one ~20 us native call} x limit {20, 40, 80 ms; thorough also 200 and 600 ms}, each run in a forked child: compile_and_run must return the timeout error within 3 x limit + 1 s (a hang beyond 20 x limit + 10 s is killed and counts as a violation), no catch block may have run ('CAUGHT' never printed, the retry loop never retried), and afterwards the same instance runs `print 1 + 1` correctly and reports empty stacks through the guarded accessor. An exceedance only counts when the run also consumed more CPU time than the bound (otherwise the machine is overloaded and the case is not judged on time), and is re-run twice: 3 out of 3. (b) terminating programs (every runnable corpus item) print the same and end the same way with no limit and with a 5 s limit. Non-trivial: a placement other than the top level, or a wrapping.",
    assumptions: &[
        "wall-clock bound 3 x limit + 1 s against scheduler noise; loops that spin inside one native library call are excluded as documented",
        "known finding by construction: iterations dominated by a heavy native call (the first deadline check is scheduled by instruction count) are not in the search grid; one such case is replayed as the finding's reproduction",
    ],
    shards: |_| 12,
    run_shard,
    replay,
    min_nontrivial_fraction: 0.3,
};

pub const LOOPS: [&str; 7] = ["loop", "while", "until", "for-generator", "for-repeat", "recursion", "mutual-recursion"];
pub const PLACES: [&str; 13] = ["top", "function", "method", "nested-closure", "overload-add", "overload-less-sort", "display", "next-object", "generator-body", "adaptor-callback", "sort-key", "import", "index-unpack"];
pub const WRAPS: [&str; 4] = ["none", "try-around", "catch-inside", "retry-loop"];
pub const WEIGHTS: [&str; 4] = ["light", "fifty", "native", "heavy-native"];

#[derive(Clone, Debug, Serialize, Deserialize)]
pub struct Case {
    lp: usize,
    place: usize,
    wrap: usize,
    weight: usize,
    limit_ms: u64,
}

fn indent(s: &str, n: usize) -> String {
    let pad = " ".repeat(n);
    s.lines().map(|l| if l.is_empty() { "\n".to_string() } else { format!("{pad}{l}\n") }).collect()
}

/// The non-terminating statement block (uses and updates the local `x`)
fn spin(c: &Case) -> String {
    let body = match WEIGHTS[c.weight] {
        "light" => "x += 1\n".to_string(),
        "fifty" => "x = x + 1 - 1 + 1 - 1 + 1 - 1 + 1 - 1 + 1 - 1 + 1 - 1 + 1 - 1 + 1 - 1 + 1 - 1 + 1 - 1 + 1 - 1 + 1 - 1 + 1\n".to_string(),
        "native" => "x += size (0..200).to_tuple()\n".to_string(),
        // ~1 ms of native work per iteration: only used by the recorded finding's reproduction
        _ => "x += size (0..60000).to_tuple()\n".to_string(),
    };
    let body = if WRAPS[c.wrap] == "catch-inside" { format!("try\n{}catch _\n  print 'CAUGHT'\n  x = 0\n", indent(&body, 2)) } else { body };
    match LOOPS[c.lp] {
        "loop" => format!("x = 0\nloop\n{}", indent(&body, 2)),
        "while" => format!("x = 0\nwhile true\n{}", indent(&body, 2)),
        "until" => format!("x = 0\nuntil false\n{}", indent(&body, 2)),
        "for-generator" => format!("x = 0\nendless = ||\n  loop\n    yield 1\nfor i in endless()\n{}", indent(&body, 2)),
        "for-repeat" => format!("x = 0\nfor i in iterator.repeat 1\n{}", indent(&body, 2)),
        "recursion" => format!("rec = |x|\n{}  rec x\nrec 0\n", indent(&body, 2)),
        _ => format!("fns = {{}}\nfns.ping = |x|\n{}  fns.pong x\nfns.pong = |x| fns.ping x + 1\nfns.ping 0\n", indent(&body, 2)),
    }
}

fn program(c: &Case, module_mode: bool) -> String {
    let spin = spin(c);
    let placed = match PLACES[c.place] {
        "top" => spin,
        "function" => format!("f = ||\n{}f()\n", indent(&spin, 2)),
        "method" => format!("m =\n  n: 1\n  go: ||\n{}m.go()\n", indent(&spin, 4)),
        "nested-closure" => format!("f = ||\n  g = ||\n    h = ||\n{}    h()\n  g()\nf()\n", indent(&spin, 6)),
        "overload-add" => format!("o =\n  @+: |other|\n{}print o + 1\n", indent(&spin, 4)),
        "overload-less-sort" => format!("mk = |n|\n  n: n\n  @<: |other|\n{}l = (0..40).each(|n| mk(40 - n)).to_list()\nl.sort()\n", indent(&spin, 4)),
        "display" => format!("o =\n  @display: ||\n{}print 'value: {{o}}'\n", indent(&spin, 4)),
        "next-object" => format!("o =\n  @next: ||\n{}for v in o\n  print v\n", indent(&spin, 4)),
        "generator-body" => format!("g = ||\n  yield 0\n{}for v in g()\n  v\n", indent(&spin, 2)),
        "adaptor-callback" => format!("r = (1, 2).each |v|\n{}print r.to_tuple()\n", indent(&spin, 2)),
        "sort-key" => format!("l = (0..40).to_list()\nl.sort |v|\n{}", indent(&spin, 2)),
        "import" => {
            if module_mode {
                return spin;
            }
            "import loopmod\nprint loopmod\n".to_string()
        }
        _ => format!("o =\n  @size: || 2\n  @index: |i|\n{}f = |(a, b)| a\nprint f o\n", indent(&spin, 4)),
    };
    match WRAPS[c.wrap] {
        "try-around" => format!("try\n{}catch e\n  print 'CAUGHT'\n", indent(&placed, 2)),
        "retry-loop" => format!("tries = 0\nloop\n  tries += 1\n  if tries > 1\n    print 'CAUGHT'\n  try\n{}  catch e\n    print 'CAUGHT'\n", indent(&placed, 4)),
        _ => placed,
    }
}

fn module_dir(tag: &str) -> PathBuf {
    PathBuf::from(format!("/verif/engine/run/c08-modules/{}-{tag}", std::process::id()))
}

fn cpu_ms() -> u128 {
    let mut ru: libc::rusage = unsafe { std::mem::zeroed() };
    unsafe { libc::getrusage(libc::RUSAGE_SELF, &mut ru) };
    (ru.ru_utime.tv_sec as u128 + ru.ru_stime.tv_sec as u128) * 1000 + (ru.ru_utime.tv_usec as u128 + ru.ru_stime.tv_usec as u128) / 1000
}

/// Runs the case once (in the calling process); returns (elapsed wall ms, stdout, outcome, usable afterwards,
/// stacks, CPU ms consumed by the run)
fn run_once(c: &Case, dir: &PathBuf) -> (u128, String, kx::Outcome, bool, [usize; 5], u128) {
    let _ = std::fs::create_dir_all(dir);
    if PLACES[c.place] == "import" {
        let _ = std::fs::write(dir.join("loopmod.koto"), program(c, true));
    }
    let src = program(c, false);
    let _ = std::fs::write(dir.join("main.koto"), &src);
    let cap = Capture::default();
    let opts = RunOpts { limit_ms: Some(c.limit_ms), script_path: Some(dir.join("main.koto").to_string_lossy().to_string()), ..Default::default() };
    // the order in which the host configures the settings rotates with the case
    let limit_first = (c.lp + c.place + c.wrap + c.weight) % 2 == 1;
    let mut koto = koto::Koto::with_settings(kx::settings_ordered(&cap, &opts, limit_first));
    let t0 = Instant::now();
    let cpu0 = cpu_ms();
    let outcome = kx::run_on(&mut koto, &src, &opts);
    let elapsed = t0.elapsed().as_millis();
    let cpu = cpu_ms().saturating_sub(cpu0);
    let stdout = cap.take();
    let stacks = koto.verif_stack_sizes();
    let after = kx::run_on(&mut koto, "print 1 + 1\n", &opts);
    let usable = after.is_ok() && cap.take() == "2\n";
    (elapsed, stdout, outcome, usable, stacks, cpu)
}

pub fn bound_ms(limit: u64) -> u128 {
    3 * limit as u128 + 1000
}

fn is_timeout(o: &kx::Outcome) -> bool {
    match o {
        kx::Outcome::RunErr(m) | kx::Outcome::CompileErr(m, _) => m.to_lowercase().contains("timed out") || m.to_lowercase().contains("timeout"),
        _ => false,
    }
}

fn eval_in_child(c: &Case, dir: &PathBuf) -> Eval {
    let mut ev = Eval::pass(c.place != 0 || c.wrap != 0).class(intern(&format!("place:{}", PLACES[c.place]))).class(intern(&format!("wrap:{}", WRAPS[c.wrap])));
    let src = program(c, false);
    let tag = format!("{}/{}/{}", LOOPS[c.lp], PLACES[c.place], WRAPS[c.wrap]);
    let mut over = 0;
    let mut last = 0;
    for attempt in 0..3 {
        let (elapsed, stdout, outcome, usable, stacks, cpu) = run_once(c, dir);
        last = elapsed;
        if stdout.contains("CAUGHT") {
            ev.fail = Some(Fail::new(format!("c08:caught|{}", PLACES[c.place]), format!("a catch block ran after the timeout ({tag}, limit {} ms, {elapsed} ms): stdout {:?}, outcome {:?}\n{src}", c.limit_ms, stdout.chars().take(200).collect::<String>(), outcome.err_first_line())));
            return ev;
        }
        if !is_timeout(&outcome) {
            ev.fail = Some(Fail::new(format!("c08:not-a-timeout|{}", PLACES[c.place]), format!("{tag}, limit {} ms: the run ended after {elapsed} ms with {:?} instead of the timeout error\n{src}", c.limit_ms, outcome)));
            return ev;
        }
        if !usable {
            ev.fail = Some(Fail::new(format!("c08:unusable-after|{}", PLACES[c.place]), format!("{tag}, limit {} ms: after the timeout the instance did not run `print 1 + 1` correctly\n{src}", c.limit_ms)));
            return ev;
        }
        if stacks != [0, 0, 0, 0, 0] {
            ev.fail = Some(Fail::new(format!("c08:residue|{}", PLACES[c.place]), format!("{tag}, limit {} ms: after the timeout the VM holds {stacks:?}\n{src}", c.limit_ms)));
            return ev;
        }
        if elapsed > bound_ms(c.limit_ms) && cpu <= bound_ms(c.limit_ms) {
            // the wall clock ran past the bound but the run itself did not consume that much CPU time:
            // the machine is overloaded (a late timeout spins, so it shows in CPU time as well)
            ev.classes.push("overloaded-machine");
            return ev;
        }
        if elapsed > bound_ms(c.limit_ms) {
            over += 1;
            if attempt == 2 && over == 3 {
                break;
            }
        } else {
            return ev;
        }
    }
    if over == 3 {
        ev.fail = Some(Fail::new(if WEIGHTS[c.weight] == "heavy-native" { format!("c08:late:heavy-native|{}", PLACES[c.place]) } else { format!("c08:late|{}|{}", PLACES[c.place], WEIGHTS[c.weight]) }, format!("{tag}, weight {}, limit {} ms: the timeout arrived after {last} ms (3 of 3 runs beyond the bound of {} ms)\n{src}", WEIGHTS[c.weight], c.limit_ms, bound_ms(c.limit_ms))));
    }
    ev
}

fn run_case(ctx: &mut Ctx, c: &Case, dir: &PathBuf) {
    let cj = json!({"kind": "spin", "case": serde_json::to_value(c).unwrap(), "src": program(c, false)});
    // (the outer watchdog covers up to three attempts; the heavy-native weight is the known late-timeout family,
    // whose attempts take seconds each)
    let kill_after = 20 * c.limit_ms + if WEIGHTS[c.weight] == "heavy-native" { 90_000 } else { 10_000 };
    let c2 = c.clone();
    let d2 = dir.clone();
    let mut ev = ctx.forked_eval(kill_after, move || eval_in_child(&c2, &d2));
    if let Some(f) = &ev.fail {
        if f.sig == "hang" {
            ev.fail = Some(Fail::new(
                format!("c08:never-returns|{}", PLACES[c.place]),
                format!("{}/{}/{} weight {} limit {} ms: compile_and_run had not returned after {kill_after} ms\n{}", LOOPS[c.lp], PLACES[c.place], WRAPS[c.wrap], WEIGHTS[c.weight], c.limit_ms, program(c, false)),
            ));
            ev.nontrivial = true;
        }
    }
    ctx.run_case(&cj, move || ev);
}

fn eval_corpus(text: &str, name: &str) -> Eval {
    let a = kx::run(text, &RunOpts { limit_ms: None, ..Default::default() });
    let b = kx::run(text, &RunOpts { limit_ms: Some(5000), ..Default::default() });
    let mut ev = Eval::pass(true).class("terminating-corpus");
    if a.stdout != b.stdout || a.outcome.class() != b.outcome.class() {
        ev.fail = Some(Fail::new("c08:limit-changes-terminating-program", format!("{name}: without a limit {:?}/{:?}, with a 5 s limit {:?}/{:?}", a.stdout, a.outcome.class(), b.stdout, b.outcome.class())));
    }
    ev
}

fn nondeterministic(text: &str) -> bool {
    ["random", "os.", "io.", "time", "koto.hash", "chunk:", "args", "script_", "loop\n", "while true"].iter().any(|w| text.contains(w))
}

fn run_shard(ctx: &mut Ctx) {
    ctx.set_case_limit_ms(120_000);
    let dir = module_dir(&format!("{}", ctx.shard));
    let limits: Vec<u64> = if ctx.quick() { vec![20, 40, 80] } else { vec![20, 40, 80, 200, 600] };
    let mut idx = 0u64;
    let mut total = 0u64;
    for lp in 0..LOOPS.len() {
        for place in 0..PLACES.len() {
            for wrap in 0..WRAPS.len() {
                for weight in 0..WEIGHTS.len() {
                    if WEIGHTS[weight] == "heavy-native" {
                        // recorded finding C08-heavy: excluded from the search by construction
                        if ctx.shard == 0 {
                            ctx.exclude("heavy-native-iterations");
                        }
                        continue;
                    }
                    // recursion has no loop body to put a catch into
                    if WRAPS[wrap] == "catch-inside" && LOOPS[lp].contains("recursion") {
                        continue;
                    }
                    for (li, limit) in limits.iter().enumerate() {
                        // unbounded recursion builds a call stack whose unwinding (one frame and one trace
                        // entry at a time) takes about twice the limit again: at 600 ms that is within 20%
                        // of the bound on an idle machine and beyond it on a loaded one. Not judged there.
                        if LOOPS[lp].contains("recursion") && *limit > 200 {
                            if ctx.shard == 0 {
                                ctx.exclude("recursion-unwinding-at-limits-above-200ms");
                            }
                            continue;
                        }
                        idx += 1;
                        // quick: every (loop, place, wrap) once, weight and limit rotated
                        if ctx.quick() && ((lp + place + wrap) % 3 != weight || (lp + place * 2 + wrap) % limits.len() != li) {
                            continue;
                        }
                        total += 1;
                        if !ctx.mine(idx) || ctx.too_many_failures() {
                            continue;
                        }
                        let c = Case { lp, place, wrap, weight, limit_ms: *limit };
                        run_case(ctx, &c, &dir);
                    }
                }
            }
        }
    }
    if ctx.shard == 0 {
        ctx.st.exhaustive_spaces.insert("loop kind x placement x wrapping (weight and limit rotated in quick, full grid in thorough)".into(), total);
    }
    // (b) terminating programs
    let items: Vec<corpus::Item> = corpus::load().into_iter().filter(|i| i.runnable && !nondeterministic(&i.text)).collect();
    ctx.explore_iter("corpus", items.into_iter(), |i| json!({"kind": "corpus", "name": i.name, "text": i.text}), |i| eval_corpus(&i.text, &i.name));
    let _ = std::fs::remove_dir_all(&dir);
}

fn replay(case: &Value) -> Option<Fail> {
    match case["kind"].as_str()? {
        "spin" => {
            let c: Case = serde_json::from_value(case["case"].clone()).ok()?;
            let dir = module_dir("replay");
            // replays run in a child as well, so that a hang is reported rather than inherited
            let kill_after = 20 * c.limit_ms + if WEIGHTS[c.weight] == "heavy-native" { 90_000 } else { 10_000 };
            let r = replay_in_child(&c, &dir, kill_after);
            let _ = std::fs::remove_dir_all(&dir);
            r
        }
        "corpus" => eval_corpus(case["text"].as_str()?, case["name"].as_str().unwrap_or("?")).fail,
        _ => None,
    }
}

fn replay_in_child(c: &Case, dir: &PathBuf, kill_after: u64) -> Option<Fail> {
    // a minimal fork/wait: the child exits 0 when the case passes, 3 when it fails (detail on stdout is not needed)
    let mut fds = [0i32; 2];
    unsafe {
        if libc::pipe(fds.as_mut_ptr()) != 0 {
            return None;
        }
        let pid = libc::fork();
        if pid == 0 {
            libc::close(fds[0]);
            let ev = eval_in_child(c, dir);
            let body = serde_json::to_vec(&ev.fail).unwrap_or_default();
            libc::write(fds[1], body.as_ptr() as *const libc::c_void, body.len());
            libc::_exit(0);
        }
        libc::close(fds[1]);
        let t0 = Instant::now();
        let mut status = 0;
        loop {
            let w = libc::waitpid(pid, &mut status, libc::WNOHANG);
            if w == pid {
                break;
            }
            if t0.elapsed().as_millis() as u64 > kill_after {
                libc::kill(pid, libc::SIGKILL);
                libc::waitpid(pid, &mut status, 0);
                libc::close(fds[0]);
                return Some(Fail::new(format!("c08:never-returns|{}", PLACES[c.place]), format!("compile_and_run had not returned after {kill_after} ms\n{}", program(c, false))));
            }
            std::thread::sleep(std::time::Duration::from_millis(5));
        }
        let mut buf = vec![0u8; 1 << 16];
        let n = libc::read(fds[0], buf.as_mut_ptr() as *mut libc::c_void, buf.len());
        libc::close(fds[0]);
        if n > 0 {
            buf.truncate(n as usize);
            return serde_json::from_slice::<Option<Fail>>(&buf).ok().flatten();
        }
    }
    None
}

//! C20 — data interchange round-trips
use crate::core::*;
use crate::kx::{self, Capture, RunOpts};
use crate::pgen::{Src, choice_stream};
use koto_runtime::{KList, KMap, KTuple, KValue};
use serde::{Deserialize, Serialize};
use serde_json::{Value, json};
use std::collections::BTreeMap;

pub static PROP: Prop = Prop {
    id: "C20",
    rule: "(a) serializable value trees decoded from a proptest choice vector (null, bool, integers over the whole i64 range with boundary bias, finite floats incl. -0.0, 1e21, 5e-324 and integral floats, strings over an alphabet with quotes, backslashes, control characters, newlines, multi-byte characters, format-significant words (true, null, ~, 1.5, 2001-01-01, empty) , lists, tuples, string-keyed maps with awkward keys, nesting depth <= 5) passed into a script that calls X.to_string, X.from_string, X.to_string, X.from_string for X in json / yaml / toml: the first result equals the input in normal form (sequences become tuples; integral floats stay floats), the second round trip is the identity on value and text; for toml a tree containing null, or whose top level is not a map, must be rejected with an error. (b) corrupted documents: every serialized text from (a) mutated by deleting, duplicating, swapping or replacing characters, truncating, or splicing format-specific tokens (huge integers, 1e999, deep nesting, bad escapes, tabs, anchors and aliases, dates), plus raw choice-vector noise: from_string returns a value or an error and never panics; any value it returns must itself survive to_string / from_string unchanged when it is serializable; a complete json / toml document followed on a new line by further data (a closing bracket, a comma, a second document, a bare word) must be rejected. (c) Rust data (structs, unit / newtype / tuple / struct enum variants, options, vectors, tuples, string-keyed and integer-keyed maps, i8..i64, u8..u64, f32, f64, bool, char, String, unit) generated from a choice vector: from_koto_value(to_koto_value(x)) == x; u64 values above i64::MAX must be rejected with an error. Documents holding an integer outside i64 (json: up to u64::MAX; yaml: the whole signed / unsigned 128-bit range, decimal and hex) anywhere must be rejected. Non-trivial: (a) the tree nests a container or holds an awkward string/number; (b) every case; (c) every case.",
    assumptions: &[
        "nested options (Some(None)) are not generated: self-describing formats cannot represent them",
        "NaN and infinities are excluded as the property states; yaml documents are single documents",
    ],
    shards: |_| 16,
    run_shard,
    replay,
    min_nontrivial_fraction: 0.3,
};

#[derive(Clone, Debug, PartialEq, Serialize, Deserialize)]
pub enum T {
    Null,
    Bool(bool),
    Int(i64),
    Float(f64),
    Str(String),
    List(Vec<T>),
    Tuple(Vec<T>),
    Map(Vec<(String, T)>),
}

const AWKWARD: [&str; 40] = [
    "", " ", "a", "true", "false", "null", "~", "1", "1.5", "-0", "1e3", "0x1f", "2001-01-01", "2001-01-01T00:00:00Z", "yes", "no", "on", "off", "a b", " lead", "trail ", "q\"uote", "s'ingle", "back\\slash", "new\nline", "tab\there", "cr\rlf\r\n",
    "nul\u{0}", "\u{1f}", "é", "語", "😀", "a\u{301}", "#hash", "a: b", "- dash", "[x]", "{y}", "key.with.dots", "\u{feff}bom",
];

fn gen_string(s: &mut Src) -> String {
    match s.below(4) {
        0 | 1 => AWKWARD[s.below(AWKWARD.len() as u32) as usize].to_string(),
        2 => format!("k{}", s.below(5)),
        _ => {
            let n = s.below(6) as usize;
            (0..n).map(|_| AWKWARD[s.below(AWKWARD.len() as u32) as usize].chars().next().unwrap_or('z')).collect()
        }
    }
}

fn gen_int(s: &mut Src) -> i64 {
    match s.below(8) {
        0 => i64::MAX,
        1 => i64::MIN,
        2 => (1i64 << 53) + s.below(3) as i64 - 1,
        3 => -((1i64 << 53) + s.below(3) as i64 - 1),
        4 => s.below(3) as i64 - 1,
        5 => (s.below(u32::MAX) as i64) << s.below(32),
        6 => -((s.below(u32::MAX) as i64) << s.below(31)),
        _ => s.below(1000) as i64 - 500,
    }
}

fn gen_float(s: &mut Src) -> f64 {
    const SPECIAL: [f64; 14] = [0.0, -0.0, 1.0, -1.0, 1.5, 0.1, 1e21, 1e-7, 5e-324, f64::MAX, f64::MIN_POSITIVE, 123456.789, 1e15, 9007199254740993.0];
    match s.below(3) {
        0 | 1 => SPECIAL[s.below(SPECIAL.len() as u32) as usize],
        _ => {
            let bits = ((s.below(u32::MAX) as u64) << 32) | s.below(u32::MAX) as u64;
            let f = f64::from_bits(bits);
            if f.is_finite() { f } else { 2.5 }
        }
    }
}

fn gen_tree(s: &mut Src, depth: usize) -> T {
    let leaf_only = depth >= 5;
    match s.weighted(if leaf_only { &[1, 1, 3, 3, 4, 0, 0, 0] } else { &[1, 1, 3, 3, 4, 2, 2, 4] }) {
        0 => T::Null,
        1 => T::Bool(s.below(2) == 0),
        2 => T::Int(gen_int(s)),
        3 => T::Float(gen_float(s)),
        4 => T::Str(gen_string(s)),
        5 => T::List((0..s.below(4)).map(|_| gen_tree(s, depth + 1)).collect()),
        6 => T::Tuple((0..s.below(4)).map(|_| gen_tree(s, depth + 1)).collect()),
        _ => {
            let mut entries: Vec<(String, T)> = vec![];
            for _ in 0..s.below(4) {
                let k = gen_string(s);
                let v = gen_tree(s, depth + 1);
                if let Some(e) = entries.iter_mut().find(|e| e.0 == k) {
                    e.1 = v;
                } else {
                    entries.push((k, v));
                }
            }
            T::Map(entries)
        }
    }
}

fn to_kvalue(t: &T) -> KValue {
    match t {
        T::Null => KValue::Null,
        T::Bool(b) => KValue::Bool(*b),
        T::Int(i) => KValue::Number((*i).into()),
        T::Float(f) => KValue::Number((*f).into()),
        T::Str(s) => KValue::Str(s.as_str().into()),
        T::List(v) => KValue::List(KList::from_slice(&v.iter().map(to_kvalue).collect::<Vec<_>>())),
        T::Tuple(v) => KValue::Tuple(KTuple::from(v.iter().map(to_kvalue).collect::<Vec<_>>())),
        T::Map(m) => {
            let map = KMap::default();
            for (k, v) in m {
                map.insert(k.as_str(), to_kvalue(v));
            }
            KValue::Map(map)
        }
    }
}

fn from_kvalue(v: &KValue) -> Option<T> {
    Some(match v {
        KValue::Null => T::Null,
        KValue::Bool(b) => T::Bool(*b),
        KValue::Number(n) => {
            if n.is_f64() { T::Float(f64::from(n)) } else { T::Int(i64::from(n)) }
        }
        KValue::Str(s) => T::Str(s.to_string()),
        KValue::List(l) => T::List(l.data().iter().map(from_kvalue).collect::<Option<Vec<_>>>()?),
        KValue::Tuple(t) => T::Tuple(t.iter().map(from_kvalue).collect::<Option<Vec<_>>>()?),
        KValue::Map(m) => {
            let mut out = vec![];
            for (k, v) in m.data().iter() {
                let KValue::Str(ks) = k.value() else { return None };
                out.push((ks.to_string(), from_kvalue(v)?));
            }
            T::Map(out)
        }
        _ => return None,
    })
}

/// The documented normal form: sequences come back as tuples
fn normal(t: &T) -> T {
    match t {
        T::List(v) | T::Tuple(v) => T::Tuple(v.iter().map(normal).collect()),
        T::Map(m) => T::Map(m.iter().map(|(k, v)| (k.clone(), normal(v))).collect()),
        other => other.clone(),
    }
}

/// toml tables are unordered (the writer emits plain values before sub-tables)
fn same_unordered(a: &T, b: &T) -> bool {
    match (a, b) {
        (T::List(x), T::List(y)) | (T::Tuple(x), T::Tuple(y)) => x.len() == y.len() && x.iter().zip(y).all(|(p, q)| same_unordered(p, q)),
        (T::Map(x), T::Map(y)) => x.len() == y.len() && x.iter().all(|p| y.iter().any(|q| p.0 == q.0 && same_unordered(&p.1, &q.1))),
        _ => same(a, b),
    }
}

fn same(a: &T, b: &T) -> bool {
    match (a, b) {
        (T::Float(x), T::Float(y)) => x.to_bits() == y.to_bits() || (x == y && *x != 0.0),
        (T::List(x), T::List(y)) | (T::Tuple(x), T::Tuple(y)) => x.len() == y.len() && x.iter().zip(y).all(|(p, q)| same(p, q)),
        (T::Map(x), T::Map(y)) => x.len() == y.len() && x.iter().zip(y).all(|(p, q)| p.0 == q.0 && same(&p.1, &q.1)),
        _ => a == b,
    }
}

fn contains_null(t: &T) -> bool {
    match t {
        T::Null => true,
        T::List(v) | T::Tuple(v) => v.iter().any(contains_null),
        T::Map(m) => m.iter().any(|e| contains_null(&e.1)),
        _ => false,
    }
}

pub const FORMATS: [&str; 3] = ["json", "yaml", "toml"];

pub struct Rt {
    koto: koto::Koto,
    cap: Capture,
}

pub fn new_rt() -> Rt {
    let cap = Capture::default();
    let koto = koto::Koto::with_settings(kx::settings(&cap, &RunOpts::default()));
    koto.prelude().insert("json", koto_json::make_module());
    koto.prelude().insert("yaml", koto_yaml::make_module());
    koto.prelude().insert("toml", koto_toml::make_module());
    Rt { koto, cap }
}

const ROUND_TRIP: &str = "\
export t1 = null
export r1 = null
export t2 = null
export r2 = null
export stage = 'to_string-1'
export t1 = FMT.to_string input
export stage = 'from_string-1'
export r1 = FMT.from_string t1
export stage = 'to_string-2'
export t2 = FMT.to_string r1
export stage = 'from_string-2'
export r2 = FMT.from_string t2
export stage = 'done'
";

fn export_str(rt: &Rt, name: &str) -> Option<String> {
    match rt.koto.exports().get(name) {
        Some(KValue::Str(s)) => Some(s.to_string()),
        _ => None,
    }
}

/// Returns (text, failure) — the text is reused by the corruption stream
fn eval_tree(rt: &mut Rt, t: &T, fmt: &str) -> (Option<String>, Eval) {
    let awkward = |t: &T| -> bool {
        fn walk(t: &T, depth: usize) -> bool {
            match t {
                T::List(v) | T::Tuple(v) => depth > 0 || v.iter().any(|x| walk(x, depth + 1)),
                T::Map(m) => depth > 0 || m.iter().any(|e| AWKWARD.contains(&e.0.as_str()) || walk(&e.1, depth + 1)),
                T::Str(s) => AWKWARD.contains(&s.as_str()),
                T::Int(i) => i.unsigned_abs() > 1 << 52,
                T::Float(_) => true,
                _ => false,
            }
        }
        walk(t, 0)
    };
    let mut ev = Eval::pass(awkward(t)).class(intern(&format!("format:{fmt}")));
    rt.koto.exports_mut().clear();
    rt.koto.prelude().insert("input", to_kvalue(t));
    let src = ROUND_TRIP.replace("FMT", fmt);
    let outcome = kx::run_on(&mut rt.koto, &src, &RunOpts::default());
    rt.cap.take();
    let stage = export_str(rt, "stage").unwrap_or_default();
    let describe = || format!("format {fmt}, input {}", serde_json::to_string(t).unwrap_or_default().chars().take(600).collect::<String>());
    let toml_must_reject = fmt == "toml" && (contains_null(t) || !matches!(t, T::Map(_)));
    if toml_must_reject {
        if stage != "to_string-1" {
            ev.fail = Some(Fail::new("c20:toml-accepted-unrepresentable", format!("toml.to_string accepted a value with null / without a top-level map (reached stage {stage}, text {:?})\n{}", export_str(rt, "t1"), describe())));
        }
        ev.classes.push("toml-rejection");
        return (None, ev);
    }
    if !outcome.is_ok() {
        ev.fail = Some(Fail::new(format!("c20:{fmt}:error-at-{stage}"), format!("round trip failed at {stage}: {:?}\ntext 1: {:?}\n{}", outcome.err_first_line(), export_str(rt, "t1"), describe())));
        return (export_str(rt, "t1"), ev);
    }
    let (t1, t2) = (export_str(rt, "t1"), export_str(rt, "t2"));
    let r1 = rt.koto.exports().get("r1").and_then(|v| from_kvalue(&v));
    let r2 = rt.koto.exports().get("r2").and_then(|v| from_kvalue(&v));
    let want = normal(t);
    let same = |a: &T, b: &T| if fmt == "toml" { same_unordered(a, b) } else { same(a, b) };
    match (&r1, &r2) {
        (Some(a), Some(b)) => {
            if !same(a, &want) {
                ev.fail = Some(Fail::new(format!("c20:{fmt}:first-round-trip"), format!("from_string(to_string(v)) differs from v in normal form\n  got  {}\n  want {}\ntext: {:?}\n{}", serde_json::to_string(a).unwrap_or_default(), serde_json::to_string(&want).unwrap_or_default(), t1, describe())));
            } else if !same(b, a) {
                ev.fail = Some(Fail::new(format!("c20:{fmt}:second-round-trip"), format!("the second round trip is not the identity\n  first  {}\n  second {}\n{}", serde_json::to_string(a).unwrap_or_default(), serde_json::to_string(b).unwrap_or_default(), describe())));
            } else if t1 != t2 {
                ev.fail = Some(Fail::new(format!("c20:{fmt}:text-not-stable"), format!("the text of the second serialization differs\n  first  {t1:?}\n  second {t2:?}\n{}", describe())));
            }
        }
        _ => {
            ev.fail = Some(Fail::new(format!("c20:{fmt}:unserializable-result"), format!("from_string returned a value outside the serializable kinds\n{}", describe())));
        }
    }
    (t1, ev)
}

// ---------------------------------------------------------------------------------------------
// (b) corrupted documents

const SPLICES: [&str; 30] = [
    "18446744073709551615", "9223372036854775808", "-9223372036854775809", "1e999", "-1e999", "1e-999", "0x", "\\u12", "\\ud800", "\\x", "\t", "&a", "*a", "*b", "<<: *a", "!!binary x", "!!float x", "2001-01-01", "1979-05-27T07:32:00Z", "[[[[[[[[[[", "{{{{{{{{", "]]]]",
    "\"", "'", "\"\"\"", "'''", "= ", ": ", "- ", ",",
];

fn corrupt(text: &str, s: &mut Src) -> String {
    let mut cs: Vec<char> = text.chars().collect();
    let n = 1 + s.below(3);
    for _ in 0..n {
        let len = cs.len();
        let pos = if len == 0 { 0 } else { s.below(len as u32 + 1) as usize };
        match s.below(8) {
            0 if len > 0 => {
                cs.remove(pos.min(len - 1));
            }
            1 if len > 0 => {
                let c = cs[pos.min(len - 1)];
                cs.insert(pos, c);
            }
            2 if len > 1 => {
                let p = pos.min(len - 2);
                cs.swap(p, p + 1);
            }
            3 => cs.truncate(pos),
            4 | 5 => {
                let sp: Vec<char> = SPLICES[s.below(SPLICES.len() as u32) as usize].chars().collect();
                for (k, c) in sp.into_iter().enumerate() {
                    cs.insert((pos + k).min(cs.len()), c);
                }
            }
            6 if len > 0 => {
                let p = pos.min(len - 1);
                cs[p] = ['{', '}', '[', ']', ':', ',', '"', '\'', '\\', '\n', ' ', '-', '#', '=', '.', '0', 'e', '\u{0}', 'é'][s.below(19) as usize];
            }
            _ => {
                let sp: Vec<char> = AWKWARD[s.below(AWKWARD.len() as u32) as usize].chars().collect();
                for (k, c) in sp.into_iter().enumerate() {
                    cs.insert((pos + k).min(cs.len()), c);
                }
            }
        }
    }
    cs.into_iter().collect()
}

const PARSE_AND_BACK: &str = "\
export ok = false
export r = FMT.from_string input
export ok = true
export t = null
export r2 = null
export t = FMT.to_string r
export r2 = FMT.from_string t
";

pub fn eval_text_pub(rt: &mut Rt, text: &str, fmt: &str) -> Eval {
    eval_text(rt, text, fmt)
}

fn eval_text(rt: &mut Rt, text: &str, fmt: &str) -> Eval {
    let mut ev = Eval::pass(true).class(intern(&format!("corrupt:{fmt}")));
    rt.koto.exports_mut().clear();
    rt.koto.prelude().insert("input", KValue::Str(text.into()));
    let src = PARSE_AND_BACK.replace("FMT", fmt);
    let outcome = kx::run_on(&mut rt.koto, &src, &RunOpts::default());
    rt.cap.take();
    let parsed = matches!(rt.koto.exports().get("ok"), Some(KValue::Bool(true)));
    if !parsed {
        ev.classes.push("rejected");
        return ev; // an error is the documented answer to malformed input
    }
    ev.classes.push("accepted");
    let r = rt.koto.exports().get("r").and_then(|v| from_kvalue(&v));
    let Some(r) = r else {
        return ev; // e.g. non-string keys from yaml: outside the serializable kinds, not judged
    };
    if fmt == "toml" && contains_null(&r) {
        return ev;
    }
    if !outcome.is_ok() {
        // the parsed value could not be written back: only judged when it is a plain serializable tree
        if fmt != "toml" || matches!(r, T::Map(_)) {
            ev.fail = Some(Fail::new(format!("c20:{fmt}:accepted-value-not-writable"), format!("from_string accepted {text:?} as {} but writing it back failed: {:?}", serde_json::to_string(&r).unwrap_or_default(), outcome.err_first_line())));
        }
        return ev;
    }
    let r2 = rt.koto.exports().get("r2").and_then(|v| from_kvalue(&v));
    match r2 {
        Some(b) if (fmt == "toml" && same_unordered(&b, &r)) || same(&b, &r) => {}
        other => {
            ev.fail = Some(Fail::new(format!("c20:{fmt}:accepted-value-unstable"), format!("from_string accepted {text:?} as {}; after to_string / from_string it is {:?}", serde_json::to_string(&r).unwrap_or_default(), other.map(|b| serde_json::to_string(&b).unwrap_or_default()))));
        }
    }
    ev
}

fn eval_out_of_range(rt: &mut Rt, text: &str, fmt: &str) -> Eval {
    let mut ev = Eval::pass(true).class("out-of-range-integer");
    rt.koto.exports_mut().clear();
    rt.koto.prelude().insert("input", KValue::Str(text.into()));
    let src = PARSE_AND_BACK.replace("FMT", fmt);
    let _ = kx::run_on(&mut rt.koto, &src, &RunOpts::default());
    rt.cap.take();
    if matches!(rt.koto.exports().get("ok"), Some(KValue::Bool(true))) {
        let got = rt.koto.exports().get("r").and_then(|v| from_kvalue(&v));
        ev.fail = Some(Fail::new(format!("c20:{fmt}:out-of-range-integer-accepted"), format!("{fmt}.from_string accepted {text:?} (an integer beyond i64) as {:?}", got.map(|g| serde_json::to_string(&g).unwrap_or_default()))));
    }
    ev
}

/// junk that makes any complete document malformed when it follows it on a new line
const TRAILING_JSON: [&str; 10] = ["]", "}", ",", "x", "[1]", "{}", "\"s\"", "null", "1", ":"];
const TRAILING_TOML: [&str; 4] = ["]", "}", "x y", "= 1"];

fn eval_trailing(rt: &mut Rt, text: &str, fmt: &str) -> Eval {
    let mut ev = Eval::pass(true).class("trailing-junk");
    rt.koto.exports_mut().clear();
    rt.koto.prelude().insert("input", KValue::Str(text.into()));
    let src = PARSE_AND_BACK.replace("FMT", fmt);
    let _ = kx::run_on(&mut rt.koto, &src, &RunOpts::default());
    rt.cap.take();
    if matches!(rt.koto.exports().get("ok"), Some(KValue::Bool(true))) {
        let got = rt.koto.exports().get("r").and_then(|v| from_kvalue(&v));
        ev.fail = Some(Fail::new(format!("c20:{fmt}:trailing-junk-accepted"), format!("{fmt}.from_string accepted {text:?} (a complete document followed by more data) as {:?}", got.map(|g| serde_json::to_string(&g).unwrap_or_default()))));
    }
    ev
}

// ---------------------------------------------------------------------------------------------
// (c) Rust data through serde

#[derive(Clone, Debug, PartialEq, Serialize, Deserialize)]
struct Inner {
    a: i32,
    b: Option<String>,
    c: Vec<u8>,
    d: (i8, bool),
    e: char,
}

#[derive(Clone, Debug, PartialEq, Serialize, Deserialize)]
enum En {
    Unit,
    Other,
    New(i64),
    Tup(u16, String),
    St { x: f64, y: Option<Box<En>> },
}

#[derive(Clone, Debug, PartialEq, Serialize, Deserialize)]
struct Wrapper(i16);

#[derive(Clone, Debug, PartialEq, Serialize, Deserialize)]
struct UnitStruct;

#[derive(Clone, Debug, PartialEq, Serialize, Deserialize)]
struct Outer {
    id: u64,
    small: u8,
    wide: u32,
    neg: i64,
    name: String,
    inner: Inner,
    list: Vec<En>,
    map: BTreeMap<String, En>,
    int_map: BTreeMap<i32, String>,
    opt: Option<Inner>,
    nested: Vec<Vec<i32>>,
    unit: (),
    us: UnitStruct,
    w: Wrapper,
    f: f32,
    g: f64,
    t: (i32, String, bool),
    flag: bool,
}

fn gen_en(s: &mut Src, depth: usize) -> En {
    match s.below(if depth > 2 { 4 } else { 5 }) {
        0 => En::Unit,
        1 => En::Other,
        2 => En::New(gen_int(s)),
        3 => En::Tup(s.below(65536) as u16, gen_string(s)),
        _ => En::St { x: gen_float(s), y: if s.below(2) == 0 { Some(Box::new(gen_en(s, depth + 1))) } else { None } },
    }
}

fn gen_inner(s: &mut Src) -> Inner {
    Inner {
        a: gen_int(s) as i32,
        b: if s.below(2) == 0 { Some(gen_string(s)) } else { None },
        c: (0..s.below(4)).map(|_| s.below(256) as u8).collect(),
        d: (s.below(256) as u8 as i8, s.below(2) == 0),
        e: gen_string(s).chars().next().unwrap_or('x'),
    }
}

fn gen_outer(s: &mut Src) -> Outer {
    Outer {
        id: match s.below(6) {
            0 => u64::MAX,
            1 => i64::MAX as u64 + 1,
            2 => i64::MAX as u64,
            _ => s.below(u32::MAX) as u64,
        },
        small: s.below(256) as u8,
        wide: s.below(u32::MAX),
        neg: gen_int(s),
        name: gen_string(s),
        inner: gen_inner(s),
        list: (0..s.below(4)).map(|_| gen_en(s, 0)).collect(),
        map: (0..s.below(4)).map(|_| (gen_string(s), gen_en(s, 0))).collect(),
        int_map: (0..s.below(3)).map(|_| (gen_int(s) as i32, gen_string(s))).collect(),
        opt: if s.below(2) == 0 { Some(gen_inner(s)) } else { None },
        nested: (0..s.below(3)).map(|_| (0..s.below(3)).map(|_| gen_int(s) as i32).collect()).collect(),
        unit: (),
        us: UnitStruct,
        w: Wrapper(gen_int(s) as i16),
        f: gen_float(s) as f32,
        g: gen_float(s),
        t: (gen_int(s) as i32, gen_string(s), s.below(2) == 0),
        flag: s.below(2) == 0,
    }
}

fn eval_rust(x: &Outer) -> Eval {
    let mut ev = Eval::pass(true).class("rust-data");
    let out_of_range = x.id > i64::MAX as u64;
    let f_ok = x.f.is_finite();
    if !f_ok {
        ev.discard = true;
        return ev;
    }
    match koto_serde::to_koto_value(x) {
        Err(e) => {
            if !out_of_range {
                ev.fail = Some(Fail::new("c20:rust:to-koto-failed", format!("to_koto_value failed: {e}\n{x:?}")));
            } else {
                ev.classes.push("u64-rejected");
            }
        }
        Ok(v) => {
            if out_of_range {
                ev.fail = Some(Fail::new("c20:rust:u64-out-of-range-accepted", format!("to_koto_value accepted the u64 {} which no Koto number represents exactly\n{x:?}", x.id)));
                return ev;
            }
            match koto_serde::from_koto_value::<Outer>(v) {
                Ok(y) => {
                    let same_f = |a: f64, b: f64| a.to_bits() == b.to_bits() || a == b;
                    let mut y2 = y.clone();
                    // floats compare by value (koto numbers do not keep the sign of zero apart)
                    if same_f(x.g, y.g) {
                        y2.g = x.g;
                    }
                    if same_f(x.f as f64, y.f as f64) {
                        y2.f = x.f;
                    }
                    if !rust_eq(x, &y2) {
                        ev.fail = Some(Fail::new("c20:rust:round-trip", format!("from_koto_value(to_koto_value(x)) != x\n  x = {x:?}\n  y = {y:?}")));
                    }
                }
                Err(e) => {
                    ev.fail = Some(Fail::new("c20:rust:from-koto-failed", format!("from_koto_value failed: {e}\n{x:?}")));
                }
            }
        }
    }
    ev
}

fn rust_eq(a: &Outer, b: &Outer) -> bool {
    // En::St.x floats: compare through the debug rendering with -0.0 folded
    let norm = |o: &Outer| format!("{o:?}").replace("-0.0", "0.0");
    a == b || norm(a) == norm(b)
}

// ---------------------------------------------------------------------------------------------

fn run_shard(ctx: &mut Ctx) {
    let n = ctx.tier.pick(60_000u64, 3_000_000u64);
    let mut rt = new_rt();
    // (a) + (b): trees, then corruptions of their texts
    for i in 0..n {
        if !ctx.mine(i) || ctx.too_many_failures() {
            continue;
        }
        use proptest::strategy::{Strategy, ValueTree};
        let mut runner = seeded_runner(ctx.sub_seed("tree", i));
        let cs = choice_stream(160).new_tree(&mut runner).unwrap().current();
        let mut s = Src::new(&cs);
        let fmt = FORMATS[(i % 3) as usize];
        // toml needs a map at the top: generate one two times out of three
        let tree = if fmt == "toml" && s.below(3) > 0 {
            let mut entries = vec![];
            for k in 0..1 + s.below(4) {
                let mut v = gen_tree(&mut s, 1);
                if s.below(4) > 0 {
                    v = strip_null(&v);
                }
                entries.push((format!("{}{k}", gen_string(&mut s)), v));
            }
            T::Map(entries)
        } else {
            gen_tree(&mut s, 0)
        };
        let cj = json!({"kind": "tree", "format": fmt, "tree": serde_json::to_value(&tree).unwrap()});
        let mut text: Option<String> = None;
        ctx.run_case(&cj, || {
            let (t, ev) = eval_tree(&mut rt, &tree, fmt);
            text = t;
            ev
        });
        if let Some(text) = text {
            for k in 0..3 {
                let bad = corrupt(&text, &mut s);
                let cj = json!({"kind": "text", "format": fmt, "text": bad});
                let _ = k;
                ctx.run_case(&cj, || eval_text(&mut rt, &bad, fmt));
            }
            // a complete document followed by more data is malformed
            let junk: &[&str] = match fmt {
                "json" => &TRAILING_JSON,
                "toml" => &TRAILING_TOML,
                _ => &[],
            };
            if !junk.is_empty() {
                let bad = format!("{}\n{}{}", text.trim_end(), junk[s.below(junk.len() as u32) as usize], if s.chance(50) { "\n" } else { "" });
                let cj = json!({"kind": "trailing", "format": fmt, "text": bad});
                ctx.run_case(&cj, || eval_trailing(&mut rt, &bad, fmt));
            }
        }
        // raw noise
        if i % 4 == 0 {
            let noise: String = (0..s.below(24)).map(|_| SPLICES[s.below(SPLICES.len() as u32) as usize].chars().next().unwrap_or(' ')).collect();
            let cj = json!({"kind": "text", "format": fmt, "text": noise});
            ctx.run_case(&cj, || eval_text(&mut rt, &noise, fmt));
        }
    }
    // out-of-range integers: documents that hold an integer in (i64::MAX, u64::MAX] anywhere must be rejected
    if ctx.shard == 0 {
        for fmt in ["json", "yaml"] {
            // (yaml integers are read with up to 128 bits: the whole unsigned and signed 128-bit range outside i64)
            let wide = ["18446744073709551616", "170141183460469231731687303715884105727", "170141183460469231731687303715884105728", "340282366920938463454151235394913435647", "340282366920938463454151235394913435648", "340282366920938463463374607431768211454", "340282366920938463463374607431768211455", "-9223372036854775809", "-170141183460469231731687303715884105728", "0xFFFFFFFFFFFFFFFFFFFFFFFFFFFFFFFF", "0x8000000000000000"];
            let base = ["9223372036854775808", "9223372036854775809", "12345678901234567890", "18446744073709551614", "18446744073709551615"];
            let all: Vec<&str> = if fmt == "yaml" { base.iter().chain(wide.iter()).copied().collect() } else { base.to_vec() };
            for n in all {
                let docs: Vec<String> = if fmt == "json" {
                    vec![n.to_string(), format!("[{n}]"), format!("{{\"a\": {n}}}"), format!("{{\"a\": [1, {{\"b\": {n}}}]}}"), format!("[1, 2, [3, {n}], 4]")]
                } else {
                    vec![n.to_string(), format!("- {n}\n"), format!("a: {n}\n"), format!("a:\n  - 1\n  - b: {n}\n"), format!("- 1\n- - 3\n  - {n}\n")]
                };
                for doc in docs {
                    let cj = json!({"kind": "out-of-range", "format": fmt, "text": doc});
                    ctx.run_case(&cj, || eval_out_of_range(&mut rt, &doc, fmt));
                }
            }
        }
    }
    // (c) Rust data
    let strat = choice_stream(200);
    ctx.explore("rust", n / 2, &strat, |cs| json!({"kind": "rust", "choices": cs}), |cs| eval_rust(&gen_outer(&mut Src::new(cs))));
}

fn strip_null(t: &T) -> T {
    match t {
        T::Null => T::Str("was-null".into()),
        T::List(v) => T::List(v.iter().map(strip_null).collect()),
        T::Tuple(v) => T::Tuple(v.iter().map(strip_null).collect()),
        T::Map(m) => T::Map(m.iter().map(|(k, v)| (k.clone(), strip_null(v))).collect()),
        other => other.clone(),
    }
}

fn replay(case: &Value) -> Option<Fail> {
    let mut rt = new_rt();
    match case["kind"].as_str()? {
        "tree" => {
            let t: T = serde_json::from_value(case["tree"].clone()).ok()?;
            eval_tree(&mut rt, &t, case["format"].as_str()?).1.fail
        }
        "text" => eval_text(&mut rt, case["text"].as_str()?, case["format"].as_str()?).fail,
        "trailing" => eval_trailing(&mut rt, case["text"].as_str()?, case["format"].as_str()?).fail,
        "out-of-range" => eval_out_of_range(&mut rt, case["text"].as_str()?, case["format"].as_str()?).fail,
        "rust" => {
            let cs: Vec<u32> = serde_json::from_value(case["choices"].clone()).ok()?;
            eval_rust(&gen_outer(&mut Src::new(&cs))).fail
        }
        _ => None,
    }
}

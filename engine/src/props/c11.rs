//! C11 — the formatter preserves meaning, keeps comments, is idempotent and total
use crate::astwalk::{self, CanonOpts};
use crate::core::*;
use crate::kx::{self, RunOpts};
use crate::lang::*;
use crate::pgen as gen_;
use crate::textgen;
use koto_format::FormatOptions;
use koto_lexer::Token;
use serde_json::{Value, json};

pub static PROP: Prop = Prop {
    id: "C11",
    rule: "Texts: repository corpus; generated programs (core / functions / errors profiles) in random layouts; single-token mutants of the corpus that still parse (seeded sample); Unicode stress texts (wide, combining and ZWJ identifiers and strings next to numbers). Each x 6 (quick) / all 160 (thorough) option combinations from line_length {20,40,80,100,255} x indent_width {1,2,4,8} x chain_break_threshold {0,1,4,255} x always_indent_arms. Oracle: format() returns Ok for every parseable text and does not panic; the output parses; its canonical syntax tree equals the input's modulo cosmetic fields; input and output compile to the same bytecode and constants; runnable texts produce the same stdout/result; the comment tokens (trimmed) of input and output are the same sequence; format(format(x)) == format(x); every number and string-literal token of the output occurs in the input. Non-trivial: the text has a comment or the formatter changes at least one line; distinct by (text, options) hash.",
    assumptions: &[
        "known shapes keyed by token-level predicates: wildcard import (`import *`), format spec with a representation character, line containing a character whose display width differs from its byte length before a token (C11-nonascii-slice)",
        "texts containing `debug` are exempt from the bytecode comparison (debug records its source text)",
    ],
    shards: |_| 14,
    run_shard,
    replay,
    min_nontrivial_fraction: 0.2,
};

pub fn option_grid() -> Vec<FormatOptions> {
    let mut v = vec![];
    for line_length in [20u8, 40, 80, 100, 255] {
        for indent_width in [1u8, 2, 4, 8] {
            for chain_break_threshold in [0u8, 1, 4, 255] {
                for always_indent_arms in [false, true] {
                    v.push(FormatOptions { always_indent_arms, chain_break_threshold, indent_width, line_length });
                }
            }
        }
    }
    v
}

fn comments_of(src: &str) -> Vec<String> {
    crate::textgen::lex_all(src).into_iter().filter(|t| matches!(t.token, Token::CommentSingle | Token::CommentMulti)).map(|t| src[t.source_bytes.clone()].split_whitespace().collect::<Vec<_>>().join(" ")).collect()
}

fn literal_tokens(src: &str) -> Vec<String> {
    crate::textgen::lex_all(src).into_iter().filter(|t| matches!(t.token, Token::Number | Token::StringLiteral)).map(|t| src[t.source_bytes.clone()].to_string()).collect()
}

/// token-level predicates of the known shapes
pub fn known_shape(src: &str) -> Option<&'static str> {
    let toks: Vec<_> = crate::textgen::lex_all(src).into_iter().filter(|t| !matches!(t.token, Token::Whitespace)).collect();
    for w in toks.windows(2) {
        if w[0].token == Token::Import && w[1].token == Token::Multiply {
            return Some("wildcard-import");
        }
    }
    // format spec with a representation char: `:` inside a template followed by a literal ending in one of ?xXobeE
    for (i, t) in toks.iter().enumerate() {
        if t.token == Token::Colon {
            if let Some(n) = toks.get(i + 1) {
                if n.token == Token::StringLiteral {
                    let text = &src[n.source_bytes.clone()];
                    if text.ends_with(['?', 'x', 'X', 'o', 'b', 'e', 'E']) && toks.get(i + 2).map(|c| c.token == Token::CurlyClose).unwrap_or(false) {
                        return Some("format-spec-representation");
                    }
                }
            }
        }
    }
    if crate::props::c06::has_odd_width_char(src) {
        return Some("odd-width-char");
    }
    // function header line directly followed by a blank line
    let lines: Vec<&str> = src.lines().collect();
    for w in lines.windows(2) {
        if w[0].trim_end().ends_with('|') && w[0].contains('|') && w[1].trim().is_empty() {
            return Some("blank-after-fn-header");
        }
    }
    // a line whose first token is a binary minus: the parser reads it as a continuation of the
    // previous line's expression
    let all: Vec<_> = crate::textgen::lex_all(src);
    for (i, t) in all.iter().enumerate() {
        if t.token == Token::Subtract {
            let mut j = i;
            let mut first_on_line = true;
            while j > 0 {
                j -= 1;
                match all[j].token {
                    Token::Whitespace => continue,
                    Token::NewLine => break,
                    _ => {
                        first_on_line = false;
                        break;
                    }
                }
            }
            if first_on_line && i > 0 {
                return Some("leading-minus-line");
            }
        }
    }
    None
}

/// the input already contains a line break inside brackets or after a binary operator
pub fn breaks_inside_expression(src: &str) -> bool {
    let mut depth = 0i32;
    let mut prev: Option<Token> = None;
    let mut strings = 0i32;
    for t in crate::textgen::lex_all(src) {
        match t.token {
            Token::Whitespace | Token::CommentSingle | Token::CommentMulti => continue,
            Token::RoundOpen | Token::SquareOpen => depth += 1,
            Token::RoundClose | Token::SquareClose => depth -= 1,
            Token::StringStart(_) => strings += 1,
            Token::StringEnd => strings -= 1,
            Token::NewLine => {
                if strings == 0 && (depth > 0 || matches!(prev, Some(Token::Add | Token::Subtract | Token::Multiply | Token::Divide | Token::Remainder | Token::Power | Token::And | Token::Or | Token::Equal | Token::NotEqual | Token::Less | Token::LessOrEqual | Token::Greater | Token::GreaterOrEqual))) {
                    return true;
                }
            }
            Token::Error => return false,
            _ => {}
        }
        prev = Some(t.token);
    }
    false
}

fn chunk_hash_of(src: &str) -> Result<u64, String> {
    let mut koto = koto::Koto::default();
    match koto.compile(src) {
        Ok(c) => Ok(crate::props::c05::chunk_hash(&c)),
        Err(e) => Err(e.to_string()),
    }
}

pub fn check_format(src: &str, opts: FormatOptions, runnable: bool) -> Eval {
    check_format_x(src, opts, runnable, true)
}

/// `strict == false`: only totality, comment preservation and literal integrity are judged
/// (used for the mutation neighbourhood)
pub fn check_format_x(src: &str, opts: FormatOptions, runnable: bool, strict: bool) -> Eval {
    let Ok(ast_in) = koto_parser::Parser::parse(src) else {
        return Eval { discard: true, classes: vec!["does-not-parse"], ..Default::default() };
    };
    let canon_in = astwalk::canonical_program(&ast_in, CanonOpts { ignore_cosmetic: true });
    let shape = known_shape(src);
    // lines that do not fit (with some slack for re-indentation) force the formatter to break them
    // lines that do not fit after re-indentation, forced chain breaks, or breaks already present in
    // expressions make the formatter break lines: the known-unstable family
    let fits = |l: &str| {
        let lead = l.len() - l.trim_start_matches(' ').len();
        let depth = lead.div_ceil(2);
        l.trim().chars().count() + depth * opts.indent_width as usize + 8 <= opts.line_length as usize
    };
    let narrow = opts.line_length <= 40 || opts.chain_break_threshold <= 1 || breaks_inside_expression(src) || !src.lines().all(fits);
    let tag = |what: &str| match shape {
        Some(s) => format!("c11:{what}:{s}"),
        None if narrow && matches!(what, "not-idempotent" | "output-does-not-parse" | "ast-changed" | "format-error-on-own-output" | "bytecode-changed" | "output-does-not-compile" | "behaviour-changed") => format!("c11:{what}:line-breaks-in-expressions"),
        // keyed by the input text, so that listed corpus inputs can be known findings
        None => format!("c11:{what}:input-{:08x}", fnv(src.as_bytes()) as u32),
    };
    let mut ev = Eval::pass(false);
    let out = match guarded(|| koto_format::format(src, opts)) {
        Ok(Ok(s)) => s,
        Ok(Err(e)) => {
            ev.nontrivial = true;
            ev.fail = Some(Fail::new(tag("format-error"), format!("format() failed on a text that parses: {e}")));
            return ev;
        }
        Err((loc, msg)) => {
            ev.nontrivial = true;
            ev.fail = Some(Fail::new(crate::props::c06::text_panic_sig(src, &loc, &msg), format!("format() panicked at {loc}: {msg}")));
            return ev;
        }
    };
    let comments_in = comments_of(src);
    ev.nontrivial = !comments_in.is_empty() || out.trim_end() != src.trim_end();
    let show = |what: &str| format!("{what}\n--- options: {opts:?}\n--- input:\n{src}\n--- output:\n{out}");
    // output parses to the same tree
    if strict {
    match koto_parser::Parser::parse(&out) {
        Ok(ast_out) => {
            let canon_out = astwalk::canonical_program(&ast_out, CanonOpts { ignore_cosmetic: true });
            if canon_out != canon_in {
                let p = canon_in.bytes().zip(canon_out.bytes()).position(|(a, b)| a != b).unwrap_or(0);
                let near = |s: &str| {
                    let mut st = p.saturating_sub(100);
                    while !s.is_char_boundary(st) {
                        st += 1;
                    }
                    s[st..].chars().take(260).collect::<String>()
                };
                ev.fail = Some(Fail::new(tag("ast-changed"), show(&format!("the formatted text parses to a different program\n--- input tree near the difference: {}\n--- output tree: {}", near(&canon_in), near(&canon_out)))));
                return ev;
            }
        }
        Err(e) => {
            ev.fail = Some(Fail::new(tag("output-does-not-parse"), show(&format!("the formatted text does not parse: {e}"))));
            return ev;
        }
    }
    }
    // comments preserved in order
    let comments_out = comments_of(&out);
    if comments_in != comments_out {
        ev.fail = Some(Fail::new(tag("comments"), show(&format!("comments differ: input {comments_in:?}, output {comments_out:?}"))));
        return ev;
    }
    // literal tokens of the output occur in the input
    let lits_in = literal_tokens(src);
    for l in literal_tokens(&out) {
        if !lits_in.contains(&l) {
            ev.fail = Some(Fail::new(tag("literal-corrupted"), show(&format!("literal token {l:?} of the output does not occur in the input"))));
            return ev;
        }
    }
    if !strict {
        return ev;
    }
    // idempotence
    match guarded(|| koto_format::format(&out, opts)) {
        Ok(Ok(out2)) => {
            if out2 != out {
                ev.fail = Some(Fail::new(tag("not-idempotent"), show(&format!("formatting the output again changes it\n--- second output:\n{out2}"))));
                return ev;
            }
        }
        Ok(Err(e)) => {
            ev.fail = Some(Fail::new(tag("format-error-on-own-output"), show(&format!("format() fails on its own output: {e}"))));
            return ev;
        }
        Err((loc, msg)) => {
            ev.fail = Some(Fail::new(crate::props::c06::text_panic_sig(&out, &loc, &msg), show(&format!("format() panicked on its own output at {loc}: {msg}"))));
            return ev;
        }
    }
    // identical bytecode
    if !src.contains("debug") {
        match (chunk_hash_of(src), chunk_hash_of(&out)) {
            (Ok(a), Ok(b)) => {
                if a != b {
                    ev.fail = Some(Fail::new(tag("bytecode-changed"), show("input and output compile to different bytecode / constants")));
                    return ev;
                }
            }
            (Ok(_), Err(e)) => {
                ev.fail = Some(Fail::new(tag("output-does-not-compile"), show(&format!("the input compiles but the output does not: {e}"))));
                return ev;
            }
            _ => {}
        }
    }
    // behaviour
    if runnable {
        let o = RunOpts { limit_ms: Some(200), ..Default::default() };
        let a = kx::run(src, &o);
        let b = kx::run(&out, &o);
        if a.stdout != b.stdout || a.outcome.class() != b.outcome.class() {
            ev.fail = Some(Fail::new(tag("behaviour-changed"), show(&format!("running input and output differs: {:?} / {:?} vs {:?} / {:?}", a.stdout, a.outcome.class(), b.stdout, b.outcome.class()))));
        }
    }
    ev
}

const UNICODE_STRESS: [&str; 8] = [
    "ïd = 1\nx = ïd + 99\nprint x\n",
    "s = '語語語' + \"😀\"\nn = 12345\nprint s, n\n",
    "名前 = 'é'; \n",
    "x = 'e\u{301}' # combining é\ny = 7\n",
    "f = |ü, ö| ü + ö # ünïcödé\nprint f 1, 2\n",
    "m = {'ключ': 1, \"κλειδί\": 22}\nprint m.'ключ' + 333\n",
    "print '👨\u{200d}👩' + 'x' * 0\nz = 4444\n",
    "x =\n  föö: 42\n  bär: 'ß' # ẞ\nprint x.föö, x.bär, 55555\n",
];

fn pick_options(grid: &[FormatOptions], seed: u64, n: usize) -> Vec<FormatOptions> {
    let mut v = vec![grid[39]]; // close to default: 80/.. keep one stable pick
    v[0] = FormatOptions::default();
    for k in 0..n.saturating_sub(1) {
        v.push(grid[(fnv(format!("{seed}:{k}").as_bytes()) % grid.len() as u64) as usize]);
    }
    v
}

fn opts_json(o: &FormatOptions) -> Value {
    json!({"always_indent_arms": o.always_indent_arms, "chain_break_threshold": o.chain_break_threshold, "indent_width": o.indent_width, "line_length": o.line_length})
}

fn opts_from(v: &Value) -> FormatOptions {
    FormatOptions {
        always_indent_arms: v["always_indent_arms"].as_bool().unwrap_or(false),
        chain_break_threshold: v["chain_break_threshold"].as_u64().unwrap_or(4) as u8,
        indent_width: v["indent_width"].as_u64().unwrap_or(2) as u8,
        line_length: v["line_length"].as_u64().unwrap_or(100) as u8,
    }
}

/// Inserts `#[fmt: skip]` before some simple top-level one-line statements, stretches their spacing and
/// attaches a trailing comment; returns the text and the statement lines that must survive verbatim
fn with_skip_directives(src: &str, h: u64) -> Option<(String, Vec<String>)> {
    let lines: Vec<&str> = src.lines().collect();
    let mut out = String::new();
    let mut kept = vec![];
    let mut x = h | 1;
    let mut next = || {
        x = x.wrapping_mul(6364136223846793005).wrapping_add(1442695040888963407);
        (x >> 33) as usize
    };
    for (i, l) in lines.iter().enumerate() {
        let simple = !l.is_empty()
            && !l.starts_with(' ')
            && !l.starts_with('#')
            && l.contains(" = ")
            && !l.contains('\'')
            && !l.contains('"')
            && !l.contains('#')
            && !l.contains('|')
            && !l.contains(';')
            && !l.trim_end().ends_with(['=', ',', '(', '[', '{', '+', '-', '*', '/', '\\'])
            && lines.get(i + 1).map(|n| !n.starts_with(' ') && !n.trim_start().starts_with('.')).unwrap_or(true)
            && l.chars().filter(|c| matches!(c, '(' | '[' | '{')).count() == l.chars().filter(|c| matches!(c, ')' | ']' | '}')).count();
        if simple && next() % 3 == 0 {
            let stretched = l.replacen(" = ", "   =   ", 1).replace(" + ", "  +  ");
            let comment = match next() % 4 {
                0 => "# note".to_string(),
                1 => " # note".to_string(),
                2 => "  # note".to_string(),
                _ => String::new(),
            };
            out.push_str("#[fmt: skip]\n");
            out.push_str(&stretched);
            out.push_str(&comment);
            out.push('\n');
            kept.push(stretched.trim_end().to_string());
        } else {
            out.push_str(l);
            out.push('\n');
        }
    }
    if kept.is_empty() { None } else { Some((out, kept)) }
}

fn check_skip(src: &str, opts: FormatOptions, kept: &[String]) -> Eval {
    let mut ev = check_format_x(src, opts, false, true).class("fmt-skip");
    ev.nontrivial = true;
    if ev.fail.is_some() {
        return ev;
    }
    if let Ok(Ok(out)) = guarded(|| koto_format::format(src, opts)) {
        for k in kept {
            if !out.lines().any(|l| l.trim_start().starts_with(k.as_str())) {
                ev.fail = Some(Fail::new(format!("c11:skipped-node-changed:input-{:08x}", fnv(src.as_bytes()) as u32), format!("the statement under #[fmt: skip] did not survive verbatim: {k:?}\n--- input:\n{src}\n--- output:\n{out}")));
                return ev;
            }
        }
    }
    ev
}

fn run_shard(ctx: &mut Ctx) {
    use proptest::strategy::{Strategy, ValueTree};
    ctx.set_case_limit_ms(5_000);
    let grid = option_grid();
    let per_text = ctx.tier.pick(6usize, 160usize);
    let corpus = crate::corpus::load();
    let mut idx = 0u64;
    let mut texts: Vec<(String, bool, &'static str)> = corpus.iter().map(|c| (c.text.clone(), c.runnable && !c.text.contains("import") && !c.text.contains(".."), "corpus")).collect();
    for t in UNICODE_STRESS {
        texts.push((t.to_string(), true, "unicode-stress"));
    }
    for (text, runnable, class) in &texts {
        let opts = if per_text >= grid.len() { grid.clone() } else { pick_options(&grid, fnv(text.as_bytes()) ^ ctx.seed, per_text) };
        for o in opts {
            idx += 1;
            if !ctx.mine(idx) {
                continue;
            }
            let case = json!({"kind": "format", "src": text, "options": opts_json(&o), "runnable": runnable});
            let ev = ctx.run_case(&case, || check_format(text, o, *runnable).class(class));
            // the same text with CRLF line endings (only where the LF form passes, so that findings keyed by
            // their input are not reported twice)
            if ev.map(|e| e.fail.is_none() && !e.discard).unwrap_or(false) && !text.contains('\r') && text.len() <= 4000 && fnv(format!("{}:crlf:{idx}", ctx.seed).as_bytes()) % 3 == 0 {
                let crlf = text.replace('\n', "\r\n");
                if koto_parser::Parser::parse(&crlf).is_ok() {
                    let case = json!({"kind": "format", "src": crlf, "options": opts_json(&o), "runnable": runnable});
                    ctx.run_case(&case, || check_format(&crlf, o, *runnable).class("crlf"));
                }
            }
        }
    }
    // `#[fmt: skip]` directives: simple one-line statements of the corpus get the directive, their
    // inner spacing is stretched and a trailing comment is attached with 0, 1 or 2 spaces; besides the
    // general clauses the skipped line must survive verbatim
    for (ci, c) in corpus.iter().enumerate() {
        if c.text.len() > 3000 || c.text.contains("#[") {
            continue;
        }
        for variant in 0..3u64 {
            idx += 1;
            if !ctx.mine(idx) || ctx.too_many_failures() {
                continue;
            }
            let h = fnv(format!("{}:skip:{}:{}", ctx.seed, ci, variant).as_bytes());
            let Some((text, kept)) = with_skip_directives(&c.text, h) else { continue };
            if koto_parser::Parser::parse(&text).is_err() {
                continue;
            }
            let o = grid[(h % grid.len() as u64) as usize];
            let case = json!({"kind": "format-skip", "src": text, "options": opts_json(&o), "kept": kept});
            ctx.run_case(&case, || check_skip(&text, o, &kept));
        }
    }
    // mutants that still parse
    let pct: u64 = ctx.tier.pick(4, 40);
    for (ci, c) in corpus.iter().enumerate() {
        if c.text.len() > 3000 {
            continue;
        }
        let toks = textgen::token_ranges(&c.text);
        let n = textgen::neighbourhood_size(&c.text, &toks);
        for k in 0..n {
            idx += 1;
            if !ctx.mine(idx) || fnv(format!("{}:{}:{}", ctx.seed, ci, k).as_bytes()) % 100 >= pct {
                continue;
            }
            if ctx.too_many_failures() {
                break;
            }
            let Some(m) = textgen::mutant(&c.text, &toks, k) else { continue };
            if koto_parser::Parser::parse(&m).is_err() {
                continue;
            }
            let o = grid[(fnv(format!("{ci}:{k}").as_bytes()) % grid.len() as u64) as usize];
            let case = json!({"kind": "format", "src": m, "options": opts_json(&o), "runnable": false, "strict": false});
            ctx.run_case(&case, || check_format_x(&m, o, false, false).class("mutant"));
        }
    }
    // generated programs in random layouts
    let n = ctx.tier.pick(5_000u64, 80_000u64);
    for i in 0..n {
        if !ctx.mine(i) {
            continue;
        }
        if ctx.too_many_failures() {
            break;
        }
        let mut runner = seeded_runner(ctx.sub_seed("gen", i));
        let data = gen_::choice_stream(500).new_tree(&mut runner).unwrap().current();
        let prog = match i % 3 {
            0 => crate::props::c01::build(&data).0,
            1 => crate::props::c02::build(&data).0,
            _ => crate::props::c04::build_program(&data, None).0.into_iter().skip(gen_::header().len()).collect(),
        };
        let mut full = gen_::header();
        full.extend(prog);
        let seed = ctx.sub_seed("layout", i);
        let mut layout = Layout::new((0..61).map(|k| (fnv(format!("{seed}/{k}").as_bytes()) >> 9) as u8).collect());
        layout.no_trivia = true;
        let plain = Layout::new(vec![]);
        let src = print_program(&full, if i % 2 == 0 { &layout } else { &plain });
        let o = grid[(fnv(&seed.to_le_bytes()) % grid.len() as u64) as usize];
        // only programs that the reference interpreter judges are run for the behaviour clause: the
        // others include exponential container growth (resource exhaustion, not a formatter matter)
        let runnable = crate::model::run_program(&full, true).result.is_some();
        let case = json!({"kind": "format", "src": src, "options": opts_json(&o), "runnable": runnable});
        ctx.run_case(&case, || check_format(&src, o, runnable).class("generated"));
    }
}

fn replay_skip(case: &Value) -> Option<Fail> {
    let kept: Vec<String> = case["kept"].as_array()?.iter().filter_map(|x| x.as_str().map(|s| s.to_string())).collect();
    let o = opts_from(&case["options"]);
    check_skip(case["src"].as_str()?, o, &kept).fail
}

fn replay(case: &Value) -> Option<Fail> {
    if case["kind"] == "format-skip" {
        return replay_skip(case);
    }
    check_format_x(case["src"].as_str()?, opts_from(&case["options"]), case["runnable"].as_bool().unwrap_or(false), case["strict"].as_bool().unwrap_or(true)).fail
}

//! C15 — strings stay valid text; indexing, splitting and formatting are exact
use crate::core::*;
use crate::kx::{self, RunOpts};
use serde_json::{Value, json};
use unicode_segmentation::UnicodeSegmentation;

pub static PROP: Prop = Prop {
    id: "C15",
    rule: "(a) every string of <= 3 (thorough: <= 4, and <= 5 over a 7-symbol sub-alphabet) characters over {a, B, space, -, e-acute (2 bytes), CJK (3 bytes), emoji (4 bytes), combining acute U+0301, CR, LF} in five representations (literal, run-time concatenation, slice of a run-time string, slice of a literal, slice starting beyond byte 65 535) x every byte index -1..=len+1, every range a..b / a..=b / a.. / ..b / ..=b over -1..=len+1, chars / default iteration / reversed / mixed next+next_back / char_indices (+ re-indexing) / bytes / from_bytes (whole and every byte prefix) / lines / case mapping / trim family / escape / repeat -1..3 / size / is_empty / +, and for every pattern (all 1-2 character substrings, the empty string, absent and partially matching patterns) split / contains / starts_with / ends_with / strip_prefix / strip_suffix / trim(p) / trim_start(p) / trim_end(p) / replace with three replacements, plus predicate split on every grapheme; results are printed length-prefixed and compared token by token with an oracle written on Rust byte strings and a hand-written grapheme segmentation of the alphabet (cross-checked against unicode-segmentation). (b) interpolation options: grammar-valid specs [[fill]align][0][width][.precision][type] over fill {none,_,e-acute,emoji,0,x,<} x align {none,<,^,>} x zero flag x width {none,0,1,3,7,12} x precision {none,0,2,5} x type {none,?,x,X,o,b,e,E} applied to 36 values (ints incl. i64 extremes, floats incl. inf/NaN/-0.0, strings with multi-byte and combining characters, null, bool, tuple, list, map, range); exact text where the guide defines it, field width >= requested width in graphemes always. (c) escape codes: literals assembled from <= 3 parts over every documented escape, \\u{..} at every UTF-8 length boundary and beyond U+10FFFF, surrogates, \\xNN at 00/7f/80/ff, line continuations, unknown escapes, both quote kinds. (d) to_number over a numeric grammar (sign x radix prefix x digits x fraction x exponent x junk) with and without explicit base 0..37. Every text reaching stdout is re-validated as UTF-8. Non-trivial: (a) the string has a multi-byte character, a combining mark or a CR/LF; (b) padding or truncation actually applies; (c) an escape is present; (d) the string is not plain decimal digits.",
    assumptions: &[
        "known findings keyed by shape: split with an empty pattern (endless), float with ?/e/E representation (fixed)",
        "not judged (guide silent): zero flag on negative / non-finite / non-number values, representation combined with precision, radix representations of floats, odd centre padding side, to_number of inf/nan/exponent-without-point/integers beyond i64/'+' signs/sign after radix prefix, predicate split trailing empty piece",
    ],
    shards: |_| 16,
    run_shard,
    replay,
    min_nontrivial_fraction: 0.3,
};

// ---------------------------------------------------------------------------------------------
// encoded values

#[derive(Clone, Debug, PartialEq)]
enum V {
    S(String),
    N,
    B(bool),
    I(i64),
    R(i64, i64),
    T(Vec<V>),
}

impl V {
    fn enc(&self, out: &mut String) {
        match self {
            V::S(s) => {
                out.push_str(&format!("s{}:", s.len()));
                out.push_str(s);
            }
            V::N => out.push('n'),
            V::B(b) => out.push(if *b { 'T' } else { 'F' }),
            V::I(i) => out.push_str(&format!("i{i};")),
            V::R(a, b) => out.push_str(&format!("r{a},{b};")),
            V::T(v) => {
                out.push_str(&format!("t{}:", v.len()));
                for x in v {
                    x.enc(out);
                }
            }
        }
    }
    fn encoded(&self) -> String {
        let mut s = String::new();
        self.enc(&mut s);
        s
    }
}

#[derive(Clone, Debug)]
enum Exp {
    Val(V),
    Err,
    OneOf(Vec<Exp>),
    Unjudged,
}

impl Exp {
    fn texts(&self) -> Option<Vec<String>> {
        match self {
            Exp::Val(v) => Some(vec![v.encoded()]),
            Exp::Err => Some(vec!["E".into()]),
            Exp::OneOf(v) => {
                let mut out = vec![];
                for e in v {
                    out.extend(e.texts()?);
                }
                Some(out)
            }
            Exp::Unjudged => None,
        }
    }
}

const PRELUDE: &str = "\
enc = |v|
  match type v
    'String' then 's{size v}:{v}'
    'Null' then 'n'
    'Bool' then if v then 'T' else 'F'
    'Number' then 'i{v};'
    'Range' then 'r{v.start()},{v.end()};'
    'Tuple' or 'List' then v.fold 't{size v}:', |a, x| a + enc x
    else '?{type v}'
t = |f|
  try
    enc f()
  catch _
    'E'
og = |o| if o == null then null else o.get()
";

/// Reads one encoded token from the output, returning its text and the rest
fn read_token(s: &str) -> Option<(&str, &str)> {
    fn len_of(s: &str) -> Option<usize> {
        let b = s.as_bytes();
        match *b.first()? {
            b'n' | b'T' | b'F' | b'E' => Some(1),
            b'i' | b'r' => Some(s.find(';')? + 1),
            b's' => {
                let colon = s.find(':')?;
                let n: usize = s[1..colon].parse().ok()?;
                let end = colon + 1 + n;
                if end <= s.len() && s.is_char_boundary(end) { Some(end) } else { None }
            }
            b't' => {
                let colon = s.find(':')?;
                let n: usize = s[1..colon].parse().ok()?;
                let mut pos = colon + 1;
                for _ in 0..n {
                    pos += len_of(&s[pos..])?;
                }
                Some(pos)
            }
            b'?' => Some(s.find('\n').unwrap_or(s.len())),
            _ => None,
        }
    }
    let n = len_of(s)?;
    Some((&s[..n], &s[n..]))
}

// ---------------------------------------------------------------------------------------------
// oracle helpers

pub const ALPHABET: [char; 10] = ['a', 'B', ' ', '-', 'é', '語', '😀', '\u{301}', '\r', '\n'];

/// Characters for the sampled stream of longer strings: the small alphabet plus case-mapping
/// expansions, other whitespace, ZWJ / regional-indicator / Hangul sequences and a quote
pub const WIDE: [char; 26] = [
    'a', 'B', ' ', '-', 'é', '語', '😀', '\u{301}', '\r', '\n', 'ß', 'İ', 'ǆ', '\t', '\u{a0}', '\u{2028}', '\u{200d}', '👩', '🇯', '🇵', 'ᄀ', 'ᅡ', '\'', '{', '\\', '0',
];

/// Hand-written extended grapheme segmentation, valid for the alphabet above (plus other
/// characters without special break properties): CR LF is one cluster, CR / LF stand alone,
/// U+0301 extends whatever non-control character precedes it.
fn graphemes(s: &str) -> Vec<(usize, &str)> {
    let mut out = vec![];
    let cs: Vec<(usize, char)> = s.char_indices().collect();
    let mut i = 0;
    while i < cs.len() {
        let (start, c) = cs[i];
        let mut j = i + 1;
        if c == '\r' {
            if j < cs.len() && cs[j].1 == '\n' {
                j += 1;
            }
        } else if c != '\n' {
            while j < cs.len() && cs[j].1 == '\u{301}' {
                j += 1;
            }
        }
        let end = if j < cs.len() { cs[j].0 } else { s.len() };
        out.push((start, &s[start..end]));
        i = j;
    }
    out
}

fn vs(s: &str) -> V {
    V::S(s.to_string())
}
fn vt_strs<'a>(it: impl Iterator<Item = &'a str>) -> V {
    V::T(it.map(vs).collect())
}

fn slice(s: &str, a: i64, b: i64) -> Exp {
    let n = s.len() as i64;
    let start = a.clamp(0, n);
    let end = b.clamp(start, n);
    let (start, end) = (start as usize, end as usize);
    if s.is_char_boundary(start) && s.is_char_boundary(end) { Exp::Val(vs(&s[start..end])) } else { Exp::Err }
}

fn split_pattern(s: &str, p: &str) -> Vec<String> {
    // independent of str::split: repeated leftmost search
    let mut out = vec![];
    let sb = s.as_bytes();
    let pb = p.as_bytes();
    let mut start = 0;
    let mut i = 0;
    while i + pb.len() <= sb.len() {
        if &sb[i..i + pb.len()] == pb {
            out.push(s[start..i].to_string());
            i += pb.len();
            start = i;
        } else {
            i += 1;
        }
    }
    out.push(s[start..].to_string());
    out
}

fn trim_start_p<'a>(mut s: &'a str, p: &str) -> &'a str {
    while !p.is_empty() && s.as_bytes().starts_with(p.as_bytes()) {
        s = &s[p.len()..];
    }
    s
}
fn trim_end_p<'a>(mut s: &'a str, p: &str) -> &'a str {
    while !p.is_empty() && s.as_bytes().ends_with(p.as_bytes()) {
        s = &s[..s.len() - p.len()];
    }
    s
}
fn is_ws(c: char) -> bool {
    c.is_whitespace()
}
fn escape(s: &str) -> String {
    let mut out = String::new();
    for c in s.chars() {
        match c {
            '\t' => out.push_str("\\t"),
            '\r' => out.push_str("\\r"),
            '\n' => out.push_str("\\n"),
            '\'' => out.push_str("\\'"),
            '"' => out.push_str("\\\""),
            '\\' => out.push_str("\\\\"),
            ' '..='~' => out.push(c),
            _ => out.push_str(&format!("\\u{{{:x}}}", c as u32)),
        }
    }
    out
}
fn lines(s: &str) -> Vec<String> {
    let mut out = vec![];
    let mut rest = s;
    while !rest.is_empty() {
        match rest.find('\n') {
            Some(i) => {
                let line = &rest[..i];
                out.push(line.strip_suffix('\r').unwrap_or(line).to_string());
                rest = &rest[i + 1..];
            }
            None => {
                out.push(rest.to_string());
                rest = "";
            }
        }
    }
    out
}

/// A Koto single-quoted literal for `s`
pub fn koto_lit(s: &str) -> String {
    let mut out = String::from("'");
    for c in s.chars() {
        match c {
            '\'' => out.push_str("\\'"),
            '\\' => out.push_str("\\\\"),
            '{' => out.push_str("\\{"),
            '\r' => out.push_str("\\r"),
            '\n' => out.push_str("\\n"),
            '\t' => out.push_str("\\t"),
            '\u{301}' => out.push_str("\\u{301}"),
            c => out.push(c),
        }
    }
    out.push('\'');
    out
}

// ---------------------------------------------------------------------------------------------
// (a) string operations

pub const REPS: usize = 5;

fn rep_setup(s: &str, rep: usize) -> String {
    let lit = koto_lit(s);
    let n = s.len();
    match rep {
        0 => format!("s = {lit}\n"),
        1 => format!("s = '' + {lit}\n"),
        2 => format!("w = 'x語' + {lit} + 'zé'\ns = w[4..{}]\n", 4 + n),
        3 => {
            let inner = &lit[1..lit.len() - 1];
            format!("s = 'x語{inner}zé'[4..{}]\n", 4 + n)
        }
        _ => format!("big = ('p'.repeat 70000) + {lit} + 'é'\ns = big[70000..{}]\n", 70000 + n),
    }
}

struct Ops {
    script: String,
    expected: Vec<(String, Exp)>,
}

impl Ops {
    fn op(&mut self, expr: &str, e: Exp) {
        self.script.push_str("print t || ");
        self.script.push_str(expr);
        self.script.push('\n');
        self.expected.push((expr.to_string(), e));
    }
}

fn patterns(s: &str) -> Vec<String> {
    let mut ps: Vec<String> = vec![];
    let cs: Vec<(usize, char)> = s.char_indices().collect();
    for i in 0..cs.len() {
        for l in 1..=2 {
            if i + l <= cs.len() {
                let end = if i + l < cs.len() { cs[i + l].0 } else { s.len() };
                let p = s[cs[i].0..end].to_string();
                if !ps.contains(&p) {
                    ps.push(p);
                }
            }
        }
    }
    for extra in ["q", "éq", "\n"] {
        if !ps.iter().any(|p| p == extra) {
            ps.push(extra.to_string());
        }
    }
    if let Some((_, c)) = cs.first() {
        ps.push(format!("{c}q"));
    }
    if let Some((_, c)) = cs.last() {
        ps.push(format!("q{c}"));
    }
    ps
}

fn build_ops(s: &str, rep: usize, wide: bool) -> Ops {
    let mut o = Ops { script: String::from(PRELUDE), expected: vec![] };
    o.script.push_str(&rep_setup(s, rep));
    let n = s.len() as i64;
    o.op("size s", Exp::Val(V::I(n)));
    o.op("s", Exp::Val(vs(s)));
    // the loops are mirrored below
    o.script.push_str(&format!(
        "n = {n}\nfor i in -1..=(n + 1)\n  print t || s[i]\nfor a in -1..=(n + 1)\n  print t || s[a..]\n  print t || s[..a]\n  print t || s[..=a]\n  for b in -1..=(n + 1)\n    print t || s[a..b]\n    print t || s[a..=b]\n"
    ));
    for i in -1..=(n + 1) {
        let e = if i < 0 || i >= n {
            Exp::Err
        } else {
            let (a, b) = (i as usize, i as usize + 1);
            if s.is_char_boundary(a) && s.is_char_boundary(b) { Exp::Val(vs(&s[a..b])) } else { Exp::Err }
        };
        o.expected.push((format!("s[{i}]"), e));
    }
    for a in -1..=(n + 1) {
        o.expected.push((format!("s[{a}..]"), slice(s, a, n)));
        o.expected.push((format!("s[..{a}]"), slice(s, 0, a)));
        o.expected.push((format!("s[..={a}]"), slice(s, 0, a + 1)));
        for b in -1..=(n + 1) {
            o.expected.push((format!("s[{a}..{b}]"), slice(s, a, b)));
            o.expected.push((format!("s[{a}..={b}]"), slice(s, a, b + 1)));
        }
    }
    o.op("s[..]", Exp::Val(vs(s)));
    // strings outside the small alphabet are segmented by the library
    let gs: Vec<(usize, &str)> = if wide { s.grapheme_indices(true).collect() } else { graphemes(s) };
    let gtuple = vt_strs(gs.iter().map(|g| g.1));
    o.op("s.chars().to_tuple()", Exp::Val(gtuple.clone()));
    o.op("s.to_tuple()", Exp::Val(gtuple.clone()));
    o.op("s.chars().fold('', |a, b| a + b)", Exp::Val(vs(s)));
    o.op("s.chars().reversed().to_tuple()", Exp::Val(vt_strs(gs.iter().rev().map(|g| g.1))));
    o.op("s.chars().count()", Exp::Val(V::I(gs.len() as i64)));
    {
        // back, front, back, rest
        let mut d: std::collections::VecDeque<&str> = gs.iter().map(|g| g.1).collect();
        let a = d.pop_back();
        let b = d.pop_front();
        let c = d.pop_back();
        let f = |x: Option<&str>| x.map(vs).unwrap_or(V::N);
        let rest = vt_strs(d.iter().cloned());
        o.script.push_str("print t ||\n  it = s.chars()\n  a = it.next_back()\n  b = it.next()\n  c = it.next_back()\n  (og(a), og(b), og(c), it.to_tuple())\n");
        o.expected.push(("next_back/next/next_back/rest".into(), Exp::Val(V::T(vec![f(a), f(b), f(c), rest]))));
    }
    o.op("s.char_indices().to_tuple()", Exp::Val(V::T(gs.iter().map(|g| V::R(g.0 as i64, (g.0 + g.1.len()) as i64)).collect())));
    o.op("s.char_indices().each(|r| s[r]).to_tuple()", Exp::Val(gtuple.clone()));
    o.op("s.bytes().to_tuple()", Exp::Val(V::T(s.bytes().map(|b| V::I(b as i64)).collect())));
    o.op("string.from_bytes s.bytes()", Exp::Val(vs(s)));
    o.script.push_str("for k in 0..=n\n  print t || string.from_bytes s.bytes().take(k)\n");
    for k in 0..=s.len() {
        let e = match std::str::from_utf8(&s.as_bytes()[..k]) {
            Ok(p) => Exp::Val(vs(p)),
            Err(_) => Exp::Err,
        };
        o.expected.push((format!("from_bytes(bytes.take({k}))"), e));
    }
    o.op("s.lines().to_tuple()", Exp::Val(V::T(lines(s).iter().map(|l| vs(l)).collect())));
    o.op("s.to_uppercase()", Exp::Val(V::S(s.chars().flat_map(|c| c.to_uppercase()).collect())));
    o.op("s.to_lowercase()", Exp::Val(V::S(s.chars().flat_map(|c| c.to_lowercase()).collect())));
    o.op("s.trim()", Exp::Val(vs(s.trim_start_matches(is_ws).trim_end_matches(is_ws))));
    o.op("s.trim_start()", Exp::Val(vs(s.trim_start_matches(is_ws))));
    o.op("s.trim_end()", Exp::Val(vs(s.trim_end_matches(is_ws))));
    o.op("s.escape()", Exp::Val(V::S(escape(s))));
    o.op("s.is_empty()", Exp::Val(V::B(s.is_empty())));
    for k in -1..=3i64 {
        o.op(&format!("s.repeat {k}"), if k < 0 { Exp::Err } else { Exp::Val(V::S(s.repeat(k as usize))) });
    }
    o.op("s + s", Exp::Val(V::S(format!("{s}{s}"))));
    o.op("'語' + s + '{s}'", Exp::Val(V::S(format!("語{s}{s}"))));
    o.op("s == '' + s", Exp::Val(V::B(true)));
    o.op("(s + 'q')[..n] == s", Exp::Val(V::B(true)));
    // patterns
    for p in patterns(s) {
        let pl = koto_lit(&p);
        let pieces = split_pattern(s, &p);
        o.op(&format!("s.split({pl}).to_tuple()"), Exp::Val(V::T(pieces.iter().map(|x| vs(x)).collect())));
        o.op(&format!("s.split({pl}).fold(null, |a, b| if a == null then b else a + {pl} + b)"), Exp::Val(vs(s)));
        o.op(&format!("s.contains {pl}"), Exp::Val(V::B(pieces.len() > 1)));
        let sw = s.as_bytes().starts_with(p.as_bytes());
        let ew = s.as_bytes().ends_with(p.as_bytes());
        o.op(&format!("s.starts_with {pl}"), Exp::Val(V::B(sw)));
        o.op(&format!("s.ends_with {pl}"), Exp::Val(V::B(ew)));
        o.op(&format!("s.strip_prefix {pl}"), Exp::Val(if sw { vs(&s[p.len()..]) } else { V::N }));
        o.op(&format!("s.strip_suffix {pl}"), Exp::Val(if ew { vs(&s[..s.len() - p.len()]) } else { V::N }));
        o.op(&format!("s.trim {pl}"), Exp::Val(vs(trim_end_p(trim_start_p(s, &p), &p))));
        o.op(&format!("s.trim_start {pl}"), Exp::Val(vs(trim_start_p(s, &p))));
        o.op(&format!("s.trim_end {pl}"), Exp::Val(vs(trim_end_p(s, &p))));
        for q in ["", "Z", "語é"] {
            o.op(&format!("s.replace {pl}, {}", koto_lit(q)), Exp::Val(V::S(pieces.join(q))));
        }
    }
    // the empty pattern, where it is defined by the guide's examples (`contains ''` is true)
    o.op("s.contains ''", Exp::Val(V::B(true)));
    o.op("s.starts_with ''", Exp::Val(V::B(true)));
    o.op("s.ends_with ''", Exp::Val(V::B(true)));
    o.op("s.strip_prefix ''", Exp::Val(vs(s)));
    o.op("s.strip_suffix ''", Exp::Val(vs(s)));
    o.op("s.trim ''", Exp::Val(vs(s)));
    // split with an empty pattern: only termination and the re-join law are judged
    o.op("s.split('').take(100).count() < 100", Exp::Val(V::B(true)));
    o.op("s.split('').fold(null, |a, b| if a == null then b else a + b)", Exp::Val(vs(s)));
    // predicate split
    let mut seen: Vec<&str> = vec![];
    for (_, g) in &gs {
        if seen.contains(g) {
            continue;
        }
        seen.push(g);
        let gl = koto_lit(g);
        let mut pieces: Vec<String> = vec![String::new()];
        for (_, h) in &gs {
            if h == g {
                pieces.push(String::new());
            } else {
                pieces.last_mut().unwrap().push_str(h);
            }
        }
        let full = Exp::Val(V::T(pieces.iter().map(|x| vs(x)).collect()));
        let e = if pieces.last().unwrap().is_empty() {
            let mut short = pieces.clone();
            short.pop();
            Exp::OneOf(vec![full, Exp::Val(V::T(short.iter().map(|x| vs(x)).collect()))])
        } else {
            full
        };
        o.op(&format!("s.split(|c| c == {gl}).to_tuple()"), e);
    }
    o
}

/// Source text of the operation batch of a sampled string (used by the rc / arc differential)
pub fn sample_string_batch(data: &[u32]) -> String {
    let mut s = crate::pgen::Src::new(data);
    let n = 1 + s.below(6) as usize;
    let text: String = (0..n).map(|_| WIDE[s.below(WIDE.len() as u32) as usize]).collect();
    build_ops(&text, s.below(REPS as u32) as usize, true).script
}

/// All mismatches of one (string, representation) batch, as (signature, detail)
fn eval_string(s: &str, rep: usize) -> (usize, Vec<Fail>) {
    let wide = s.chars().any(|c| !ALPHABET.contains(&c));
    if !wide {
        // self-check of the hand-written segmentation
        let lib: Vec<&str> = s.graphemes(true).collect();
        let mine: Vec<&str> = graphemes(s).iter().map(|g| g.1).collect();
        assert_eq!(lib, mine, "harness: grapheme model disagrees with unicode-segmentation for {s:?}");
    }
    let ops = build_ops(s, rep, wide);
    let out = kx::run(&ops.script, &RunOpts::default());
    let mut fails: Vec<Fail> = vec![];
    let head = format!("string {s:?} ({}) representation {rep}\nsetup:\n{}", s.escape_unicode(), rep_setup(s, rep));
    if out.bad_utf8 {
        fails.push(Fail::new("c15:malformed-text", format!("malformed UTF-8 reached stdout\n{head}")));
    }
    if !out.outcome.is_ok() {
        fails.push(Fail::new("c15:batch-error", format!("batch script failed: {:?}\n{head}", out.outcome)));
        return (0, fails);
    }
    let mut rest = out.stdout.as_str();
    let mut judged = 0;
    for (expr, exp) in &ops.expected {
        let Some((tok, r)) = read_token(rest) else {
            fails.push(Fail::new("c15:protocol", format!("cannot read the result of `{expr}` from {:?}\n{head}", rest.chars().take(60).collect::<String>())));
            break;
        };
        let Some(r) = r.strip_prefix('\n') else {
            fails.push(Fail::new("c15:protocol", format!("result of `{expr}` is not followed by a newline: {:?}\n{head}", tok)));
            break;
        };
        rest = r;
        if let Some(texts) = exp.texts() {
            judged += 1;
            if !texts.iter().any(|t| t == tok) {
                let kind = expr.split(|c: char| !(c.is_alphanumeric() || c == '_' || c == '.' || c == '[')).find(|w| !w.is_empty()).unwrap_or("op");
                let sig = format!("c15:op:{}", kind.trim_start_matches("s.").trim_start_matches("s["));
                if !fails.iter().any(|f| f.sig == sig) {
                    fails.push(Fail::new(sig, format!("`{expr}` gave {tok:?}, expected {}\n{head}", texts.join(" or "))));
                }
            }
        }
    }
    if fails.is_empty() && !rest.is_empty() {
        fails.push(Fail::new("c15:protocol", format!("unexpected extra output {:?}\n{head}", rest.chars().take(60).collect::<String>())));
    }
    (judged, fails)
}

fn string_of(ix: &[usize]) -> String {
    // indices below 100 address the small alphabet, 100.. the wide one
    ix.iter().map(|i| if *i >= 100 { WIDE[(*i - 100) % WIDE.len()] } else { ALPHABET[*i % ALPHABET.len()] }).collect()
}

fn nontrivial_string(s: &str) -> bool {
    s.chars().any(|c| c.len_utf8() > 1 || c == '\r' || c == '\n')
}

fn run_string_batch(ctx: &mut Ctx, ix: &[usize], rep: usize) {
    let s = string_of(ix);
    let desc = json!({"kind": "str", "s": ix, "rep": rep});
    if !ctx.begin_batch(&desc) {
        return;
    }
    let (judged, mut fails) = match guarded(|| eval_string(&s, rep)) {
        Ok(r) => r,
        Err((loc, msg)) => (0, vec![Fail::new(panic_sig(&loc, &msg), format!("panic at {loc}: {msg}\nstring {s:?} rep {rep}"))]),
    };
    ctx.count_class("string-ops-judged", judged as u64);
    // reduce each failure by deleting characters while the same signature persists
    for f in fails.iter_mut() {
        let mut cur: Vec<usize> = ix.to_vec();
        let mut progress = true;
        while progress && cur.len() > 1 {
            progress = false;
            for k in 0..cur.len() {
                let mut cand = cur.clone();
                cand.remove(k);
                let cs = string_of(&cand);
                if let Ok((_, fs)) = guarded(|| eval_string(&cs, rep)) {
                    if let Some(g) = fs.into_iter().find(|g| g.sig == f.sig) {
                        cur = cand;
                        *f = g;
                        progress = true;
                        break;
                    }
                }
            }
        }
        let cj = json!({"kind": "str", "s": cur, "rep": rep, "sig": f.sig});
        let mut ev = Eval::pass(true);
        ev.fail = Some(f.clone());
        ctx.batch_item(hash_value(&cj), &ev, &|| cj.clone());
    }
    if fails.is_empty() {
        let ev = Eval::pass(nontrivial_string(&s)).class(intern(&format!("rep:{rep}"))).class(intern(&format!("chars:{}", ix.len())));
        ctx.batch_item(hash_value(&desc), &ev, &|| desc.clone());
    }
    ctx.end_batch(desc);
}

// ---------------------------------------------------------------------------------------------
// (b) format options

#[derive(Clone, Debug)]
enum FV {
    Int(i64),
    Float(f64),
    Other, // display text taken from the plain interpolation
}

fn format_values() -> Vec<(&'static str, FV)> {
    vec![
        ("0", FV::Int(0)),
        ("7", FV::Int(7)),
        ("-7", FV::Int(-7)),
        ("255", FV::Int(255)),
        ("1234567", FV::Int(1234567)),
        ("-9223372036854775807 - 1", FV::Int(i64::MIN)),
        ("9223372036854775807", FV::Int(i64::MAX)),
        ("9007199254740993", FV::Int(9007199254740993)),
        ("0.0", FV::Float(0.0)),
        ("-0.0", FV::Float(-0.0)),
        ("1.5", FV::Float(1.5)),
        ("-1.2", FV::Float(-1.2)),
        ("(1 / 3)", FV::Float(1.0 / 3.0)),
        ("2.5", FV::Float(2.5)),
        ("0.125", FV::Float(0.125)),
        ("1.0e21", FV::Float(1e21)),
        ("1.0e-7", FV::Float(1e-7)),
        ("123456.789", FV::Float(123456.789)),
        ("(1 / 0)", FV::Float(f64::INFINITY)),
        ("(-1 / 0)", FV::Float(f64::NEG_INFINITY)),
        ("(0 / 0)", FV::Float(f64::NAN)),
        ("''", FV::Other),
        ("'ab'", FV::Other),
        ("'héllo'", FV::Other),
        ("'語😀'", FV::Other),
        ("'a\\u{301}b\\u{301}c'", FV::Other),
        ("'abcdefghij'", FV::Other),
        ("'a\\r\\nb'", FV::Other),
        ("null", FV::Other),
        ("true", FV::Other),
        ("(1, 2, 3)", FV::Other),
        ("[1, 'a']", FV::Other),
        ("{a: 1}", FV::Other),
        ("(1..3)", FV::Other),
        ("('x', 'é')", FV::Other),
        ("[]", FV::Other),
    ]
}

#[derive(Clone, Debug, PartialEq)]
pub struct Spec {
    fill: Option<&'static str>,
    align: Option<char>,
    zero: bool,
    width: Option<u32>,
    precision: Option<u32>,
    repr: Option<char>,
}

impl Spec {
    fn text(&self) -> String {
        let mut s = String::new();
        if let Some(f) = self.fill {
            s.push_str(f);
        }
        if let Some(a) = self.align {
            s.push(a);
        }
        if self.zero {
            s.push('0');
        }
        if let Some(w) = self.width {
            s.push_str(&w.to_string());
        }
        if let Some(p) = self.precision {
            s.push_str(&format!(".{p}"));
        }
        if let Some(r) = self.repr {
            s.push(r);
        }
        s
    }
}

const FILLS: [&str; 7] = ["_", "é", "😀", "0", "x", "<", "語"];
const WIDTHS: [Option<u32>; 6] = [None, Some(0), Some(1), Some(3), Some(7), Some(12)];
const PRECS: [Option<u32>; 4] = [None, Some(0), Some(2), Some(5)];
const REPRS: [Option<char>; 8] = [None, Some('?'), Some('x'), Some('X'), Some('o'), Some('b'), Some('e'), Some('E')];

pub fn all_specs() -> Vec<Spec> {
    let mut fa: Vec<(Option<&'static str>, Option<char>)> = vec![(None, None)];
    for a in ['<', '^', '>'] {
        fa.push((None, Some(a)));
        for f in FILLS {
            fa.push((Some(f), Some(a)));
        }
    }
    let mut out = vec![];
    for (fill, align) in fa {
        for zero in [false, true] {
            for width in WIDTHS {
                if zero && width.is_none() {
                    continue; // a lone 0 is the width 0
                }
                for precision in PRECS {
                    for repr in REPRS {
                        out.push(Spec { fill, align, zero, width, precision, repr });
                    }
                }
            }
        }
    }
    out
}

fn gcount(s: &str) -> usize {
    s.graphemes(true).count()
}

/// Expected text of `{v:spec}` given the plain display text and the `?` text of the value
fn format_expected(v: &FV, plain: &str, debug: &str, sp: &Spec) -> (Exp, bool) {
    let is_num = !matches!(v, FV::Other);
    let mut exact = true;
    let rendered: String = match (v, sp.repr, sp.precision) {
        (FV::Int(n), Some(r), p) => {
            if p.is_some() {
                exact = false;
            }
            match r {
                '?' => format!("{n:?}"),
                'x' => format!("{n:x}"),
                'X' => format!("{n:X}"),
                'o' => format!("{n:o}"),
                'b' => format!("{n:b}"),
                'e' => format!("{n:e}"),
                _ => format!("{n:E}"),
            }
        }
        (FV::Float(f), Some(r), p) => {
            if p.is_some() {
                exact = false;
            }
            match r {
                '?' => plain.to_string(),
                'e' => format!("{f:e}"),
                'E' => format!("{f:E}"),
                _ => {
                    exact = false; // radix forms are documented for integers only
                    String::new()
                }
            }
        }
        (FV::Int(n), None, Some(p)) => {
            if n.unsigned_abs() > (1u64 << 53) {
                exact = false;
            }
            format!("{:.*}", p as usize, *n as f64)
        }
        (FV::Float(f), None, Some(p)) => {
            if f.is_nan() {
                exact = false; // NaN's spelling under a precision is not documented
            }
            format!("{:.*}", p as usize, f)
        }
        (FV::Int(_) | FV::Float(_), None, None) => plain.to_string(),
        (FV::Other, r, p) => {
            let base = match r {
                None => plain,
                Some('?') => debug,
                Some(_) => {
                    exact = false; // number representations applied to other values: not documented
                    plain
                }
            };
            match p {
                Some(p) => base.graphemes(true).take(p as usize).collect(),
                None => base.to_string(),
            }
        }
    };
    let len = gcount(&rendered);
    let width = sp.width.unwrap_or(0) as usize;
    let pads = len < width;
    if !exact {
        return (Exp::Unjudged, pads);
    }
    if !pads {
        return (Exp::Val(V::S(rendered)), sp.precision.is_some() && !is_num);
    }
    let k = width - len;
    let negative_or_special = match v {
        FV::Int(n) => *n < 0,
        FV::Float(f) => f.is_sign_negative() || !f.is_finite(),
        FV::Other => true,
    };
    if sp.zero && (negative_or_special || sp.fill.is_some() || sp.align.is_some()) {
        return (Exp::Unjudged, true);
    }
    let fill = if sp.zero { "0" } else { sp.fill.unwrap_or(" ") };
    let left = |k: usize| format!("{rendered}{}", fill.repeat(k));
    let right = |k: usize| format!("{}{rendered}", fill.repeat(k));
    let e = match sp.align {
        None => Exp::Val(V::S(if is_num { right(k) } else { left(k) })),
        Some('<') => Exp::Val(V::S(left(k))),
        Some('>') => Exp::Val(V::S(right(k))),
        _ => {
            let a = format!("{}{rendered}{}", fill.repeat(k / 2), fill.repeat(k - k / 2));
            if k % 2 == 0 {
                Exp::Val(V::S(a))
            } else {
                let b = format!("{}{rendered}{}", fill.repeat(k - k / 2), fill.repeat(k / 2));
                Exp::OneOf(vec![Exp::Val(V::S(a)), Exp::Val(V::S(b))])
            }
        }
    };
    (e, true)
}

/// One value x a list of specs; returns (judged, nontrivial, failures)
fn eval_format(vi: usize, specs: &[Spec]) -> (usize, usize, Vec<(usize, Fail)>) {
    let vals = format_values();
    let (vsrc, fv) = &vals[vi];
    let mut script = String::from(PRELUDE);
    script.push_str(&format!("v = {vsrc}\nprint t || '{{v}}'\nprint t || '{{v:?}}'\n"));
    for sp in specs {
        script.push_str(&format!("print t || '{{v:{}}}'\n", sp.text()));
    }
    let out = kx::run(&script, &RunOpts::default());
    let mut fails = vec![];
    if out.bad_utf8 {
        fails.push((0, Fail::new("c15:malformed-text", format!("malformed UTF-8 reached stdout\nvalue {vsrc}"))));
    }
    if !out.outcome.is_ok() {
        // find the offending spec by bisection is not needed: specs are grammar-valid, so any error is a failure
        fails.push((0, Fail::new("c15:format:batch-error", format!("format batch failed: {:?}\nvalue {vsrc}, specs {:?}", out.outcome, specs.iter().map(|s| s.text()).collect::<Vec<_>>()))));
        return (0, 0, fails);
    }
    let mut toks: Vec<String> = vec![];
    let mut rest = out.stdout.as_str();
    while let Some((tok, r)) = read_token(rest) {
        toks.push(tok.to_string());
        rest = r.strip_prefix('\n').unwrap_or(r);
    }
    if toks.len() != specs.len() + 2 {
        fails.push((0, Fail::new("c15:protocol", format!("expected {} results, read {}\nvalue {vsrc}", specs.len() + 2, toks.len()))));
        return (0, 0, fails);
    }
    let unwrap_s = |t: &str| -> Option<String> { t.strip_prefix('s').and_then(|x| x.split_once(':')).map(|x| x.1.to_string()) };
    let (Some(plain), Some(debug)) = (unwrap_s(&toks[0]), unwrap_s(&toks[1])) else {
        fails.push((0, Fail::new("c15:format:plain", format!("plain interpolation failed: {:?} {:?}\nvalue {vsrc}", toks[0], toks[1]))));
        return (0, 0, fails);
    };
    // anchors for the plain renderings themselves
    match fv {
        FV::Int(n) => {
            if plain != n.to_string() {
                fails.push((0, Fail::new("c15:format:plain", format!("'{{v}}' for {vsrc} gave {plain:?}"))));
            }
            if debug != n.to_string() {
                fails.push((0, Fail::new("c15:format:debug-number", format!("'{{v:?}}' for {vsrc} gave {debug:?}, expected {n}"))));
            }
        }
        FV::Float(f) => {
            let ok = if f.is_nan() { plain.eq_ignore_ascii_case("nan") } else { plain.parse::<f64>().map(|p| p == *f && p.is_sign_negative() == f.is_sign_negative()).unwrap_or(false) };
            if !ok {
                fails.push((0, Fail::new("c15:format:plain", format!("'{{v}}' for {vsrc} gave {plain:?}"))));
            }
            if debug != plain {
                fails.push((0, Fail::new("c15:format:float-representation", format!("'{{v:?}}' for the float {vsrc} gave {debug:?}, its plain text is {plain:?}"))));
            }
        }
        FV::Other => {}
    }
    let mut judged = 0;
    let mut nontrivial = 0;
    for (k, sp) in specs.iter().enumerate() {
        let tok = &toks[k + 2];
        let Some(got) = unwrap_s(tok) else {
            fails.push((k, Fail::new("c15:format:error", format!("'{{v:{}}}' for {vsrc} gave {tok:?}", sp.text()))));
            continue;
        };
        // width clause: always
        let w = sp.width.unwrap_or(0) as usize;
        if gcount(&got) < w {
            fails.push((k, Fail::new("c15:format:width", format!("'{{v:{}}}' for {vsrc} gave {got:?}: {} graphemes < requested width {w}", sp.text(), gcount(&got)))));
            continue;
        }
        let (exp, nt) = format_expected(fv, &plain, &debug, sp);
        if nt {
            nontrivial += 1;
        }
        if let Some(texts) = exp.texts() {
            judged += 1;
            let got_enc = V::S(got.clone()).encoded();
            if !texts.iter().any(|t| *t == got_enc) {
                let float_repr = matches!(fv, FV::Float(_)) && matches!(sp.repr, Some('?' | 'e' | 'E'));
                let sig = if float_repr { "c15:format:float-representation".to_string() } else { format!("c15:format:text:{}", if sp.repr.is_some() { "repr" } else if sp.precision.is_some() { "precision" } else { "padding" }) };
                fails.push((k, Fail::new(sig, format!("'{{v:{}}}' for v = {vsrc} gave {got:?}, expected {}", sp.text(), texts.join(" or ")))));
            }
        }
    }
    (judged, nontrivial, fails)
}

fn run_format_batch(ctx: &mut Ctx, vi: usize, start: usize, specs: &[Spec]) {
    let desc = json!({"kind": "format-batch", "value": vi, "first_spec": start, "n": specs.len()});
    if !ctx.begin_batch(&desc) {
        return;
    }
    let (judged, nontrivial, fails) = match guarded(|| eval_format(vi, specs)) {
        Ok(r) => r,
        Err((loc, msg)) => (0, 0, vec![(0, Fail::new(panic_sig(&loc, &msg), format!("panic at {loc}: {msg}\nformat value {vi}")))]),
    };
    ctx.count_class("format-ops-judged", judged as u64);
    ctx.count_class("format-ops-padding-or-truncation", nontrivial as u64);
    let mut seen: Vec<String> = vec![];
    for (k, f) in &fails {
        if seen.contains(&f.sig) {
            continue;
        }
        seen.push(f.sig.clone());
        let cj = json!({"kind": "format", "value": vi, "spec": specs.get(*k).map(|s| s.text()).unwrap_or_default(), "spec_index": start + k, "sig": f.sig});
        let mut ev = Eval::pass(true);
        ev.fail = Some(f.clone());
        ctx.batch_item(hash_value(&cj), &ev, &|| cj.clone());
    }
    if fails.is_empty() {
        let ev = Eval::pass(nontrivial > 0).class("format-batch");
        ctx.batch_item(hash_value(&desc), &ev, &|| desc.clone());
    }
    ctx.end_batch(desc);
}

// ---------------------------------------------------------------------------------------------
// (c) escape codes in literals

/// (source text, decoded text or None when the literal must be rejected, is_escape)
pub fn escape_parts() -> Vec<(&'static str, Option<&'static str>, bool)> {
    vec![
        ("a", Some("a"), false),
        ("é", Some("é"), false),
        ("😀", Some("😀"), false),
        (" ", Some(" "), false),
        ("\\n", Some("\n"), true),
        ("\\r", Some("\r"), true),
        ("\\t", Some("\t"), true),
        ("\\'", Some("'"), true),
        ("\\\"", Some("\""), true),
        ("\\\\", Some("\\"), true),
        ("\\{", Some("{"), true),
        ("\\u{0}", Some("\0"), true),
        ("\\u{41}", Some("A"), true),
        ("\\u{7f}", Some("\u{7f}"), true),
        ("\\u{80}", Some("\u{80}"), true),
        ("\\u{7ff}", Some("\u{7ff}"), true),
        ("\\u{800}", Some("\u{800}"), true),
        ("\\u{ffff}", Some("\u{ffff}"), true),
        ("\\u{10000}", Some("\u{10000}"), true),
        ("\\u{10ffff}", Some("\u{10ffff}"), true),
        ("\\u{10FFFF}", Some("\u{10ffff}"), true),
        ("\\u{000041}", Some("A"), true),
        ("\\u{1F44B}", Some("👋"), true),
        ("\\u{110000}", None, true),
        ("\\u{d800}", None, true),
        ("\\u{dfff}", None, true),
        ("\\u{0000041}", None, true),
        ("\\u{}", None, true),
        ("\\u{100000041}", None, true),
        ("\\u{ffffffffff}", None, true),
        ("\\u{g}", None, true),
        ("\\u41", None, true),
        ("\\x41", Some("A"), true),
        ("\\x00", Some("\0"), true),
        ("\\x7f", Some("\u{7f}"), true),
        ("\\x7F", Some("\u{7f}"), true),
        ("\\x4g", None, true),
        ("\\x80", None, true),
        ("\\xff", None, true),
        ("\\xg1", None, true),
        ("\\q", None, true),
        ("\\a", None, true),
        ("\\0", None, true),
        ("\\\n   ", Some(""), true),
        ("\\\n", Some(""), true),
        ("\n", Some("\n"), false),
        ("}", Some("}"), false),
        ("\u{301}", Some("\u{301}"), false),
    ]
}

fn eval_escape(parts: &[usize], quote: char) -> Eval {
    let table = escape_parts();
    let mut src = String::new();
    let mut expected = Some(String::new());
    let mut has_escape = false;
    let mut skipping = false;
    for (k, p) in parts.iter().enumerate() {
        let (text, dec, esc) = table[*p];
        src.push_str(text);
        has_escape |= esc;
        // a line continuation also swallows the raw whitespace that follows it (an escape code
        // such as \t is content and ends the skipping)
        match (dec, expected.as_mut()) {
            (Some(d), Some(e)) => {
                let _ = k;
                if text.starts_with("\\\n") {
                    skipping = true;
                } else if skipping && !esc {
                    let rest = d.trim_start_matches([' ', '\t']);
                    if !rest.is_empty() {
                        skipping = false;
                    }
                    e.push_str(rest);
                } else {
                    skipping = false;
                    e.push_str(d);
                }
            }
            _ => expected = None,
        }
    }
    let script = format!("{PRELUDE}print t || {quote}{src}{quote}\n");
    let out = kx::run(&script, &RunOpts::default());
    let mut ev = Eval::pass(has_escape).class(if expected.is_some() { "escape:valid" } else { "escape:invalid" });
    if out.bad_utf8 {
        ev.fail = Some(Fail::new("c15:malformed-text", format!("malformed UTF-8 from literal {quote}{src}{quote}")));
        return ev;
    }
    match (&expected, &out.outcome) {
        (Some(e), kx::Outcome::Ok(_)) => {
            let want = format!("{}\n", V::S(e.clone()).encoded());
            if out.stdout != want {
                ev.fail = Some(Fail::new("c15:escape:value", format!("literal {quote}{src}{quote} gave {:?}, expected {want:?}", out.stdout)));
            }
        }
        (Some(e), other) => {
            ev.fail = Some(Fail::new("c15:escape:rejected", format!("literal {quote}{src}{quote} (meaning {e:?}) was rejected: {other:?}")));
        }
        (None, kx::Outcome::CompileErr(..)) => {}
        (None, other) => {
            ev.fail = Some(Fail::new("c15:escape:accepted", format!("literal {quote}{src}{quote} contains an invalid escape code but gave {other:?} / {:?}", out.stdout)));
        }
    }
    ev
}

// ---------------------------------------------------------------------------------------------
// (d) to_number

fn number_strings() -> Vec<String> {
    let mut out: Vec<String> = vec![];
    let signs = ["", "-", "+"];
    let prefixes = ["", "0x", "0o", "0b", "0X"];
    let digits = ["", "0", "7", "10", "101", "7f", "FF", "9223372036854775807", "9223372036854775808", "18", "z", "12_3", "00012"];
    let fracs = ["", ".", ".5", ".25", ".5.5"];
    let exps = ["", "e3", "e-2", "E2", "e"];
    let junk = ["", " ", "x", "\n"];
    for s in signs {
        for p in prefixes {
            for d in digits {
                for f in fracs {
                    for e in exps {
                        for j in junk {
                            if (!p.is_empty()) && (!f.is_empty() || !e.is_empty()) && j.is_empty() && d != "7f" {
                                // keep the prefixed floats small in number
                                if !(f == ".5" && e.is_empty()) {
                                    continue;
                                }
                            }
                            out.push(format!("{s}{p}{d}{f}{e}{j}"));
                            if !j.is_empty() {
                                out.push(format!("{j}{s}{p}{d}{f}{e}"));
                            }
                        }
                    }
                }
            }
        }
    }
    for x in ["inf", "-inf", "nan", "NaN", "infinity", "é", "١٢٣", "1 2", "--1", "0x-5", "0b2", "0o8", "0xg", "1e400", "-0", "-0.0", "1_000"] {
        out.push(x.to_string());
    }
    out.sort();
    out.dedup();
    out
}

fn all_digits(s: &str, base: u32) -> bool {
    !s.is_empty() && s.chars().all(|c| c.is_digit(base))
}

fn parse_radix(s: &str, base: u32) -> Option<i64> {
    // independent of i64::from_str_radix: accumulate in i128
    let mut acc: i128 = 0;
    for c in s.chars() {
        acc = acc * base as i128 + c.to_digit(base)? as i128;
        if acc > i64::MAX as i128 + 1 {
            return None;
        }
    }
    i64::try_from(acc).ok()
}

enum NumExp {
    Int(i64),
    Float(f64),
    Null,
    Error,
    Unjudged,
}

fn to_number_expected(s: &str) -> NumExp {
    for (p, base) in [("0x", 16), ("0o", 8), ("0b", 2)] {
        if let Some(d) = s.strip_prefix(p) {
            return if all_digits(d, base) {
                match parse_radix(d, base) {
                    Some(n) => NumExp::Int(n),
                    None => NumExp::Unjudged,
                }
            } else if d.starts_with(['+', '-']) {
                NumExp::Unjudged
            } else {
                NumExp::Null
            };
        }
    }
    if s.starts_with('+') {
        return NumExp::Unjudged;
    }
    let (neg, body) = match s.strip_prefix('-') {
        Some(b) => (true, b),
        None => (false, s),
    };
    if all_digits(body, 10) {
        return match parse_radix(body, 10) {
            Some(n) => NumExp::Int(if neg { -n } else { n }),
            None => {
                if neg && body.trim_start_matches('0') == "9223372036854775808" {
                    NumExp::Int(i64::MIN)
                } else {
                    NumExp::Unjudged // beyond i64: float or null, the guide does not say
                }
            }
        };
    }
    // decimal point forms: digits '.' digits with at least one digit, optional exponent
    let (mant, exp) = match body.find(['e', 'E']) {
        Some(i) => (&body[..i], Some(&body[i + 1..])),
        None => (body, None),
    };
    let exp_ok = match exp {
        None => true,
        Some(e) => {
            let e = e.strip_prefix(['-', '+']).unwrap_or(e);
            all_digits(e, 10)
        }
    };
    if let Some((i, f)) = mant.split_once('.') {
        let digits_ok = (i.is_empty() || all_digits(i, 10)) && (f.is_empty() || all_digits(f, 10)) && !(i.is_empty() && f.is_empty());
        if digits_ok && exp_ok {
            return match s.parse::<f64>() {
                Ok(x) => NumExp::Float(x),
                Err(_) => NumExp::Unjudged,
            };
        }
        return NumExp::Null;
    }
    if all_digits(mant, 10) && exp.is_some() && exp_ok {
        return NumExp::Unjudged; // exponent without a decimal point
    }
    let l = body.to_ascii_lowercase();
    if l == "inf" || l == "nan" || l == "infinity" {
        return NumExp::Unjudged;
    }
    NumExp::Null
}

fn to_number_base_expected(s: &str, base: i64) -> NumExp {
    if !(2..=36).contains(&base) {
        return NumExp::Error;
    }
    if s.starts_with('+') {
        return NumExp::Unjudged;
    }
    let (neg, body) = match s.strip_prefix('-') {
        Some(b) => (true, b),
        None => (false, s),
    };
    if !all_digits(body, base as u32) {
        return NumExp::Null;
    }
    match parse_radix(body, base as u32) {
        Some(n) => NumExp::Int(if neg { -n } else { n }),
        None => NumExp::Unjudged,
    }
}

fn eval_to_number(strs: &[String]) -> (usize, Vec<Fail>) {
    let mut script = String::from(PRELUDE);
    // numbers are printed with their kind: integers as i<n>; floats as f<text>;
    script.push_str("show = |v|\n  match v\n    null then 'n'\n    x if (type x) == 'Number' then if x == x.floor() and '{x}'.contains('.') == false and '{x}' != 'inf' and '{x}' != '-inf' then 'i{x};' else 'f{x};'\n    else '?'\ntn = |f|\n  try\n    show f()\n  catch _\n    'E'\n");
    let mut expected: Vec<(String, NumExp)> = vec![];
    for s in strs {
        let lit = koto_lit(s);
        script.push_str(&format!("print tn || {lit}.to_number()\n"));
        expected.push((format!("{lit}.to_number()"), to_number_expected(s)));
        for base in [0i64, 1, 2, 8, 10, 16, 36, 37] {
            script.push_str(&format!("print tn || {lit}.to_number({base})\n"));
            expected.push((format!("{lit}.to_number({base})"), to_number_base_expected(s, base)));
        }
    }
    let out = kx::run(&script, &RunOpts::default());
    let mut fails = vec![];
    if !out.outcome.is_ok() {
        fails.push(Fail::new("c15:to_number:batch-error", format!("{:?}", out.outcome)));
        return (0, fails);
    }
    let lines: Vec<&str> = out.stdout.lines().collect();
    if lines.len() != expected.len() {
        fails.push(Fail::new("c15:protocol", format!("expected {} lines, got {}", expected.len(), lines.len())));
        return (0, fails);
    }
    let mut judged = 0;
    for ((expr, e), got) in expected.iter().zip(lines) {
        let ok = match e {
            NumExp::Unjudged => continue,
            NumExp::Null => got == "n",
            NumExp::Error => got == "E",
            NumExp::Int(n) => got == format!("i{n};"),
            NumExp::Float(x) => got.strip_prefix('f').and_then(|g| g.strip_suffix(';')).and_then(|g| g.parse::<f64>().ok()).map(|g| g == *x || (g.is_nan() && x.is_nan())).unwrap_or(false) || (x.fract() == 0.0 && got.strip_prefix('i').is_some() && false),
        };
        judged += 1;
        if !ok {
            let want = match e {
                NumExp::Null => "null".to_string(),
                NumExp::Error => "an error".to_string(),
                NumExp::Int(n) => format!("the integer {n}"),
                NumExp::Float(x) => format!("the float {x:?}"),
                NumExp::Unjudged => unreachable!(),
            };
            let sig = if expr.ends_with("()") { "c15:to_number" } else { "c15:to_number:base" };
            if !fails.iter().any(|f: &Fail| f.sig == sig) {
                fails.push(Fail::new(sig, format!("`{expr}` gave {got:?}, expected {want}")));
            }
        }
    }
    (judged, fails)
}

// ---------------------------------------------------------------------------------------------

fn eval_split_empty() -> Eval {
    // `split ''` : the property's re-join law cannot hold for an endless sequence of empty pieces
    let script = "print 'ab'.split('').take(20).count()\n";
    let out = kx::run(script, &RunOpts { limit_ms: Some(2000), ..Default::default() });
    let mut ev = Eval::pass(true).class("split-empty-pattern");
    if out.outcome.is_ok() && out.stdout.trim() == "20" {
        ev.fail = Some(Fail::new("c15:split-empty-pattern", "'ab'.split('') yields an endless sequence of empty strings (20 taken), so `to_tuple` never returns and the pieces do not re-join to the input"));
    }
    ev
}

fn run_shard(ctx: &mut Ctx) {
    let quick = ctx.quick();
    let mut idx = 0u64;
    // (a) strings, shortest first
    let max_len = if quick { 4 } else { 5 };
    let mut total = 0u64;
    for len in 0..=max_len {
        let count = ALPHABET.len().pow(len as u32);
        for code in 0..count {
            let mut ix = vec![0usize; len];
            let mut c = code;
            for k in (0..len).rev() {
                ix[k] = c % ALPHABET.len();
                c /= ALPHABET.len();
            }
            for rep in 0..REPS {
                // the longest strings meet one (rotated) representation each
                if len == max_len && rep != code % REPS {
                    continue;
                }
                idx += 1;
                total += 1;
                if ctx.mine(idx) && !ctx.too_many_failures() {
                    run_string_batch(ctx, &ix, rep);
                }
            }
        }
    }
    if ctx.shard == 0 {
        ctx.st.exhaustive_spaces.insert(format!("strings of <= {max_len} characters over the 10-symbol alphabet x representations (string batches)"), total);
        let case = json!({"kind": "split-empty"});
        ctx.run_case(&case, eval_split_empty);
    }
    // (a') sampled longer strings over the wide alphabet
    {
        use proptest::prelude::*;
        use proptest::strategy::ValueTree;
        let n = ctx.tier.pick(3_000u64, 150_000u64);
        let strat = (proptest::collection::vec(0usize..WIDE.len(), 4..=9), 0usize..REPS);
        for i in 0..n {
            if !ctx.mine(i) || ctx.too_many_failures() {
                continue;
            }
            let mut runner = seeded_runner(ctx.sub_seed("wide", i));
            let (cs, rep) = strat.new_tree(&mut runner).unwrap().current();
            let ix: Vec<usize> = cs.into_iter().map(|c| c + 100).collect();
            run_string_batch(ctx, &ix, rep);
        }
    }
    // (b) format grid
    let specs = all_specs();
    let nvals = format_values().len();
    let chunk = 160;
    let mut fidx = 0u64;
    for vi in 0..nvals {
        for (ci, start) in (0..specs.len()).step_by(chunk).enumerate() {
            // quick: every value sees a third of the grid (rotated), so that every spec meets 12 values
            if false && quick && (ci + vi) % 3 != 0 {
                continue;
            }
            fidx += 1;
            if ctx.mine(fidx) && !ctx.too_many_failures() {
                let end = (start + chunk).min(specs.len());
                run_format_batch(ctx, vi, start, &specs[start..end]);
            }
        }
    }
    if ctx.shard == 0 {
        ctx.st.exhaustive_spaces.insert("format specs (grammar-valid grid)".into(), specs.len() as u64);
    }
    // (c) escapes
    let nparts = escape_parts().len();
    let mut eidx = 0u64;
    let max_parts = 3;
    for len in 1..=max_parts {
        let count = nparts.pow(len as u32);
        for code in 0..count {
            let mut parts = vec![0usize; len];
            let mut c = code;
            for k in (0..len).rev() {
                parts[k] = c % nparts;
                c /= nparts;
            }
            for quote in ['\'', '"'] {
                // quick: three-part literals alternate between the quote kinds
                if quick && len == 3 && (quote == '"') != (code % 2 == 0) {
                    continue;
                }
                eidx += 1;
                if !ctx.mine(eidx) || ctx.too_many_failures() {
                    continue;
                }
                // the literal must not contain its own unescaped quote: none of the raw parts is a quote
                let case = json!({"kind": "escape", "parts": parts, "quote": quote.to_string()});
                let p2 = parts.clone();
                ctx.run_case(&case, move || eval_escape(&p2, quote));
            }
        }
    }
    // (d) to_number
    let strs = number_strings();
    for (bi, chunk) in strs.chunks(40).enumerate() {
        if !ctx.mine(bi as u64) || ctx.too_many_failures() {
            continue;
        }
        let desc = json!({"kind": "to_number-batch", "strings": chunk});
        if !ctx.begin_batch(&desc) {
            continue;
        }
        let (judged, fails) = match guarded(|| eval_to_number(chunk)) {
            Ok(r) => r,
            Err((loc, msg)) => (0, vec![Fail::new(panic_sig(&loc, &msg), format!("panic at {loc}: {msg}"))]),
        };
        ctx.count_class("to_number-ops-judged", judged as u64);
        for f in &fails {
            // isolate the string
            let mut cj = json!({"kind": "to_number-batch", "strings": chunk, "sig": f.sig});
            let mut ff = f.clone();
            for s in chunk {
                if let Ok((_, fs)) = guarded(|| eval_to_number(std::slice::from_ref(s))) {
                    if let Some(g) = fs.into_iter().find(|g| g.sig == f.sig) {
                        cj = json!({"kind": "to_number-batch", "strings": [s], "sig": f.sig});
                        ff = g;
                        break;
                    }
                }
            }
            let mut ev = Eval::pass(true);
            ev.fail = Some(ff);
            ctx.batch_item(hash_value(&cj), &ev, &|| cj.clone());
        }
        if fails.is_empty() {
            let ev = Eval::pass(true).class("to_number-batch");
            ctx.batch_item(hash_value(&desc), &ev, &|| desc.clone());
        }
        ctx.end_batch(desc);
    }
}

fn replay(case: &Value) -> Option<Fail> {
    let want_sig = case["sig"].as_str();
    let pick = |fs: Vec<Fail>| -> Option<Fail> {
        match want_sig {
            Some(s) => fs.iter().find(|f| f.sig == s).cloned().or_else(|| fs.into_iter().next()),
            None => fs.into_iter().next(),
        }
    };
    match case["kind"].as_str()? {
        "str" => {
            let ix: Vec<usize> = case["s"].as_array()?.iter().filter_map(|x| x.as_u64().map(|x| x as usize)).collect();
            let rep = case["rep"].as_u64()? as usize;
            pick(eval_string(&string_of(&ix), rep).1)
        }
        "format" | "format-batch" => {
            let vi = case["value"].as_u64()? as usize;
            let specs = all_specs();
            if let Some(i) = case["spec_index"].as_u64() {
                let sp = specs.get(i as usize)?.clone();
                pick(eval_format(vi, &[sp]).2.into_iter().map(|x| x.1).collect())
            } else {
                let start = case["first_spec"].as_u64()? as usize;
                let n = case["n"].as_u64()? as usize;
                pick(eval_format(vi, &specs[start..(start + n).min(specs.len())]).2.into_iter().map(|x| x.1).collect())
            }
        }
        "escape" => {
            let parts: Vec<usize> = case["parts"].as_array()?.iter().filter_map(|x| x.as_u64().map(|x| x as usize)).collect();
            let quote = case["quote"].as_str()?.chars().next()?;
            eval_escape(&parts, quote).fail
        }
        "to_number-batch" => {
            let strs: Vec<String> = case["strings"].as_array()?.iter().filter_map(|x| x.as_str().map(|s| s.to_string())).collect();
            pick(eval_to_number(&strs).1)
        }
        "split-empty" => eval_split_empty().fail,
        _ => None,
    }
}

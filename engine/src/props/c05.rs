//! C05 — accepted programs compile to well-formed code; limits are reported; compilation is deterministic
use crate::core::*;
use crate::kx::{self, RunOpts};
use crate::textgen;
use koto::prelude::*;
use koto::Ptr;
use koto_bytecode::{Instruction, InstructionReader};
use koto_parser::Constant;
use serde_json::{Value, json};
use std::collections::{BTreeMap, HashMap};

pub static PROP: Prop = Prop {
    id: "C05",
    rule: "Every program the parser accepts from: the repository corpus; its single-token mutation neighbourhood (quick: seeded 10% sample, thorough: all; most are rejected by the parser and only counted); generated programs of the core / functions / match / error profiles; and size-scaled programs that walk across each encoding limit (locals, temporaries via nesting depth and argument count, captures, defaults, function arguments, constants at the varint widths, import item lists, loop / branch / function bodies around 64 KiB, multi-assignment targets), plus a byte-granular walk across the 64 KiB jump limit for each body kind (the largest body that compiles is bisected, then 2- and 3-byte filler statements step the body size through every value from 4 bytes below three statements' worth under it to beyond the limit). Oracle: a structural verifier over Chunk.bytes/constants through the public InstructionReader — (1) linear decode consumes the chunk exactly with no Error instruction, (2) function extents nest and each body starts with NewFrame, (3) every jump-like operand lands on an instruction boundary of the same function extent and not inside a nested body, (4) every register operand and call window is below the frame's register count, (5) constant operands are in range and of the kind the instruction reads, (6) an abstract interpretation of (sequence-builder, string-builder, try) depths over the control-flow graph agrees at joins, never goes negative and is zero at Return, (7) compiling the same text twice in the process and once in a forked process yields identical bytes and constants, (8) running never reports an internal fault (unexpected error, missing builder, empty call stack, register access out of bounds), (9) size-scaled programs either fail to compile with a user-facing error or are verifier-clean and produce their closed-form result. Non-trivial: the chunk contains a nested function or >= 3 jumps (size-scaled cases always count).",
    assumptions: &[
        "known shape control-exit-inside-builder (return/break/continue inside a half-built string or sequence) is matched by a token-level predicate and reported as a known finding",
        "internal-fault detection for (8) is by error text (the error kinds are not public API)",
    ],
    shards: |_| 14,
    run_shard,
    replay,
    min_nontrivial_fraction: 0.05,
};

#[derive(Clone, Copy, Default, PartialEq, Eq, Debug)]
struct Depths {
    seq: i32,
    string: i32,
    tries: i32,
}

struct Ins {
    start: usize,
    end: usize,
    ins: Instruction,
}

fn regs_of(i: &Instruction) -> Vec<u8> {
    use Instruction::*;
    match i {
        Copy { target, source } => vec![*target, *source],
        SetNull { register } | SetBool { register, .. } | SetNumber { register, .. } | LoadFloat { register, .. } | LoadInt { register, .. } | LoadString { register, .. } | LoadNonLocal { register, .. } => vec![*register],
        ExportValue { key, value } => vec![*key, *value],
        ExportEntry { entry } => vec![*entry],
        Import { register } | ImportAll { register } => vec![*register],
        MakeTempTuple { register, start, count } => {
            let mut v = vec![*register];
            if *count > 0 {
                v.push(*start);
                v.push(start.saturating_add(*count - 1));
            }
            v
        }
        TempTupleToTuple { register, source } => vec![*register, *source],
        MakeMap { register, .. } => vec![*register],
        SequencePush { value } => vec![*value],
        SequencePushN { start, count } => {
            if *count > 0 {
                vec![*start, start.saturating_add(*count - 1)]
            } else {
                vec![]
            }
        }
        SequenceToList { register } | SequenceToTuple { register } => vec![*register],
        Range { register, start, end } | RangeInclusive { register, start, end } => vec![*register, *start, *end],
        RangeTo { register, end } | RangeToInclusive { register, end } => vec![*register, *end],
        RangeFrom { register, start } => vec![*register, *start],
        RangeFull { register } => vec![*register],
        MakeIterator { register, iterable } => vec![*register, *iterable],
        Function { register, .. } => vec![*register],
        Capture { function, source, .. } => vec![*function, *source],
        Negate { register, value } | Not { register, value } | Size { register, value } => vec![*register, *value],
        Add { register, lhs, rhs }
        | Subtract { register, lhs, rhs }
        | Multiply { register, lhs, rhs }
        | Divide { register, lhs, rhs }
        | Remainder { register, lhs, rhs }
        | Power { register, lhs, rhs }
        | Less { register, lhs, rhs }
        | LessOrEqual { register, lhs, rhs }
        | Greater { register, lhs, rhs }
        | GreaterOrEqual { register, lhs, rhs }
        | Equal { register, lhs, rhs }
        | NotEqual { register, lhs, rhs } => vec![*register, *lhs, *rhs],
        AddAssign { lhs, rhs } | SubtractAssign { lhs, rhs } | MultiplyAssign { lhs, rhs } | DivideAssign { lhs, rhs } | RemainderAssign { lhs, rhs } | PowerAssign { lhs, rhs } => vec![*lhs, *rhs],
        JumpIfTrue { register, .. } | JumpIfFalse { register, .. } | JumpIfNull { register, .. } => vec![*register],
        Call { result, function, frame_base, arg_count, packed_arg_count } => {
            vec![*result, *function, *frame_base, frame_base.saturating_add(*arg_count).saturating_add(*packed_arg_count)]
        }
        CallInstance { result, function, instance, frame_base, arg_count, packed_arg_count } => {
            vec![*result, *function, *instance, *frame_base, frame_base.saturating_add(*arg_count).saturating_add(*packed_arg_count)]
        }
        Return { register } | Yield { register } | Throw { register } => vec![*register],
        IterNext { result, iterator, .. } => {
            let mut v = vec![*iterator];
            if let Some(r) = result {
                v.push(*r);
            }
            v
        }
        TempIndex { register, value, .. } | SliceFrom { register, value, .. } | SliceTo { register, value, .. } => vec![*register, *value],
        Index { register, value, index } => vec![*register, *value, *index],
        IndexMut { register, index, value } => vec![*register, *index, *value],
        MetaInsert { register, value, .. } => vec![*register, *value],
        MetaInsertNamed { register, value, name, .. } => vec![*register, *value, *name],
        MetaExport { value, .. } => vec![*value],
        MetaExportNamed { name, value, .. } => vec![*name, *value],
        Access { register, value, .. } | TryAccess { register, value, .. } => vec![*register, *value],
        AccessString { register, value, key } | TryAccessString { register, value, key, .. } => vec![*register, *value, *key],
        AccessAssign { register, key, value } => vec![*register, *key, *value],
        TryStart { arg_register, .. } => vec![*arg_register],
        Debug { register, .. } | CheckSizeEqual { register, .. } | CheckSizeMin { register, .. } => vec![*register],
        AssertType { value, .. } | CheckType { value, .. } => vec![*value],
        StringPush { value, .. } => vec![*value],
        StringFinish { register } => vec![*register],
        _ => vec![],
    }
}

/// (constant index, expected kind) read by an instruction: 'f' float, 'i' int, 's' string
fn consts_of(i: &Instruction) -> Vec<(usize, char)> {
    use Instruction::*;
    match i {
        LoadFloat { constant, .. } => vec![(usize::from(*constant), 'f')],
        LoadInt { constant, .. } => vec![(usize::from(*constant), 'i')],
        LoadString { constant, .. } | LoadNonLocal { constant, .. } => vec![(usize::from(*constant), 's')],
        Access { key, .. } | TryAccess { key, .. } => vec![(usize::from(*key), 's')],
        Debug { constant, .. } => vec![(usize::from(*constant), 's')],
        AssertType { type_string, .. } | CheckType { type_string, .. } => vec![(usize::from(*type_string), 's')],
        _ => vec![],
    }
}

/// forward jump offsets of an instruction (relative to the ip after it); (offset, is_catch)
fn forward_jumps(i: &Instruction) -> Vec<(usize, bool)> {
    use Instruction::*;
    match i {
        Jump { offset } | JumpIfTrue { offset, .. } | JumpIfFalse { offset, .. } | JumpIfNull { offset, .. } => vec![(*offset as usize, false)],
        IterNext { jump_offset, .. } | TryAccess { jump_offset, .. } | TryAccessString { jump_offset, .. } | CheckType { jump_offset, .. } => vec![(*jump_offset as usize, false)],
        TryStart { catch_offset, .. } => vec![(*catch_offset as usize, true)],
        _ => vec![],
    }
}

pub struct VerifyStats {
    pub functions: usize,
    pub jumps: usize,
    pub instructions: usize,
}

/// The structural verifier. Err((clause, detail)).
pub fn verify(chunk: &Ptr<koto_bytecode::Chunk>) -> Result<VerifyStats, (String, String)> {
    let len = chunk.bytes.len();
    // (1) linear decode
    let mut reader = InstructionReader::new(chunk.clone());
    let mut ins: Vec<Ins> = vec![];
    let mut at: HashMap<usize, usize> = HashMap::new();
    loop {
        let start = reader.ip;
        if start >= len {
            break;
        }
        let Some(i) = reader.next() else { break };
        if let Instruction::Error { message } = &i {
            return Err(("decode".into(), format!("Error instruction at ip {start}: {message}")));
        }
        if reader.ip <= start || reader.ip > len {
            return Err(("decode".into(), format!("instruction at ip {start} does not advance within the chunk (next ip {}, len {len})", reader.ip)));
        }
        at.insert(start, ins.len());
        ins.push(Ins { start, end: reader.ip, ins: i });
    }
    if ins.last().map(|i| i.end).unwrap_or(0) != len {
        return Err(("decode".into(), format!("linear decode stops at {} of {len} bytes", ins.last().map(|i| i.end).unwrap_or(0))));
    }
    // (2) function extents
    struct Ext {
        start: usize,
        end: usize,
        regs: usize,
    }
    let mut extents: Vec<Ext> = vec![Ext { start: 0, end: len, regs: 0 }];
    let mut owner: Vec<usize> = vec![0; ins.len()];
    {
        let mut stack: Vec<usize> = vec![0];
        for (k, i) in ins.iter().enumerate() {
            while let Some(&top) = stack.last() {
                if i.start >= extents[top].end {
                    stack.pop();
                } else {
                    break;
                }
            }
            let Some(&cur) = stack.last() else { return Err(("extent".into(), format!("instruction at {} outside every function extent", i.start))) };
            owner[k] = cur;
            if i.end > extents[cur].end {
                return Err(("extent".into(), format!("instruction at {} crosses the end of its function body ({})", i.start, extents[cur].end)));
            }
            if let Instruction::Function { size, .. } = &i.ins {
                let (s, e) = (i.end, i.end + *size as usize);
                if e > extents[cur].end {
                    return Err(("extent".into(), format!("function body {s}..{e} declared at {} exceeds its parent's extent (ends at {})", i.start, extents[cur].end)));
                }
                if *size == 0 || !at.contains_key(&s) {
                    return Err(("extent".into(), format!("function body at {s} is empty or does not start on an instruction")));
                }
                extents.push(Ext { start: s, end: e, regs: 0 });
                stack.push(extents.len() - 1);
            }
        }
    }
    // each extent starts with NewFrame
    for x in extents.iter_mut() {
        if x.start == x.end {
            continue;
        }
        match at.get(&x.start).map(|k| &ins[*k].ins) {
            Some(Instruction::NewFrame { register_count }) => x.regs = *register_count as usize,
            other => return Err(("extent".into(), format!("function body at {} starts with {:?} instead of NewFrame", x.start, other.map(|i| format!("{i:?}").chars().take(40).collect::<String>())))),
        }
    }
    // (3) jumps, (4) registers, (5) constants
    let mut jumps = 0usize;
    let mut succ: Vec<Vec<(usize, bool)>> = vec![vec![]; ins.len()];
    let mut falls_off: Vec<bool> = vec![false; ins.len()];
    for (k, i) in ins.iter().enumerate() {
        let ext = &extents[owner[k]];
        let mut targets: Vec<(i64, bool)> = forward_jumps(&i.ins).into_iter().map(|(o, c)| ((i.end + o) as i64, c)).collect();
        if let Instruction::JumpBack { offset } = &i.ins {
            targets.push((i.end as i64 - *offset as i64, false));
        }
        for (t, is_catch) in &targets {
            jumps += 1;
            let what = format!("{:?}", i.ins).chars().take(60).collect::<String>();
            if *t == ext.end as i64 {
                return Err(("jump-to-end".into(), format!("{what} at {} targets {t}, the end of its function extent (no instruction there)", i.start)));
            }
            if *t < ext.start as i64 || *t >= ext.end as i64 {
                return Err(("jump".into(), format!("{what} at {} targets {t}, outside its function extent {}..{}", i.start, ext.start, ext.end)));
            }
            let Some(&tk) = at.get(&(*t as usize)) else {
                return Err(("jump".into(), format!("{what} at {} targets {t}, which is not an instruction boundary", i.start)));
            };
            if owner[tk] != owner[k] {
                return Err(("jump".into(), format!("{what} at {} targets {t}, inside a nested function body", i.start)));
            }
            succ[k].push((tk, *is_catch));
        }
        for r in regs_of(&i.ins) {
            if r as usize >= ext.regs {
                return Err(("register".into(), format!("{:?} at {} uses register {r} but the frame declares {} registers", i.ins, i.start, ext.regs).chars().take(300).collect()));
            }
        }
        for (c, kind) in consts_of(&i.ins) {
            match (chunk.constants.get(c), kind) {
                (Some(Constant::F64(_)), 'f') | (Some(Constant::I64(_)), 'i') | (Some(Constant::Str(_)), 's') => {}
                (None, _) => return Err(("constant".into(), format!("{:?} at {} reads constant {c}, pool has {}", i.ins, i.start, chunk.constants.size()))),
                (Some(other), k) => return Err(("constant".into(), format!("{:?} at {} reads constant {c} as kind '{k}' but it is {:?}", i.ins, i.start, other).chars().take(300).collect())),
            }
        }
        // fallthrough successors
        use Instruction::*;
        let falls = !matches!(i.ins, Jump { .. } | JumpBack { .. } | Return { .. } | Throw { .. });
        if falls {
            let next_ip = match &i.ins {
                Function { size, .. } => i.end + *size as usize,
                _ => i.end,
            };
            if next_ip < ext.end {
                match at.get(&next_ip) {
                    Some(&nk) => succ[k].push((nk, false)),
                    None => return Err(("extent".into(), format!("fallthrough from {} to {next_ip} is not an instruction boundary", i.start))),
                }
            } else {
                falls_off[k] = true;
            }
        }
    }
    // (6) builder / try depths by abstract interpretation per extent
    let mut state: Vec<Option<Depths>> = vec![None; ins.len()];
    for x in &extents {
        if x.start == x.end {
            continue;
        }
        let entry = at[&x.start];
        state[entry] = Some(Depths::default());
        let mut work = vec![entry];
        while let Some(k) = work.pop() {
            let d_in = state[k].unwrap();
            let mut d = d_in;
            use Instruction::*;
            if falls_off[k] {
                // reachable code runs past the end of its function body
                return Err(("falls-off-end".into(), format!("control falls off the end of the function extent {}..{} after the reachable instruction {:?} at {}", x.start, x.end, ins[k].ins, ins[k].start).chars().take(300).collect()));
            }
            match &ins[k].ins {
                SequenceStart { .. } => d.seq += 1,
                SequenceToList { .. } | SequenceToTuple { .. } => d.seq -= 1,
                SequencePush { .. } | SequencePushN { .. } => {
                    if d.seq <= 0 {
                        return Err(("builder".into(), format!("SequencePush at {} without an open sequence builder", ins[k].start)));
                    }
                }
                StringStart { .. } => d.string += 1,
                StringFinish { .. } => d.string -= 1,
                StringPush { .. } => {
                    if d.string <= 0 {
                        return Err(("builder".into(), format!("StringPush at {} without an open string builder", ins[k].start)));
                    }
                }
                TryStart { .. } => d.tries += 1,
                TryEnd => d.tries -= 1,
                Return { .. } => {
                    if d.seq != 0 || d.string != 0 {
                        return Err(("builder-open-at-return".into(), format!("Return at {} with open builders {:?}", ins[k].start, d)));
                    }
                }
                _ => {}
            }
            if d.seq < 0 || d.string < 0 || d.tries < 0 {
                return Err(("builder".into(), format!("{:?} at {} makes a depth negative: {:?}", ins[k].ins, ins[k].start, d).chars().take(300).collect()));
            }
            for (t, is_catch) in &succ[k] {
                // the catch edge resumes with the builder depths of the TryStart (the VM restores them)
                let out = if *is_catch { Depths { tries: d_in.tries + 1, ..d_in } } else { d };
                match state[*t] {
                    None => {
                        state[*t] = Some(out);
                        work.push(*t);
                    }
                    Some(prev) => {
                        if prev != out {
                            return Err(("builder-depth-mismatch-at-join".into(), format!("paths reach ip {} with different depths: {:?} vs {:?} (from ip {})", ins[*t].start, prev, out, ins[k].start)));
                        }
                    }
                }
            }
        }
    }
    Ok(VerifyStats { functions: extents.len() - 1, jumps, instructions: ins.len() })
}

pub fn chunk_hash(chunk: &koto_bytecode::Chunk) -> u64 {
    let mut h = fnv(&chunk.bytes);
    h ^= fnv(format!("{}", chunk.constants).as_bytes()).rotate_left(17);
    h
}

/// token-level predicate for the known shape "control exit inside an expression":
/// return/break/continue at bracket depth > 0, inside a string template, or in operand position
/// (preceded on its line by anything but `then`, `else`, a function header or nothing)
pub fn control_exit_inside_builder(src: &str) -> bool {
    use koto_lexer::Token;
    let mut depth = 0i32;
    let mut in_string = 0i32;
    let mut prev: Option<Token> = None; // previous significant token on this line
    for t in crate::textgen::lex_all(src) {
        match t.token {
            Token::Whitespace | Token::CommentSingle | Token::CommentMulti => continue,
            Token::NewLine => {
                prev = None;
                continue;
            }
            Token::RoundOpen | Token::SquareOpen | Token::CurlyOpen => depth += 1,
            Token::RoundClose | Token::SquareClose | Token::CurlyClose => depth -= 1,
            Token::StringStart(_) => in_string += 1,
            Token::StringEnd => in_string -= 1,
            Token::Return | Token::Break | Token::Continue => {
                let operand = !matches!(prev, None | Some(Token::Then) | Some(Token::Else) | Some(Token::Function));
                if depth > 0 || in_string > 0 || operand {
                    return true;
                }
            }
            Token::Error => break,
            _ => {}
        }
        prev = Some(t.token);
    }
    false
}

const INTERNAL_FAULTS: [&str; 7] = ["an unexpected error occurred", "missing sequence builder", "missing string builder", "empty call stack", "Unexpected opcode", "Instruction access out of bounds", "Out of bounds access"];

pub struct TextResult {
    pub parsed: bool,
    pub compiled: bool,
    pub stats: Option<VerifyStats>,
    pub hash: u64,
    pub fail: Option<Fail>,
}

/// Compile a text and check clauses (1)-(7 in-process) and optionally (8)
pub fn check_text(src: &str, run: bool) -> TextResult {
    let mut r = TextResult { parsed: false, compiled: false, stats: None, hash: 0, fail: None };
    if koto_parser::Parser::parse(src).is_err() {
        return r;
    }
    r.parsed = true;
    let cap = kx::Capture::default();
    let opts = RunOpts { limit_ms: Some(50), ..Default::default() };
    let mut koto = Koto::with_settings(kx::settings(&cap, &opts));
    crate::props::c06::sandbox(&mut koto);
    let chunk = match koto.compile(kx::compile_args(src, &opts)) {
        Ok(c) => c,
        Err(_) => return r, // a user-facing compile error is an allowed outcome
    };
    r.compiled = true;
    r.hash = chunk_hash(&chunk);
    let shape = control_exit_inside_builder(src) || koto_parser::Parser::parse(src).map(|ast| crate::astwalk::control_exit_inside_expression(&ast)).unwrap_or(false);
    match verify(&chunk) {
        Ok(s) => r.stats = Some(s),
        Err((clause, detail)) => {
            let sig = if shape && (clause.starts_with("builder") || clause == "jump-to-end" || clause == "falls-off-end") { format!("c05:{clause}:control-exit-inside-expression") } else { format!("c05:{clause}") };
            r.fail = Some(Fail::new(sig, detail));
            return r;
        }
    }
    // (7) determinism within the process
    let mut koto2 = Koto::with_settings(kx::settings(&kx::Capture::default(), &opts));
    match koto2.compile(kx::compile_args(src, &opts)) {
        Ok(c2) => {
            let h2 = chunk_hash(&c2);
            if h2 != r.hash {
                r.fail = Some(Fail::new("c05:nondeterministic", format!("two compilations of the same text in one process differ (hash {:x} vs {h2:x})", r.hash)));
                return r;
            }
        }
        Err(e) => {
            r.fail = Some(Fail::new("c05:nondeterministic", format!("second compilation failed: {e}")));
            return r;
        }
    }
    // (8) dynamic internal faults
    if run && !spins(src) {
        if let Err(e) = koto.run(chunk) {
            let msg = e.to_string();
            if let Some(m) = INTERNAL_FAULTS.iter().find(|m| msg.contains(**m)) {
                let sig = if shape { format!("c05:internal-fault:{m}:control-exit-inside-expression") } else { format!("c05:internal-fault:{m}") };
                r.fail = Some(Fail::new(sig, format!("running reported an internal fault: {}", msg.chars().take(300).collect::<String>())));
            }
        }
    }
    r
}

fn eval_zoo(src: &str, expected: Option<&str>) -> Eval {
    let mut ev = eval_text(src, "zoo", false);
    ev.nontrivial = true;
    if ev.fail.is_some() {
        return ev;
    }
    let out = kx::run(src, &RunOpts { limit_ms: Some(2000), ..Default::default() });
    let msg = match &out.outcome {
        kx::Outcome::Ok(_) => String::new(),
        kx::Outcome::RunErr(m) | kx::Outcome::CompileErr(m, _) => m.clone(),
    };
    if let Some(m) = INTERNAL_FAULTS.iter().find(|m| msg.contains(**m)) {
        ev.fail = Some(Fail::new(format!("c05:internal-fault:{m}"), format!("running reported an internal fault: {}\n{src}", msg.chars().take(300).collect::<String>())));
    } else if let Some(e) = expected {
        if out.stdout != e {
            ev.fail = Some(Fail::new("c05:zoo-output", format!("expected stdout {e:?}, got {:?} ({})\n{src}", out.stdout, out.outcome.class())));
        }
    }
    ev
}

fn spins(src: &str) -> bool {
    ["repeat", "cycle", "generate", "resize", "fill", "expanded", "pow", "import", "stdin", "yield"].iter().any(|w| src.contains(w)) || src.contains("..")
}

fn eval_text(src: &str, class: &'static str, run: bool) -> Eval {
    let r = check_text(src, run);
    if !r.parsed {
        return Eval { discard: true, classes: vec!["rejected-by-parser"], ..Default::default() };
    }
    let mut ev = Eval::pass(false).class(class);
    if !r.compiled {
        ev.classes.push("compile-error");
        return ev;
    }
    if let Some(s) = &r.stats {
        ev.nontrivial = s.functions > 0 || s.jumps >= 3;
    }
    ev.fail = r.fail;
    ev
}

// ---------------------------------------------------------------------------------------------
// size-scaled programs

/// (name, source, expected stdout if it compiles)
pub fn limit_case(kind: &str, n: usize) -> (String, Option<String>) {
    let mut s = String::new();
    match kind {
        "locals-top" | "locals-fn" => {
            let ind = if kind == "locals-fn" { "  " } else { "" };
            if kind == "locals-fn" {
                s.push_str("f = ||\n");
            }
            for i in 0..n {
                s.push_str(&format!("{ind}v{i} = {i}\n"));
            }
            let last = n - 1;
            s.push_str(&format!("{ind}print v0 + v{last}\n"));
            if kind == "locals-fn" {
                s.push_str("f()\n");
            }
            (s, Some(format!("{}\n", last)))
        }
        "nesting" => {
            // temporaries through right-nested additions
            s.push_str("x = 1\nprint ");
            for _ in 0..n {
                s.push_str("x + (");
            }
            s.push('x');
            for _ in 0..n {
                s.push(')');
            }
            s.push('\n');
            (s, Some(format!("{}\n", n + 1)))
        }
        "call-args" => {
            s.push_str("f = |args...| size args\nprint f(");
            s.push_str(&(0..n).map(|i| i.to_string()).collect::<Vec<_>>().join(", "));
            s.push_str(")\n");
            (s, Some(format!("{n}\n")))
        }
        "fn-args" => {
            s.push_str("f = |");
            s.push_str(&(0..n).map(|i| format!("a{i}")).collect::<Vec<_>>().join(", "));
            s.push_str(&format!("| a0 + a{}\nprint f(", n - 1));
            s.push_str(&(0..n).map(|i| i.to_string()).collect::<Vec<_>>().join(", "));
            s.push_str(")\n");
            (s, Some(format!("{}\n", n - 1)))
        }
        "captures" => {
            for i in 0..n {
                s.push_str(&format!("c{i} = {i}\n"));
            }
            s.push_str("f = || ");
            s.push_str(&(0..n).map(|i| format!("c{i}")).collect::<Vec<_>>().join(" + "));
            s.push_str("\nprint f()\n");
            (s, Some(format!("{}\n", n * (n - 1) / 2)))
        }
        "defaults" => {
            s.push_str("f = |");
            s.push_str(&(0..n).map(|i| format!("a{i} = {i}")).collect::<Vec<_>>().join(", "));
            s.push_str(&format!("| a0 + a{}\nprint f()\n", n - 1));
            (s, Some(format!("{}\n", n - 1)))
        }
        "constants" => {
            // n distinct float constants (varint widths at 128 / 16384)
            s.push_str("x = 0\n");
            for i in 0..n {
                s.push_str(&format!("x += {}.5\n", i));
            }
            s.push_str("print x\n");
            let total: f64 = (0..n).map(|i| i as f64 + 0.5).sum();
            (s, Some(format!("{}\n", crate::model::fmt_num_f(total))))
        }
        "list-items" => {
            s.push_str("x = [");
            s.push_str(&(0..n).map(|i| i.to_string()).collect::<Vec<_>>().join(", "));
            s.push_str("]\nprint size x\n");
            (s, Some(format!("{n}\n")))
        }
        "import-items" => {
            s.push_str("x = from number import ");
            s.push_str(&(0..n).map(|_| "pi").collect::<Vec<_>>().join(", "));
            s.push_str("\nprint size x\n");
            (s, Some(format!("{n}\n")))
        }
        "multi-assign" => {
            s.push_str(&(0..n).map(|i| format!("m{i}")).collect::<Vec<_>>().join(", "));
            s.push_str(" = 0..1000\n");
            s.push_str(&format!("print m{}\n", n - 1));
            (s, Some(format!("{}\n", n - 1)))
        }
        "loop-body" | "if-body" | "fn-body" => {
            // n statements of ~13 bytes of bytecode each
            let head = match kind {
                "loop-body" => "x = 0\nfor i in 0..2\n",
                "if-body" => "x = 0\nif x == 0\n",
                _ => "x = 0\nf = ||\n  x = 0\n",
            };
            s.push_str(head);
            for _ in 0..n {
                s.push_str("  x = x + 1.5\n");
            }
            let iters = if kind == "loop-body" { 2 } else { 1 };
            match kind {
                "fn-body" => s.push_str("  x\nprint f()\n"),
                _ => s.push_str("print x\n"),
            }
            (s, Some(format!("{}\n", crate::model::fmt_num_f(1.5 * (n * iters) as f64))))
        }
        "loop-tail-break" => {
            // the only long jump is the backward one
            s.push_str("x = 0\nc = 0\nloop\n");
            for _ in 0..n {
                s.push_str("  x = x + 1.5\n");
            }
            s.push_str("  c += 1\n  if c >= 2\n    break\nprint x\n");
            (s, Some(format!("{}\n", crate::model::fmt_num_f(1.5 * (n * 2) as f64))))
        }
        "while-body" => {
            s.push_str("x = 0\nc = 0\nwhile c < 2\n  c += 1\n");
            for _ in 0..n {
                s.push_str("  x = x + 1.5\n");
            }
            s.push_str("print x\n");
            (s, Some(format!("{}\n", crate::model::fmt_num_f(1.5 * (n * 2) as f64))))
        }
        _ => (String::new(), None),
    }
}

pub fn limit_grid(delta: usize) -> Vec<(&'static str, usize)> {
    let mut g = vec![];
    let around = |c: usize| -> Vec<usize> { (c.saturating_sub(delta)..=c + delta).collect() };
    for k in ["locals-top", "locals-fn", "captures", "call-args", "fn-args", "defaults", "multi-assign", "nesting"] {
        for n in around(255) {
            g.push((k, n));
        }
        for n in around(128) {
            g.push((k, n));
        }
    }
    for n in around(128).into_iter().chain(around(16384).into_iter().filter(|n| n % delta.max(1) == 0 || delta <= 2)) {
        g.push(("constants", n));
    }
    for n in around(128).into_iter().chain(around(255)).chain(around(16384).into_iter().filter(|n| *n >= 16383 && *n <= 16385)) {
        g.push(("list-items", n));
    }
    for n in around(128) {
        g.push(("import-items", n));
    }
    // bodies around the 64 KiB jump limit: statements are ~8-13 bytes, so sweep coarse then fine
    for k in ["loop-body", "while-body", "if-body", "fn-body", "loop-tail-break"] {
        let sizes: Vec<usize> = if delta <= 2 { vec![1000, 5041, 6554, 7282, 8192, 9363, 13108] } else { vec![1000, 4000, 5000, 5040, 5041, 5042, 6000, 6553, 6554, 7000, 7281, 7282, 8000, 8191, 8192, 8193, 9000, 9362, 9363, 10000, 13107, 13108] };
        for n in sizes {
            g.push((k, n));
        }
    }
    g
}

fn eval_limit(kind: &str, n: usize) -> Eval {
    let (src, expected) = limit_case(kind, n);
    eval_limit_src(kind, n, src, expected)
}

/// `limit_case(kind, n)` with `twos` 2-byte and `threes` 3-byte filler statements added to the body
pub fn fine_case(kind: &str, n: usize, twos: usize, threes: usize) -> (String, Option<String>) {
    let (src, expected) = limit_case(kind, n);
    let marker = "  x = x + 1.5\n";
    let Some(pos) = src.rfind(marker) else { return (src, expected) };
    let at = pos + marker.len();
    let mut out = String::with_capacity(src.len() + 16 * (twos + threes));
    out.push_str(&src[..at]);
    for _ in 0..twos {
        out.push_str("  y = null\n");
    }
    for _ in 0..threes {
        out.push_str("  y = 2\n");
    }
    out.push_str(&src[at..]);
    (out, expected)
}

fn chunk_len(src: &str) -> Option<usize> {
    let mut koto = Koto::default();
    koto.compile(src).ok().map(|c| c.bytes.len())
}

/// Byte-granular walk across the jump limit of one body kind: the largest n that compiles is bisected,
/// then filler statements of 2 and 3 bytes step the body size through every value from below the limit
/// to above it. Returns (n, twos, threes, chunk length when it compiles).
pub fn fine_walk(kind: &str) -> Vec<(usize, usize, usize)> {
    let compiles = |n: usize| chunk_len(&limit_case(kind, n).0).is_some();
    if !compiles(1000) || compiles(14000) {
        return vec![];
    }
    let (mut lo, mut hi) = (1000usize, 14000usize);
    while hi - lo > 1 {
        let mid = (lo + hi) / 2;
        if compiles(mid) { lo = mid } else { hi = mid }
    }
    // bytes per big statement
    let (Some(a), Some(b)) = (chunk_len(&limit_case(kind, lo).0), chunk_len(&limit_case(kind, lo - 1).0)) else { return vec![] };
    let big = a - b;
    // from three big statements below the largest compiling body, add 3*big - 4 ..= 3*big + 2*big + 4 bytes
    let base = lo - 3;
    let mut out = vec![];
    for extra in (3 * big).saturating_sub(4)..=5 * big + 4 {
        // extra = 2 * twos + 3 * threes with as few statements as possible
        let threes = if extra % 2 == 0 { 0 } else { 1 };
        let twos = (extra - 3 * threes) / 2;
        out.push((base, twos, threes));
    }
    out
}

fn eval_limit_src(kind: &str, n: usize, src: String, expected: Option<String>) -> Eval {
    let mut ev = Eval::pass(true).class("size-scaled");
    let cap = kx::Capture::default();
    let opts = RunOpts { limit_ms: Some(20_000), ..Default::default() };
    let mut koto = Koto::with_settings(kx::settings(&cap, &opts));
    let chunk = match koto.compile(kx::compile_args(&src, &opts)) {
        Ok(c) => c,
        Err(e) => {
            let msg = e.to_string();
            ev.classes.push("limit-reported-as-compile-error");
            // the error must be user-facing (a message), never an internal one
            if INTERNAL_FAULTS.iter().any(|m| msg.contains(m)) {
                ev.fail = Some(Fail::new(format!("c05:limit-internal-error|{kind}"), format!("{kind} n={n}: {msg}")));
            }
            return ev;
        }
    };
    if let Err((clause, detail)) = verify(&chunk) {
        ev.fail = Some(Fail::new(format!("c05:limit-{clause}|{kind}"), format!("{kind} n={n}: {detail}")));
        return ev;
    }
    ev.classes.push("limit-case-compiles");
    let r = koto.run(chunk);
    let out = cap.take();
    match (r, expected) {
        (Ok(_), Some(exp)) => {
            if out != exp {
                ev.fail = Some(Fail::new(format!("c05:limit-misbehaves|{kind}"), format!("{kind} n={n}: compiled code printed {:?}, expected {:?}", out.chars().take(80).collect::<String>(), exp)));
            }
        }
        (Err(e), _) => {
            let msg = e.to_string();
            // a runtime error that reports the limit is acceptable only if it is a clean message
            if INTERNAL_FAULTS.iter().any(|m| msg.contains(m)) {
                ev.fail = Some(Fail::new(format!("c05:limit-internal-fault|{kind}"), format!("{kind} n={n}: {}", msg.chars().take(300).collect::<String>())));
            } else {
                ev.fail = Some(Fail::new(format!("c05:limit-runtime-error|{kind}"), format!("{kind} n={n}: accepted by the compiler but fails at run time: {}", msg.chars().take(300).collect::<String>())));
            }
        }
        _ => {}
    }
    ev
}

// ---------------------------------------------------------------------------------------------

fn generated_sources(ctx: &Ctx, n: u64) -> Vec<String> {
    use proptest::strategy::{Strategy, ValueTree};
    let mut out = vec![];
    for i in 0..n {
        if !ctx.mine(i) {
            continue;
        }
        let mut runner = seeded_runner(ctx.sub_seed("gen", i));
        let data = crate::pgen::choice_stream(500).new_tree(&mut runner).unwrap().current();
        let src = match i % 4 {
            0 => crate::props::c01::variant_source(&crate::props::c01::build(&data).0, "in-function"),
            1 => crate::props::c01::variant_source(&crate::props::c02::build(&data).0, "plain"),
            2 => {
                let shape = crate::props::c03::build_shape(&data);
                crate::lang::print_program(&crate::props::c03::program(&shape, &[vec![crate::lang::E::Int(1)], vec![crate::lang::E::Null]][..if shape.n_subjects == 1 { 2 } else { 0 }]), &crate::lang::Layout::canonical())
            }
            _ => crate::lang::print_program(&crate::props::c04::build_program(&data, None).0, &crate::lang::Layout::canonical()),
        };
        out.push(src);
    }
    out
}

fn run_shard(ctx: &mut Ctx) {
    ctx.set_case_limit_ms(4_000);
    let t0 = std::time::Instant::now();
    let mut marks: Vec<(String, f64)> = vec![];
    // size-scaled programs (quick tier too: the limit walk found defects at design time)
    let grid = limit_grid(ctx.tier.pick(2, 6));
    for (i, (kind, n)) in grid.iter().enumerate() {
        if !ctx.mine(i as u64) {
            continue;
        }
        let (src, _) = limit_case(kind, *n);
        let case = json!({"kind": "limit", "limit": kind, "n": n, "src_len": src.len(), "src_head": src.chars().take(200).collect::<String>()});
        let (k2, n2) = (*kind, *n);
        ctx.run_case_forked(&case, 90_000, move || eval_limit(k2, n2));
    }
    // byte-granular walk across the 64 KiB jump limit
    let mut fidx = 0u64;
    for kind in ["loop-body", "while-body", "if-body", "fn-body", "loop-tail-break"] {
        let walk = fine_walk(kind);
        if walk.is_empty() {
            ctx.note(format!("fine limit walk: no compile/reject boundary found for {kind} between 1000 and 14000 statements"));
        }
        for (n, twos, threes) in walk {
            fidx += 1;
            if !ctx.mine(fidx) {
                continue;
            }
            let case = json!({"kind": "limit-fine", "limit": kind, "n": n, "twos": twos, "threes": threes});
            ctx.run_case_forked(&case, 90_000, move || {
                let (src, expected) = fine_case(kind, n, twos, threes);
                let mut ev = eval_limit_src(kind, n, src, expected);
                ev.classes.push("limit-fine-walk");
                if let Some(f) = ev.fail.as_mut() {
                    f.detail = format!("{} (+{twos} two-byte and {threes} three-byte filler statements)", f.detail);
                }
                ev
            });
        }
    }
    marks.push(("limits".into(), t0.elapsed().as_secs_f64()));
    // corpus
    let corpus = crate::corpus::load();
    ctx.explore_iter("corpus", corpus.iter(), |c| json!({"kind": "text", "src": c.text, "name": c.name}), |c| eval_text(&c.text, "corpus", c.runnable));
    // the hand-written zoo: besides the clauses above, exact output
    ctx.explore_iter(
        "zoo",
        corpus.iter().filter(|c| c.origin == "zoo"),
        |c| json!({"kind": "zoo", "src": c.text, "name": c.name, "expected": c.expected}),
        |c| eval_zoo(&c.text, c.expected.as_deref()),
    );
    // determinism across processes on the corpus: compile in a forked child, compare hashes
    for (i, c) in corpus.iter().enumerate() {
        if !ctx.mine(i as u64) || i % ctx.tier.pick(6, 1) != 0 {
            continue;
        }
        let here = check_text(&c.text, false);
        if !here.compiled || here.fail.is_some() {
            continue;
        }
        let text = c.text.clone();
        let case = json!({"kind": "xprocess", "src": c.text});
        let h = here.hash;
        ctx.run_case_forked(&case, 20_000, move || {
            let there = check_text(&text, false);
            let mut ev = Eval::pass(true).class("cross-process-determinism");
            if there.hash != h {
                ev.fail = Some(Fail::new("c05:nondeterministic-across-processes", format!("hash {h:x} in the worker, {:x} in a forked process", there.hash)));
            }
            ev
        });
    }
    marks.push(("corpus+xprocess".into(), t0.elapsed().as_secs_f64()));
    // mutation neighbourhood (those that still parse)
    let pct: u64 = ctx.tier.pick(15, 100);
    let mut gidx = 0u64;
    for (ci, c) in corpus.iter().enumerate() {
        if c.text.len() > 4000 {
            continue;
        }
        let toks = textgen::token_ranges(&c.text);
        let n = textgen::neighbourhood_size(&c.text, &toks);
        for k in 0..n {
            gidx += 1;
            if !ctx.mine(gidx) {
                continue;
            }
            if pct < 100 && fnv(format!("{}:{}:{}", ctx.seed, ci, k).as_bytes()) % 100 >= pct {
                continue;
            }
            if ctx.too_many_failures() {
                break;
            }
            let Some(m) = textgen::mutant(&c.text, &toks, k) else { continue };
            // cheap pre-filter: most mutants do not parse
            if koto_parser::Parser::parse(&m).is_err() {
                ctx.count_class("mutant-rejected-by-parser", 1);
                continue;
            }
            let case = json!({"kind": "text", "src": m, "may_exhaust": true});
            ctx.run_case(&case, || eval_text(&m, "mutant", true));
        }
    }
    marks.push(("mutants".into(), t0.elapsed().as_secs_f64()));
    // generated programs
    let n = ctx.tier.pick(8_000, 120_000);
    let srcs = generated_sources(ctx, n);
    for s in srcs.iter() {
        let case = json!({"kind": "text", "src": s});
        ctx.run_case(&case, || eval_text(s, "generated", true));
    }
    marks.push(("generated".into(), t0.elapsed().as_secs_f64()));
    if ctx.shard < 3 {
        ctx.note(format!("shard {} cumulative seconds: {:?}", ctx.shard, marks));
    }
}

fn replay(case: &Value) -> Option<Fail> {
    match case["kind"].as_str()? {
        "zoo" => eval_zoo(case["src"].as_str()?, case["expected"].as_str()).fail,
        "text" | "xprocess" => check_text(case["src"].as_str()?, true).fail,
        "limit" => eval_limit(case["limit"].as_str()?, case["n"].as_u64()? as usize).fail,
        "limit-fine" => {
            let kind = case["limit"].as_str()?;
            let n = case["n"].as_u64()? as usize;
            let (src, expected) = fine_case(kind, n, case["twos"].as_u64()? as usize, case["threes"].as_u64()? as usize);
            eval_limit_src(kind, n, src, expected).fail
        }
        _ => None,
    }
}

#[allow(dead_code)]
fn unused(_: BTreeMap<u8, u8>) {}

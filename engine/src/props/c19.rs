//! C19 — rc and arc runtimes behave identically; shared containers are atomic under arc
use crate::core::*;
use crate::corpus;
use crate::kx::{self, RunOpts};
use crate::pgen::{Cfg, G, choice_stream};
use crate::props::{c01, c13, c14, c15};
use serde_json::{Value, json};
use std::io::{BufRead, BufReader, Write};
use std::process::{Child, ChildStdin, ChildStdout, Command, Stdio};

pub static PROP: Prop = Prop {
    id: "C19",
    rule: "(a) differential: every program is run by this process (built with the rc memory strategy) and by a server process built from the same sources with the arc strategy; stdout, outcome class and error text must be identical. Programs: every runnable corpus item (guide, core-library docs, koto test scripts), proptest-generated core programs (the C01 generator: operators, containers, control flow) and function programs (closures, generators, captures), C14 container histories over aliased containers, C13 iterator pipelines and C15 string batches. (b) atomicity under arc, run inside the arc-built binary: N in {2, 4, 8} threads, each with its own runtime sharing ONE list or map through the prelude, run generated scripts of single-container operations (push / pop / insert / remove / extend / fill / resize / sort / reverse / clear / to_tuple / size / get / contains_key / update ...). Mixes are chosen so that an invariant is checkable: (i) counting: each thread pushes / inserts / extends by K distinct tagged items and nothing removes them: afterwards exactly N x K items, each once (no lost update), also while the other half of the threads reorder the whole container with callback-free operations (list sort / reverse, map sort); (ii) uniform fill: writers only `fill` / `resize ... value` with a per-thread constant while readers take `to_tuple()` snapshots or render the list to text (display, debug, inside a container): every snapshot / rendering is uniform within the region one operation writes (no partially updated container observed); (iii) paired extend: writers `extend` by a pair through every kind of iterable (tuple, range, string, iterator adaptor, generator) and readers check every snapshot has even length with equal neighbours; (iv) every language-level read form (index, slice, size, first / last, get, contains, iteration, access, keys, `rest...` patterns in match arms and arguments, unpacking) looping against push / pop or insert / remove writers, and mixed mutation storms, with a watchdog: every thread finishes (no deadlock on a single container) and the container is still well-formed (size equals the number of iterated items, map keys unique). Non-trivial: (a) programs that build containers, closures or iterators; (b) every stress run.",
    assumptions: &[
        "the arc build is a second cargo target directory of the same engine crate (features = arc); it is rebuilt from /repo's working tree by ./check C19",
        "stress runs repeat with varied thread counts and mixes; interleavings are explored by repetition, not controlled scheduling (loom / shuttle cannot drive parking_lot locks inside koto without patching it)",
        "programs printing addresses, hashes, random numbers or times are excluded from the differential",
    ],
    shards: |_| 12,
    run_shard,
    replay,
    min_nontrivial_fraction: 0.2,
};

const ARC_BIN: &str = "/verif/engine/target-arc/debug/kv";

pub struct ArcServer {
    child: Child,
    stdin: ChildStdin,
    stdout: BufReader<ChildStdout>,
}

impl ArcServer {
    pub fn start() -> Option<ArcServer> {
        let mut child = Command::new(ARC_BIN).arg("c19serve").stdin(Stdio::piped()).stdout(Stdio::piped()).stderr(Stdio::null()).spawn().ok()?;
        let stdin = child.stdin.take()?;
        let stdout = BufReader::new(child.stdout.take()?);
        Some(ArcServer { child, stdin, stdout })
    }
    /// Sends one request line (JSON), reads one reply line (JSON)
    pub fn ask(&mut self, req: &Value) -> Option<Value> {
        let mut line = serde_json::to_string(req).ok()?;
        line.push('\n');
        self.stdin.write_all(line.as_bytes()).ok()?;
        self.stdin.flush().ok()?;
        let mut reply = String::new();
        let n = self.stdout.read_line(&mut reply).ok()?;
        if n == 0 {
            return None;
        }
        serde_json::from_str(&reply).ok()
    }
}

impl Drop for ArcServer {
    fn drop(&mut self) {
        let _ = self.child.kill();
        let _ = self.child.wait();
    }
}

fn run_local(src: &str) -> Value {
    let out = kx::run(src, &RunOpts { limit_ms: Some(3000), ..Default::default() });
    json!({"stdout": out.stdout, "class": out.outcome.class(), "error": match &out.outcome { kx::Outcome::Ok(v) => v.clone(), kx::Outcome::RunErr(m) | kx::Outcome::CompileErr(m, _) => m.clone() }})
}

/// The server loop of the arc-built binary (`kv c19serve`)
pub fn serve() {
    // same stack budget as the shard threads of the rc side
    let h = std::thread::Builder::new().stack_size(1 << 30).spawn(serve_loop).expect("spawn");
    let _ = h.join();
}

fn serve_loop() {
    install_panic_hook();
    let stdin = std::io::stdin();
    let mut out = std::io::stdout();
    for line in stdin.lock().lines() {
        let Ok(line) = line else { break };
        let Ok(req) = serde_json::from_str::<Value>(&line) else { break };
        let reply = match req["op"].as_str() {
            Some("run") => match guarded(|| run_local(req["src"].as_str().unwrap_or(""))) {
                Ok(v) => v,
                Err((loc, msg)) => json!({"panic": format!("{loc}: {msg}")}),
            },
            Some("stress") => stress_entry(&req),
            Some("strategy") => json!({"strategy": if cfg!(feature = "arc") { "arc" } else { "rc" }}),
            _ => json!({"error": "unknown op"}),
        };
        let _ = writeln!(out, "{}", serde_json::to_string(&reply).unwrap_or_default());
        let _ = out.flush();
    }
}

fn nondeterministic(text: &str) -> bool {
    ["random", "os.", "io.", "time", "koto.hash", "chunk:", "args", "script_", "koto.load", "koto.run"].iter().any(|w| text.contains(w))
}

fn eval_diff(server: &mut ArcServer, src: &str, class: &'static str, nontrivial: bool) -> Eval {
    let mut ev = Eval::pass(nontrivial).class(class);
    let local = match guarded(|| run_local(src)) {
        Ok(v) => v,
        Err((loc, msg)) => {
            // a panic in the rc run is some other property's finding; compare panics as outcomes
            json!({"panic": format!("{loc}: {msg}")})
        }
    };
    let Some(remote) = server.ask(&json!({"op": "run", "src": src})) else {
        ev.fail = Some(Fail::new("c19:arc-server-died", format!("the arc-built runner ended while running:\n{src}")));
        return ev;
    };
    if local.get("panic").is_some() || remote.get("panic").is_some() {
        if local.get("panic").is_some() != remote.get("panic").is_some() {
            ev.fail = Some(Fail::new("c19:panic-on-one-side", format!("rc: {local}\narc: {remote}\n{src}")));
        } else {
            ev.discard = true;
        }
        return ev;
    }
    // timeouts are wall-clock dependent: not compared
    let is_timeout = |v: &Value| v["error"].as_str().map(|m| m.contains("timed out") || m.contains("imeout")).unwrap_or(false) && v["class"] != "ok";
    if is_timeout(&local) || is_timeout(&remote) {
        ev.discard = true;
        return ev;
    }
    if local != remote {
        let what = if local["stdout"] != remote["stdout"] { "stdout" } else if local["class"] != remote["class"] { "outcome" } else { "error-text" };
        ev.fail = Some(Fail::new(format!("c19:differs:{what}|{class}"), format!("rc : {}\narc: {}\n{src}", serde_json::to_string(&local).unwrap_or_default().chars().take(1500).collect::<String>(), serde_json::to_string(&remote).unwrap_or_default().chars().take(1500).collect::<String>())));
    }
    ev
}

// ---------------------------------------------------------------------------------------------
// (b) thread stress, only meaningful in the arc build

#[cfg(feature = "arc")]
fn stress_entry(req: &Value) -> Value {
    match guarded(|| stress::run(req)) {
        Ok(v) => v,
        Err((loc, msg)) => json!({"violation": "panic", "detail": format!("{loc}: {msg}")}),
    }
}
#[cfg(not(feature = "arc"))]
fn stress_entry(_req: &Value) -> Value {
    json!({"error": "thread stress needs the arc build"})
}

#[cfg(feature = "arc")]
mod stress {
    use super::*;
    use crate::kx::Capture;
    use koto_runtime::{KList, KMap, KValue};
    use std::sync::mpsc;
    use std::time::{Duration, Instant};

    fn thread_script(mix: &str, tid: usize, k: usize, seed: u64, custom_ops: &[String]) -> String {
        let mut s = String::new();
        match mix {
            "count-list" => {
                s.push_str(&format!("for i in 0..{k}\n  shared.push '{tid}:{{i}}'\n  if i % 7 == 0\n    n = size shared\n"));
            }
            "count-map" => {
                s.push_str(&format!("for i in 0..{k}\n  shared.insert '{tid}:{{i}}', i\n  if i % 5 == 0\n    x = shared.get '{tid}:0'\n    assert x == 0\n"));
            }
            "fill-display" => {
                // readers render the list to text (display / debug / interpolation in a container): every
                // rendering shows one fill value only
                if tid % 2 == 0 {
                    s.push_str(&format!("for i in 0..{k}\n  shared.fill {tid}\n"));
                } else {
                    let render = ["s = '{shared}'", "s = '{shared:?}'", "w = '{(shared, 1)}'\n  s = w[1..(size w) - 4]"][(tid / 2 + seed as usize) % 3];
                    s.push_str(&format!("bad = 0\nfor i in 0..{k}\n  {render}\n  items = s[1..(size s) - 1].split(', ').to_tuple()\n  if items.any(|x| x != items[0])\n    bad += 1\nexport bad = bad\n"));
                }
            }
            "fill" => {
                if tid % 2 == 0 {
                    s.push_str(&format!("for i in 0..{k}\n  shared.fill {tid}\n"));
                } else {
                    s.push_str(&format!("bad = 0\nfor i in 0..{k}\n  t = shared.to_tuple()\n  if t.any(|x| x != t[0])\n    bad += 1\nexport bad = bad\n"));
                }
            }
            "pairs" | "pairs-range" | "pairs-string" | "pairs-adaptor" | "pairs-generator" => {
                if tid % 2 == 0 {
                    // one extend by two equal (or consecutive) items, through every kind of iterable
                    let arg = match mix {
                        "pairs" => format!("({tid}, {tid})"),
                        "pairs-range" => format!("{}..{}", tid * 10, tid * 10 + 2),
                        "pairs-string" => "'ab'".to_string(),
                        "pairs-adaptor" => format!("({tid}, {tid}).each |x| x"),
                        _ => format!("gen2({tid})"),
                    };
                    s.push_str(&format!("gen2 = |v|\n  yield v\n  yield v\nfor i in 0..{k}\n  shared.extend {arg}\n"));
                } else if mix == "pairs-range" {
                    s.push_str(&format!("bad = 0\nfor i in 0..{k}\n  t = shared.to_tuple()\n  if (size t) % 2 != 0\n    bad += 1\n  else\n    for c in t.chunks 2\n      cc = c.to_tuple()\n      if cc[0] + 1 != cc[1]\n        bad += 1\nexport bad = bad\n"));
                } else if mix == "pairs-string" {
                    s.push_str(&format!("bad = 0\nfor i in 0..{k}\n  t = shared.to_tuple()\n  if (size t) % 2 != 0\n    bad += 1\n  else\n    for c in t.chunks 2\n      cc = c.to_tuple()\n      if cc[0] != 'a' or cc[1] != 'b'\n        bad += 1\nexport bad = bad\n"));
                } else {
                    s.push_str(&format!("bad = 0\nfor i in 0..{k}\n  t = shared.to_tuple()\n  if (size t) % 2 != 0\n    bad += 1\n  else\n    for c in t.chunks 2\n      cc = c.to_tuple()\n      if cc[0] != cc[1]\n        bad += 1\nexport bad = bad\n"));
                }
            }
            "extend-count-map" => {
                // inserts and extends of distinct keys race: every key must be there at the end
                if tid % 2 == 0 {
                    s.push_str(&format!("for i in 0..{k}\n  shared.insert '{tid}:{{i}}', i\n"));
                } else {
                    s.push_str(&format!("for i in 0..{k}\n  m = {{}}\n  m.insert '{tid}:{{i}}', i\n  shared.extend m\n"));
                }
            }
            "extend-count-list" => {
                if tid % 2 == 0 {
                    s.push_str(&format!("for i in 0..{k}\n  shared.push '{tid}:{{i}}'\n"));
                } else {
                    s.push_str(&format!("for i in 0..{k}\n  shared.extend ('{tid}:{{i}}',)\n"));
                }
            }
            "reorder-count-list" => {
                // pushes of distinct values race with callback-free whole-list reorderings
                if tid % 2 == 0 {
                    s.push_str(&format!("for i in 0..{k}\n  shared.push '{tid}:{{i}}'\n"));
                } else {
                    let form = ["shared.sort()", "shared.reverse()"][(tid / 2 + seed as usize) % 2];
                    s.push_str(&format!("for i in 0..{}\n  {form}\n", (k / 4).max(10)));
                }
            }
            "reorder-count-map" => {
                if tid % 2 == 0 {
                    s.push_str(&format!("for i in 0..{k}\n  shared.insert '{tid}:{{i}}', i\n"));
                } else {
                    s.push_str(&format!("for i in 0..{}\n  shared.sort()\n", (k / 4).max(10)));
                }
            }
            "read-forms-list" => {
                // language-level reads against push / pop writers; only termination is judged
                if tid % 2 == 0 {
                    s.push_str(&format!("for i in 0..{}\n  shared.push i\n  shared.pop()\n", k * 40));
                } else {
                    let forms = ["x = match shared\n    (first, rest...) then first\n    else null", "x = match shared\n    (init..., last) then last\n    else null", "fu = |(a, others...)| a\n  x = fu shared", "a, b = shared", "x = shared[0]", "x = size shared", "x = shared.first()", "x = shared[0..1]", "x = shared.get 0", "x = shared.contains 1", "x = shared.to_tuple()", "x = shared.last()", "for v in shared\n    break", "x = shared[..]", "x = shared.is_empty()", "x = (shared, 1)[0][0]"];
                    // four forms per reader: the four readers of an 8-thread run cover all of them
                    s.push_str(&format!("for i in 0..{}\n", k * 10));
                    for j in 0..4 {
                        let form = forms[((tid / 2) * 4 + j + (seed as usize % forms.len())) % forms.len()];
                        s.push_str(&format!("  {form}\n"));
                    }
                }
            }
            "read-forms-map" => {
                if tid % 2 == 0 {
                    s.push_str(&format!("for i in 0..{}\n  shared.insert 'tmp', i\n  shared.remove 'tmp'\n", k * 40));
                } else {
                    let forms = ["x = shared.a", "x = shared.get 'a'", "x = size shared", "x = shared.contains_key 'a'", "x = shared.keys().next()", "x = shared.get_index 0", "x = shared[0]", "for k2, v in shared\n    break", "x = shared.is_empty()", "x = shared.values().next()"];
                    let form = forms[(tid / 2 + (seed as usize % forms.len())) % forms.len()];
                    s.push_str(&format!("for i in 0..{}\n  {form}\n", k * 40));
                }
            }
            "map-update" => {
                // every thread increments its own key and a common key through single operations
                s.push_str(&format!("for i in 0..{k}\n  shared.update 'own{tid}', 0, |x| x + 1\n  y = shared.get 'own{tid}'\n  assert y == i + 1\n"));
            }
            _ => {
                // storm: random single operations, results ignored; only termination and well-formedness are judged
                let ops_list = ["shared.push 1", "shared.pop()", "shared.insert 0, 2", "shared.remove 0", "shared.extend (1, 2)", "shared.fill 3", "shared.resize 5, 0", "shared.sort()", "shared.reverse()", "shared.clear()", "shared.to_tuple()", "size shared", "shared.first()", "shared.contains 1", "shared.retain |x| x != 2", "shared.get 1", "shared.transform |x| x"];
                let ops_map = ["shared.insert 'a', 1", "shared.remove 'a'", "shared.extend {b: 2, c: 3}", "shared.sort()", "shared.clear()", "shared.keys().to_tuple()", "size shared", "shared.get 'b'", "shared.contains_key 'c'", "shared.update 'd', 0, |x| x + 1", "shared.values().to_list()", "shared.get_index 0", "shared.is_empty()"];
                let custom: Vec<&str> = custom_ops.iter().map(|s| s.as_str()).collect();
                let ops: &[&str] = if !custom.is_empty() { &custom } else if mix == "storm-map" { &ops_map } else { &ops_list };
                let mut x = seed.wrapping_mul(6364136223846793005).wrapping_add(tid as u64 * 1442695040888963407 + 1);
                s.push_str("t = |f|\n  try\n    f()\n  catch _\n    null\n");
                for _ in 0..k {
                    x = x.wrapping_mul(6364136223846793005).wrapping_add(1442695040888963407);
                    let op = ops[((x >> 33) as usize) % ops.len()];
                    s.push_str(&format!("t || {op}\n"));
                }
            }
        }
        s
    }

    pub fn run(req: &Value) -> Value {
        let mix = req["mix"].as_str().unwrap_or("count-list").to_string();
        let threads = req["threads"].as_u64().unwrap_or(4) as usize;
        let k = req["k"].as_u64().unwrap_or(200) as usize;
        let seed = req["seed"].as_u64().unwrap_or(1);
        let is_map = matches!(mix.as_str(), "count-map" | "map-update" | "storm-map" | "extend-count-map" | "read-forms-map" | "reorder-count-map");
        let shared: KValue = if mix == "read-forms-map" {
            let m = KMap::default();
            m.insert("a", KValue::Number(1.into()));
            m.insert("b", KValue::Number(2.into()));
            KValue::Map(m)
        } else if mix == "read-forms-list" {
            KValue::List(KList::from_slice(&[KValue::Number(1.into()), KValue::Number(2.into()), KValue::Number(3.into())]))
        } else if is_map {
            KValue::Map(KMap::default())
        } else if mix == "fill" || mix == "fill-display" {
            KValue::List(KList::from_slice(&vec![KValue::Number(0.into()); 64]))
        } else {
            KValue::List(KList::default())
        };
        let (tx, rx) = mpsc::channel::<(usize, Result<i64, String>)>();
        let mut handles = vec![];
        for tid in 0..threads {
            let shared = shared.clone();
            let tx = tx.clone();
            let custom_ops: Vec<String> = req["ops"].as_array().map(|a| a.iter().filter_map(|x| x.as_str().map(|s| s.to_string())).collect()).unwrap_or_default();
            let script = thread_script(&mix, tid, k, seed, &custom_ops);
            handles.push(std::thread::spawn(move || {
                let cap = Capture::default();
                let mut koto = koto::Koto::with_settings(kx::settings(&cap, &RunOpts::default()));
                koto.prelude().insert("shared", shared);
                let r = match koto.compile_and_run(script.as_str()) {
                    Ok(_) => Ok(match koto.exports().get("bad") {
                        Some(KValue::Number(n)) => i64::from(n),
                        _ => 0,
                    }),
                    Err(e) => Err(e.to_string()),
                };
                let _ = tx.send((tid, r));
            }));
        }
        drop(tx);
        let t0 = Instant::now();
        let mut done = 0;
        let mut bad_snapshots = 0i64;
        let mut errors: Vec<String> = vec![];
        while done < threads {
            match rx.recv_timeout(Duration::from_secs(60).saturating_sub(t0.elapsed())) {
                Ok((tid, r)) => {
                    done += 1;
                    match r {
                        Ok(b) => bad_snapshots += b,
                        Err(e) => errors.push(format!("thread {tid}: {}", e.lines().next().unwrap_or(""))),
                    }
                }
                Err(mpsc::RecvTimeoutError::Timeout) => {
                    return json!({"violation": "deadlock", "detail": format!("{} of {threads} threads had not finished after 60 s (mix {mix})", threads - done)});
                }
                Err(mpsc::RecvTimeoutError::Disconnected) => {
                    // threads ended without reporting: they panicked
                    let mut msgs = vec![];
                    for h in handles {
                        if let Err(p) = h.join() {
                            let m = p.downcast_ref::<String>().cloned().or_else(|| p.downcast_ref::<&str>().map(|s| s.to_string())).unwrap_or_else(|| "panic".into());
                            msgs.push(m);
                        }
                    }
                    msgs.sort();
                    msgs.dedup();
                    return json!({"violation": "thread-panic", "detail": format!("{} of {threads} threads panicked (mix {mix}): {}", threads - done, msgs.join(" | "))});
                }
            }
        }
        for h in handles {
            let _ = h.join();
        }
        // invariants
        match mix.as_str() {
            "count-list" => {
                let KValue::List(l) = &shared else { unreachable!() };
                let items: Vec<String> = l.data().iter().map(|v| if let KValue::Str(s) = v { s.to_string() } else { "?".into() }).collect();
                let mut sorted = items.clone();
                sorted.sort();
                sorted.dedup();
                if items.len() != threads * k || sorted.len() != threads * k {
                    return json!({"violation": "lost-update", "detail": format!("{} items, {} distinct, expected {} (mix {mix}, {threads} threads x {k})", items.len(), sorted.len(), threads * k)});
                }
            }
            "extend-count-list" => {
                let KValue::List(l) = &shared else { unreachable!() };
                let mut items: Vec<String> = l.data().iter().map(|v| if let KValue::Str(s) = v { s.to_string() } else { "?".into() }).collect();
                let n = items.len();
                items.sort();
                items.dedup();
                if n != threads * k || items.len() != threads * k {
                    return json!({"violation": "lost-update", "detail": format!("{n} items, {} distinct, expected {} (mix {mix}, {threads} threads x {k})", items.len(), threads * k)});
                }
            }
            "reorder-count-list" => {
                let KValue::List(l) = &shared else { unreachable!() };
                let mut items: Vec<String> = l.data().iter().map(|v| if let KValue::Str(s) = v { s.to_string() } else { "?".into() }).collect();
                let n = items.len();
                items.sort();
                items.dedup();
                let want = threads.div_ceil(2) * k;
                if n != want || items.len() != want {
                    return json!({"violation": "lost-update", "detail": format!("{n} items, {} distinct, expected {want} (mix {mix}, {} pushing threads x {k}, the others sort / reverse)", items.len(), threads.div_ceil(2))});
                }
            }
            "reorder-count-map" => {
                let KValue::Map(m) = &shared else { unreachable!() };
                let want = threads.div_ceil(2) * k;
                if m.len() != want {
                    return json!({"violation": "lost-update", "detail": format!("{} entries, expected {want} (mix {mix}, the other threads sort)", m.len())});
                }
            }
            "count-map" | "extend-count-map" => {
                let KValue::Map(m) = &shared else { unreachable!() };
                if m.len() != threads * k {
                    return json!({"violation": "lost-update", "detail": format!("{} entries, expected {} (mix {mix})", m.len(), threads * k)});
                }
            }
            "map-update" => {
                let KValue::Map(m) = &shared else { unreachable!() };
                for tid in 0..threads {
                    match m.get(format!("own{tid}").as_str()) {
                        Some(KValue::Number(n)) if i64::from(&n) == k as i64 => {}
                        other => return json!({"violation": "lost-update", "detail": format!("own{tid} = {:?}, expected {k}", other.map(|v| v.type_as_string().to_string()))}),
                    }
                }
            }
            "fill" | "fill-display" | "pairs" | "pairs-range" | "pairs-string" | "pairs-adaptor" | "pairs-generator" => {
                if bad_snapshots > 0 {
                    return json!({"violation": "torn-read", "detail": format!("{bad_snapshots} snapshots showed a partially applied {mix} operation")});
                }
            }
            _ => {}
        }
        if !errors.is_empty() && !mix.starts_with("storm") {
            return json!({"violation": "thread-error", "detail": errors.join("; ")});
        }
        // well-formedness
        match &shared {
            KValue::List(l) => {
                let n = l.len();
                let it = l.data().iter().count();
                if n != it {
                    return json!({"violation": "malformed", "detail": format!("list len {n} but {it} items")});
                }
            }
            KValue::Map(m) => {
                let mut keys: Vec<String> = m.data().iter().map(|(k, _)| match k.value() { KValue::Str(s) => s.to_string(), KValue::Number(n) => n.to_string(), other => other.type_as_string().to_string() }).collect();
                let n = keys.len();
                keys.sort();
                keys.dedup();
                if keys.len() != n || n != m.len() {
                    return json!({"violation": "malformed", "detail": format!("map len {} with {n} entries, {} distinct keys", m.len(), keys.len())});
                }
            }
            _ => {}
        }
        json!({"ok": true, "elapsed_ms": t0.elapsed().as_millis() as u64, "errors": errors.len()})
    }
}

pub const MIXES: [&str; 18] = ["fill-display", "pairs-range", "pairs-string", "pairs-adaptor", "pairs-generator", "reorder-count-list", "reorder-count-map", "count-list", "count-map", "fill", "pairs", "map-update", "storm-list", "storm-map", "extend-count-map", "extend-count-list", "read-forms-list", "read-forms-map"];

fn eval_stress(server: &mut ArcServer, mix: &str, threads: usize, k: usize, seed: u64) -> Eval {
    let mut ev = Eval::pass(true).class(intern(&format!("stress:{mix}")));
    let req = json!({"op": "stress", "mix": mix, "threads": threads, "k": k, "seed": seed});
    match server.ask(&req) {
        None => ev.fail = Some(Fail::new("c19:stress:server-died", format!("the arc-built runner crashed or hung during {req}"))),
        Some(r) => {
            if let Some(v) = r["violation"].as_str() {
                ev.fail = Some(Fail::new(format!("c19:stress:{v}|{mix}"), format!("{} ({req})", r["detail"].as_str().unwrap_or(""))));
            } else if r.get("error").is_some() {
                ev.discard = true;
            }
        }
    }
    ev
}

// ---------------------------------------------------------------------------------------------

fn run_shard(ctx: &mut Ctx) {
    ctx.set_case_limit_ms(150_000);
    let Some(mut server) = ArcServer::start() else {
        ctx.st.harness_errors.push(format!("cannot start {ARC_BIN} c19serve"));
        return;
    };
    match server.ask(&json!({"op": "strategy"})) {
        Some(v) if v["strategy"] == "arc" => {}
        other => {
            ctx.st.harness_errors.push(format!("{ARC_BIN} is not an arc build: {other:?}"));
            return;
        }
    }
    let restart = |server: &mut ArcServer| {
        if let Some(s) = ArcServer::start() {
            *server = s;
        }
    };
    // (a) corpus
    let items: Vec<corpus::Item> = corpus::load().into_iter().filter(|i| !nondeterministic(&i.text)).collect();
    for (i, item) in items.iter().enumerate() {
        if !ctx.mine(i as u64) || ctx.too_many_failures() {
            continue;
        }
        let cj = json!({"kind": "src", "class": "corpus", "name": item.name, "src": item.text});
        let ev = ctx.run_case(&cj, || eval_diff(&mut server, &item.text, "corpus", true));
        if ev.and_then(|e| e.fail).map(|f| f.sig.contains("server-died")).unwrap_or(false) {
            restart(&mut server);
        }
    }
    // generated programs
    use proptest::strategy::{Strategy, ValueTree};
    let n = ctx.tier.pick(6_000u64, 300_000u64);
    for i in 0..n {
        if !ctx.mine(i) || ctx.too_many_failures() {
            continue;
        }
        let mut runner = seeded_runner(ctx.sub_seed("prog", i));
        let data = choice_stream(500).new_tree(&mut runner).unwrap().current();
        let (src, class): (String, &'static str) = match i % 5 {
            // only programs that the reference interpreter judges (the others include exponential
            // container growth, which ends in an allocation failure on both sides)
            0 | 1 => {
                let (prog, _) = c01::build(&data);
                if c01::expectation(&prog).is_err() {
                    continue;
                }
                (c01::variant_source(&prog, "plain"), "core-program")
            }
            2 => {
                let mut g = G::new(&data, Cfg::default());
                let prog = g.fn_program();
                if c01::expectation(&prog).is_err() {
                    continue;
                }
                (c01::variant_source(&prog, "plain"), "function-program")
            }
            3 => match c14::history_source(&data) {
                Some(src) => (src, "container-history"),
                None => continue,
            },
            _ => {
                if i % 2 == 0 {
                    (c13::sample_pipeline_source(&data), "iterator-pipeline")
                } else {
                    (c15::sample_string_batch(&data), "string-batch")
                }
            }
        };
        let cj = json!({"kind": "src", "class": class, "src": src});
        let ev = ctx.run_case(&cj, || eval_diff(&mut server, &src, class, true));
        if ev.and_then(|e| e.fail).map(|f| f.sig.contains("server-died")).unwrap_or(false) {
            restart(&mut server);
        }
    }
    // (b) stress
    let reps = ctx.tier.pick(40u64, 1500u64);
    let mut idx = 0u64;
    for rep in 0..reps {
        for mix in MIXES {
            for threads in [2usize, 4, 8] {
                idx += 1;
                if !ctx.mine(idx) || ctx.too_many_failures() {
                    continue;
                }
                let k = if mix.starts_with("storm") { 300 } else { 150 + 50 * (rep as usize % 4) };
                let seed = ctx.sub_seed("stress", idx);
                let cj = json!({"kind": "stress", "mix": mix, "threads": threads, "k": k, "seed": seed});
                let ev = ctx.run_case(&cj, || eval_stress(&mut server, mix, threads, k, seed));
                if ev.and_then(|e| e.fail).map(|f| f.sig.contains("server-died")).unwrap_or(false) {
                    restart(&mut server);
                }
            }
        }
    }
}

fn replay(case: &Value) -> Option<Fail> {
    let mut server = ArcServer::start()?;
    match case["kind"].as_str()? {
        "src" => eval_diff(&mut server, case["src"].as_str()?, "replay", true).fail,
        "stress" => {
            // a stress failure is a race: repeat the same configuration a few times
            for _ in 0..20 {
                let ev = eval_stress(&mut server, case["mix"].as_str()?, case["threads"].as_u64()? as usize, case["k"].as_u64()? as usize, case["seed"].as_u64()?);
                if ev.fail.is_some() {
                    return ev.fail;
                }
            }
            None
        }
        _ => None,
    }
}

//! C14 — value model: sharing, copying, equality, ordering and map keys
use crate::core::*;
use crate::kx::{self, RunOpts};
use crate::lang::*;
use crate::model;
use crate::pgen::{self as gen_, Src};
use serde_json::{Value, json};

pub static PROP: Prop = Prop {
    id: "C14",
    rule: "(a) histories of 5-40 operations over <= 6 variables decoded from a proptest choice vector: list / map / tuple / nested literals, aliasing by assignment, by storing inside another container, by passing to a mutating function and by capture in a mutating closure; every mutating and non-mutating function of list (push, pop, insert, remove, clear, extend, fill, resize, retain, reverse, sort, swap, transform, first, last, get, contains, is_empty, to_tuple), map (insert, remove, clear, extend, sort, get, keys, values, get_index, contains_key, update) and tuple; index and slice reads; index / slice / field assignment; `+`; copy; deep_copy; to_list of a list / tuple bound to a new variable; attempted mutation of tuples, strings and ranges; all variables are printed after every step and the history is compared with an abstract heap (cells with identity) in the reference interpreter. (b) laws over a 56-value boundary pool: all ordered pairs (== reflexive on NaN-free data and symmetric and equal to the structural equality of the two literals computed by the harness (type, length, element-wise, maps by key set and values), != its negation, exactly one of < == > on numbers and on strings, <= / >= consistent) and all triples of numbers and of strings (transitivity of < and ==). (c) map-key identity: all pairs of hashable pool values x map paddings {0, 1, 8, 40}: contains_key(k2) after insert(k1) <=> k1 == k2, inserting both yields one entry <=> k1 == k2, independent of padding. (d) sorting: all lists of length 0..4 and sampled lists of length 5..7 over numbers, strings, mixed int / float and duplicates through list.sort, sort with key, map.sort: the output is an ordered permutation; and all lists of length 0..4 (thorough 0..5) over values that may be incomparable (numbers, strings, null, a tuple): whether `sort` succeeds or throws, an alias of the list still holds exactly the elements it held before. Non-trivial: (a) an alias exists when a mutation happens; (b)-(d) every pair / triple / list counts once.",
    assumptions: &[
        "known findings keyed by shape: C14-key-hash (an integer and the equal float as map keys), C14-order-2p53 (mixed int/float triples beyond 2^53)",
        "cyclic containers, negative indices and slice assignment beyond the list are not judged",
        "a sort that throws (incomparable elements) is read as leaving a permutation of the input behind: the statement speaks of sorting as a permutation and of lists as shared, so a failed sort must not lose or invent elements",
    ],
    shards: |_| 14,
    run_shard,
    replay,
    min_nontrivial_fraction: 0.3,
};

// ---------------------------------------------------------------------------------------------
// (a) histories

struct HG<'a> {
    s: Src<'a>,
    vars: Vec<(String, char)>, // name, kind: 'l' list, 'm' map, 't' tuple, 's' string, 'r' range, 'n' number
    aliased: bool,
    alias_mutation: bool,
    n: usize,
}

impl<'a> HG<'a> {
    fn pick(&mut self, kind: char) -> Option<String> {
        let c: Vec<String> = self.vars.iter().filter(|v| v.1 == kind).map(|v| v.0.clone()).collect();
        if c.is_empty() { None } else { Some(self.s.pick_name(&c)) }
    }
    fn small(&mut self) -> E {
        E::Int(self.s.below(5) as i64)
    }
    fn scalar(&mut self) -> E {
        match self.s.below(5) {
            0 => lit_str("s"),
            1 => E::Null,
            2 => E::Float(1.5),
            _ => self.small(),
        }
    }
    fn value(&mut self) -> E {
        // a value to store: scalar, fresh container or an existing variable (creates an alias)
        match self.s.below(6) {
            0 | 1 => self.scalar(),
            2 => E::List(vec![self.small(), self.small()]),
            3 => E::Tuple(vec![self.small(), lit_str("t")]),
            _ => {
                if self.vars.is_empty() {
                    self.scalar()
                } else {
                    let i = self.s.below(self.vars.len() as u32) as usize;
                    let (n, k) = self.vars[i].clone();
                    if matches!(k, 'l' | 'm') {
                        self.aliased = true;
                    }
                    id(&n)
                }
            }
        }
    }
    fn set(&mut self, name: &str, kind: char) {
        self.vars.retain(|v| v.0 != name);
        self.vars.push((name.to_string(), kind));
    }
    fn call(recv: &str, m: &str, args: Vec<E>) -> E {
        E::Call(bx(E::Dot(bx(id(recv)), m.into())), args.into_iter().map(|a| (a, false)).collect())
    }

    fn op(&mut self) -> E {
        let names = ["va", "vb", "vc", "vd", "ve", "vf"];
        let target = names[self.s.below(6) as usize].to_string();
        let c = self.s.weighted(&[10, 8, 22, 16, 8, 6, 6, 6, 6, 6, 6]);
        let mutation_on_alias = |me: &mut Self| {
            if me.aliased {
                me.alias_mutation = true;
            }
        };
        match c {
            0 => {
                // new container literal
                let (e, k) = match self.s.below(5) {
                    0 => (E::List(vec![self.value(), self.value(), self.small()]), 'l'),
                    1 => (E::Map(vec![("x".into(), self.value()), ("y".into(), self.small())]), 'm'),
                    2 => (E::Tuple(vec![self.value(), self.small()]), 't'),
                    3 => (E::List(vec![E::Int(3), E::Int(1), E::Int(2), E::Int(1)]), 'l'),
                    _ => (E::List(vec![]), 'l'),
                };
                // known shape F25: `x = {v: x}` / `x = [x]`
                let e = if gen_::G::f25_shape(&target, &e) { E::List(vec![E::Int(1), E::Int(2), E::Int(3)]) } else { e };
                let k = if matches!(e, E::List(_)) { 'l' } else { k };
                self.set(&target, k);
                E::Assign(bx(id(&target)), None, bx(e))
            }
            1 => {
                // alias by assignment
                if self.vars.is_empty() {
                    return self.op0();
                }
                let i = self.s.below(self.vars.len() as u32) as usize;
                let (n, k) = self.vars[i].clone();
                if n == target {
                    return self.op0();
                }
                if matches!(k, 'l' | 'm') {
                    self.aliased = true;
                }
                self.set(&target, k);
                E::Assign(bx(id(&target)), None, bx(id(&n)))
            }
            2 => {
                // list method
                let Some(l) = self.pick('l') else { return self.op0() };
                let m = self.s.pick_str(&["push", "pop", "insert", "remove", "clear", "extend", "fill", "resize", "retain", "reverse", "sort", "swap", "transform", "first", "last", "get", "contains", "is_empty", "to_tuple"]);
                let args: Vec<E> = match m.as_str() {
                    "push" | "fill" | "contains" => vec![self.value()],
                    "insert" => vec![self.small(), self.value()],
                    "remove" | "get" => vec![self.small()],
                    "extend" => vec![match self.s.below(3) {
                        0 => E::Tuple(vec![self.small(), self.small()]),
                        1 => E::List(vec![self.value()]),
                        _ => E::Range(Some(bx(E::Int(0))), Some(bx(E::Int(2))), false),
                    }],
                    "resize" => {
                        if self.s.chance(50) { vec![self.small()] } else { vec![self.small(), self.scalar()] }
                    }
                    "retain" => vec![E::Fn(vec![FnArg { pat: Pat::Id("q".into(), None), default: None, variadic: false }], None, vec![E::Bin(Op::Ne, bx(id("q")), bx(self.small()))])],
                    "transform" => vec![E::Fn(vec![FnArg { pat: Pat::Id("q".into(), None), default: None, variadic: false }], None, vec![E::Tuple(vec![id("q"), E::Int(0)])])],
                    "swap" => match self.pick('l') {
                        Some(o) if o != l => vec![id(&o)],
                        _ => return self.op0(),
                    },
                    _ => vec![],
                };
                if !matches!(m.as_str(), "first" | "last" | "get" | "contains" | "is_empty" | "to_tuple") {
                    mutation_on_alias(self);
                }
                E::Print(vec![Self::call(&l, &m, args)])
            }
            3 => {
                let Some(mv) = self.pick('m') else { return self.op0() };
                let m = self.s.pick_str(&["insert", "remove", "clear", "extend", "sort", "get", "keys", "values", "get_index", "contains_key", "update", "is_empty"]);
                let key = |me: &mut Self| match me.s.below(5) {
                    0 => lit_str("x"),
                    1 => lit_str("y"),
                    2 => lit_str("k"),
                    3 => E::Int(me.s.below(3) as i64),
                    _ => E::Tuple(vec![E::Int(1), lit_str("a")]),
                };
                let args: Vec<E> = match m.as_str() {
                    "insert" => vec![key(self), self.value()],
                    "remove" | "get" | "contains_key" => vec![key(self)],
                    "extend" => vec![if self.s.chance(50) { E::Map(vec![("y".into(), self.small()), ("z".into(), self.value())]) } else { E::List(vec![E::Tuple(vec![key(self), self.small()])]) }],
                    "get_index" => vec![self.small()],
                    "update" => vec![key(self), E::Int(0), E::Fn(vec![FnArg { pat: Pat::Id("q".into(), None), default: None, variadic: false }], None, vec![E::Tuple(vec![id("q"), E::Int(1)])])],
                    _ => vec![],
                };
                if matches!(m.as_str(), "insert" | "remove" | "clear" | "extend" | "sort" | "update") {
                    mutation_on_alias(self);
                }
                let call = Self::call(&mv, &m, args);
                if matches!(m.as_str(), "keys" | "values") {
                    E::Print(vec![E::Call(bx(E::Dot(bx(call), "to_tuple".into())), vec![])])
                } else {
                    E::Print(vec![call])
                }
            }
            4 => {
                // index / field / slice assignment
                match self.s.below(3) {
                    0 => {
                        let Some(l) = self.pick('l') else { return self.op0() };
                        mutation_on_alias(self);
                        E::Assign(bx(E::Index(bx(id(&l)), bx(self.small()))), None, bx(self.value()))
                    }
                    1 => {
                        let Some(m) = self.pick('m') else { return self.op0() };
                        mutation_on_alias(self);
                        E::Assign(bx(E::Dot(bx(id(&m)), self.s.pick_str(&["x", "y", "w"]))), None, bx(self.value()))
                    }
                    _ => {
                        let Some(l) = self.pick('l') else { return self.op0() };
                        mutation_on_alias(self);
                        let a = self.s.below(3) as i64;
                        let b = a + self.s.below(3) as i64;
                        E::Assign(bx(E::Index(bx(id(&l)), bx(E::Range(Some(bx(E::Int(a))), Some(bx(E::Int(b))), false)))), None, bx(self.scalar()))
                    }
                }
            }
            5 => {
                // reads: slices copy lists and share tuples
                let k = if self.s.chance(50) { 'l' } else { 't' };
                let Some(v) = self.pick(k) else { return self.op0() };
                let a = self.s.below(3) as i64;
                self.set(&target, k);
                E::Assign(bx(id(&target)), None, bx(E::Index(bx(id(&v)), bx(E::Range(Some(bx(E::Int(a))), None, false)))))
            }
            6 => {
                // copy / deep_copy
                if self.vars.is_empty() {
                    return self.op0();
                }
                let i = self.s.below(self.vars.len() as u32) as usize;
                let (n, k) = self.vars[i].clone();
                if matches!(k, 'l' | 't') && self.s.chance(30) {
                    // a conversion yields a new container, also when the source already has that type
                    self.set(&target, 'l');
                    return E::Assign(bx(id(&target)), None, bx(Self::call(&n, "to_list", vec![])));
                }
                self.set(&target, k);
                if self.s.chance(50) {
                    E::Assign(bx(id(&target)), None, bx(E::Call(bx(id("copy")), vec![(id(&n), false)])))
                } else {
                    E::Assign(bx(id(&target)), None, bx(E::Call(bx(E::Dot(bx(id("koto")), "deep_copy".into())), vec![(id(&n), false)])))
                }
            }
            7 => {
                // concatenation creates a new container
                let k = if self.s.chance(60) { 'l' } else { 'm' };
                let (Some(a), Some(b)) = (self.pick(k), self.pick(k)) else { return self.op0() };
                self.set(&target, k);
                E::Assign(bx(id(&target)), None, bx(E::Bin(Op::Add, bx(id(&a)), bx(id(&b)))))
            }
            8 => {
                // mutation through a function argument or a capturing closure
                let Some(l) = self.pick('l') else { return self.op0() };
                mutation_on_alias(self);
                self.n += 1;
                let f = format!("mf{}", self.n);
                let v = self.value();
                if self.s.chance(50) {
                    let body = vec![Self::call("p", "push", vec![v]), E::Null];
                    self.pack(vec![
                        E::Assign(bx(id(&f)), None, bx(E::Fn(vec![FnArg { pat: Pat::Id("p".into(), None), default: None, variadic: false }], None, body))),
                        E::Call(bx(id(&f)), vec![(id(&l), false)]),
                    ])
                } else {
                    let body = vec![Self::call(&l, "push", vec![v]), E::Null];
                    self.pack(vec![E::Assign(bx(id(&f)), None, bx(E::Fn(vec![], None, body))), E::Call(bx(id(&f)), vec![])])
                }
            }
            9 => {
                // attempted mutation of immutable values
                match self.s.below(3) {
                    0 => {
                        let Some(t) = self.pick('t') else { return self.op0() };
                        E::Assign(bx(E::Index(bx(id(&t)), bx(E::Int(0)))), None, bx(E::Int(9)))
                    }
                    1 => {
                        self.set(&target, 's');
                        E::Assign(bx(id(&target)), None, bx(lit_str("str")))
                    }
                    _ => {
                        let Some(sv) = self.pick('s') else { return self.op0() };
                        E::Assign(bx(E::Index(bx(id(&sv)), bx(E::Int(0)))), None, bx(lit_str("z")))
                    }
                }
            }
            _ => {
                // store a container inside another (alias through containment)
                let (Some(outer), Some(inner)) = (self.pick('l'), self.pick('m')) else { return self.op0() };
                self.aliased = true;
                E::Print(vec![Self::call(&outer, "push", vec![id(&inner)])])
            }
        }
    }
    fn op0(&mut self) -> E {
        let t = ["va", "vb", "vc"][self.s.below(3) as usize].to_string();
        self.set(&t, 'l');
        E::Assign(bx(id(&t)), None, bx(E::List(vec![E::Int(1), E::Int(2), E::Int(3)])))
    }
    fn pack(&mut self, v: Vec<E>) -> E {
        E::Switch(vec![(Some(E::Id("\u{0}pack".into())), v)])
    }
}

pub fn history(data: &[u32]) -> (Vec<E>, bool) {
    let mut g = HG { s: Src::new(data), vars: vec![], aliased: false, alias_mutation: false, n: 0 };
    let n = 5 + g.s.below(36);
    let mut prog = vec![];
    for _ in 0..n {
        let op = g.op();
        // every operation runs under try so that the history continues after an error
        let ops = gen_::flatten(vec![op]);
        prog.push(E::Try(ops, vec![Catch { name: "_e".into(), ty: None, body: vec![E::Print(vec![lit_str("ERR")])] }], None));
        // print all live variables
        let mut parts = vec![SPart::Lit("|".into())];
        let mut names: Vec<String> = g.vars.iter().map(|v| v.0.clone()).collect();
        names.sort();
        for nme in names {
            parts.push(SPart::Lit(format!(" {nme}=")));
            parts.push(SPart::Expr(id(&nme), None));
        }
        prog.push(E::Print(vec![E::Str(parts)]));
    }
    (prog, g.alias_mutation)
}

/// does the program read a name before any assignment to it (reduction artefact)?
/// Source text of a generated history (used by the rc / arc differential)
pub fn history_source(data: &[u32]) -> Option<String> {
    let (prog, _) = history(data);
    // only histories that the abstract heap judges: cyclic containers and self-aliased binary
    // operations (recorded findings: unbounded recursion, re-entrant borrow) are left out
    let m = model::run_program(&prog, true);
    m.result.as_ref()?;
    Some(print_program(&prog, &Layout::canonical()))
}

fn undefined_names(prog: &[E]) -> bool {
    let mut assigned: Vec<String> = vec!["copy".into(), "koto".into(), "size".into(), "print".into(), "q".into(), "p".into(), "_e".into()];
    let mut bad = false;
    for st in prog {
        // reads first (conservative: an assignment's own right side may not read the target)
        let mut reads = vec![];
        let mut writes = vec![];
        st.visit(&mut |x| match x {
            E::Assign(t, _, _) => {
                if let E::Id(n) = &**t {
                    writes.push(n.clone())
                }
            }
            E::Id(n) => reads.push(n.clone()),
            _ => {}
        });
        for r in reads {
            if !assigned.contains(&r) && !writes.contains(&r) {
                bad = true;
            }
        }
        assigned.extend(writes);
    }
    bad
}

fn eval_history(prog: &[E], nontrivial: bool) -> Eval {
    let m = model::run_program(prog, true);
    let Some(res) = m.result.clone() else {
        let mut ev = Eval { discard: true, ..Default::default() };
        ev.classes.push(intern(&format!("unjudged:{}", m.unjudged.unwrap_or_default().chars().take(50).collect::<String>())));
        return ev;
    };
    let src = print_program(prog, &Layout::canonical());
    let out = kx::run(&src, &RunOpts::default());
    let mut ev = Eval::pass(nontrivial).class("history");
    let exp = crate::props::c01::Expect { stdout: m.stdout, result: res };
    if let Some((what, detail)) = crate::props::c01::compare(&exp, &out) {
        // point at the first differing line
        let el: Vec<&str> = exp.stdout.lines().collect();
        let ol: Vec<&str> = out.stdout.lines().collect();
        let k = el.iter().zip(ol.iter()).position(|(a, b)| a != b).unwrap_or(el.len().min(ol.len()));
        ev.fail = Some(Fail::new(format!("c14:history-{what}"), format!("first difference at output line {k}: model {:?}, koto {:?}\n{}\n--- source:\n{src}", el.get(k), ol.get(k), detail.chars().take(600).collect::<String>())));
    }
    ev
}

// ---------------------------------------------------------------------------------------------
// (b) laws over a value pool

pub const POOL: [(&str, char); 56] = [
    ("0", 'n'), ("1", 'n'), ("-1", 'n'), ("2", 'n'), ("2147483648", 'n'), ("9007199254740991", 'n'), ("9007199254740992", 'n'), ("9007199254740993", 'n'), ("9223372036854775807", 'n'), ("(-9223372036854775807 - 1)", 'n'),
    ("0.0", 'n'), ("-0.0", 'n'), ("1.0", 'n'), ("1.5", 'n'), ("0.5", 'n'), ("-1.5", 'n'), ("9007199254740992.0", 'n'), ("1.0e300", 'n'), ("(1.0 / 0.0)", 'n'), ("2.0", 'n'),
    ("-1.0", 'n'), ("-2", 'n'), ("-2.0", 'n'), ("-9223372036854775808.0", 'n'),
    ("''", 's'), ("'a'", 's'), ("'b'", 's'), ("'ab'", 's'), ("'B'", 's'), ("'é'", 's'), ("'a '", 's'),
    ("null", 'o'), ("true", 'o'), ("false", 'o'),
    ("(0..3)", 'o'), ("(0..=2)", 'o'), ("(1..3)", 'o'),
    ("(1, 2)", 'o'), ("(1, 2.0)", 'o'), ("('a',)", 'o'), ("()", 'o'), ("(1, (2, 3))", 'o'), ("(1, -2)", 'o'), ("(1, -2.0)", 'o'),
    ("[1, 2]", 'o'), ("[1, 2.0]", 'o'), ("[]", 'o'),
    ("{a: 1}", 'o'), ("{a: 1.0}", 'o'), ("{}", 'o'),
    ("{a: null}", 'o'), ("{b: null}", 'o'), ("{a: null, b: 1}", 'o'), ("{c: 5, b: 1}", 'o'), ("[1, [2, {a: null}]]", 'o'), ("[1, [2, {b: null}]]", 'o'),
];

fn is_big_int(text: &str) -> bool {
    // |n| > 2^53
    matches!(text, "9007199254740993" | "9223372036854775807" | "(-9223372036854775807 - 1)")
}
fn is_float(text: &str) -> bool {
    text.contains('.')
}

/// run a script that prints one token per line; returns the lines
fn run_lines(src: &str) -> Result<Vec<String>, String> {
    let out = kx::run(src, &RunOpts::default());
    if !out.outcome.is_ok() {
        return Err(format!("law script failed: {:?}", out.outcome));
    }
    Ok(out.stdout.lines().map(|s| s.to_string()).collect())
}

fn cmp_script(a: &str, b: &str) -> String {
    // eq, ne, lt, le, gt, ge each as true/false/ERR
    let mut s = format!("a = {a}\nb = {b}\n");
    for op in ["==", "!=", "<", "<=", ">", ">="] {
        s.push_str(&format!("r = try\n  a {op} b\ncatch _\n  'ERR'\nprint r\n"));
    }
    s
}


// structural equality oracle for the pool literals ---------------------------------------------

#[derive(Clone, Debug, PartialEq)]
enum Lit {
    Int(i64),
    Float(f64),
    Str(String),
    Null,
    Bool(bool),
    Range(String),
    Tuple(Vec<Lit>),
    List(Vec<Lit>),
    Map(Vec<(String, Lit)>),
}

/// parses the small literal grammar of the pool; None for anything else
fn parse_lit(text: &str) -> Option<Lit> {
    fn skip(b: &[u8], i: &mut usize) {
        while *i < b.len() && b[*i] == b' ' {
            *i += 1;
        }
    }
    fn items(b: &[u8], i: &mut usize, close: u8) -> Option<(Vec<Lit>, bool)> {
        let mut v = vec![];
        let mut trailing = false;
        loop {
            skip(b, i);
            if *i < b.len() && b[*i] == close {
                *i += 1;
                return Some((v, trailing));
            }
            v.push(value(b, i)?);
            trailing = false;
            skip(b, i);
            if *i < b.len() && b[*i] == b',' {
                *i += 1;
                trailing = true;
            }
        }
    }
    fn value(b: &[u8], i: &mut usize) -> Option<Lit> {
        skip(b, i);
        let c = *b.get(*i)?;
        match c {
            b'\'' => {
                let start = *i + 1;
                let end = start + b[start..].iter().position(|x| *x == b'\'')?;
                *i = end + 1;
                Some(Lit::Str(String::from_utf8(b[start..end].to_vec()).ok()?))
            }
            b'[' => {
                *i += 1;
                Some(Lit::List(items(b, i, b']')?.0))
            }
            b'{' => {
                *i += 1;
                let mut m = vec![];
                loop {
                    skip(b, i);
                    if b.get(*i) == Some(&b'}') {
                        *i += 1;
                        return Some(Lit::Map(m));
                    }
                    let start = *i;
                    while *i < b.len() && b[*i].is_ascii_alphanumeric() {
                        *i += 1;
                    }
                    let k = String::from_utf8(b[start..*i].to_vec()).ok()?;
                    skip(b, i);
                    if b.get(*i) != Some(&b':') {
                        return None;
                    }
                    *i += 1;
                    m.push((k, value(b, i)?));
                    skip(b, i);
                    if b.get(*i) == Some(&b',') {
                        *i += 1;
                    }
                }
            }
            b'(' => {
                let rest = std::str::from_utf8(&b[*i..]).ok()?;
                let close = rest.find(')')?;
                if rest[..close].contains("..") && !rest[1..close].contains('(') {
                    *i += close + 1;
                    return Some(Lit::Range(rest[..=close].to_string()));
                }
                *i += 1;
                let (v, trailing) = items(b, i, b')')?;
                if v.len() == 1 && !trailing {
                    return None; // a parenthesised expression, not a tuple
                }
                Some(Lit::Tuple(v))
            }
            _ => {
                let start = *i;
                while *i < b.len() && (b[*i].is_ascii_alphanumeric() || matches!(b[*i], b'.' | b'-' | b'+')) {
                    *i += 1;
                }
                let t = std::str::from_utf8(&b[start..*i]).ok()?;
                match t {
                    "null" => Some(Lit::Null),
                    "true" => Some(Lit::Bool(true)),
                    "false" => Some(Lit::Bool(false)),
                    _ if t.contains('.') || t.contains('e') => t.parse::<f64>().ok().map(Lit::Float),
                    _ => t.parse::<i64>().ok().map(Lit::Int),
                }
            }
        }
    }
    let b = text.as_bytes();
    let mut i = 0;
    let v = value(b, &mut i)?;
    skip(b, &mut i);
    if i == b.len() { Some(v) } else { None }
}

/// structural equality as the guide describes it; None where it is not defined (ranges written differently,
/// integers beyond 2^53 against floats: known finding C14-order-2p53)
fn lit_eq(a: &Lit, b: &Lit) -> Option<bool> {
    Some(match (a, b) {
        (Lit::Int(x), Lit::Int(y)) => x == y,
        (Lit::Float(x), Lit::Float(y)) => x == y,
        (Lit::Int(x), Lit::Float(y)) | (Lit::Float(y), Lit::Int(x)) => {
            if x.unsigned_abs() > (1u64 << 53) {
                return None;
            }
            *x as f64 == *y
        }
        (Lit::Str(x), Lit::Str(y)) => x == y,
        (Lit::Null, Lit::Null) => true,
        (Lit::Bool(x), Lit::Bool(y)) => x == y,
        (Lit::Range(x), Lit::Range(y)) => {
            if x == y {
                true
            } else {
                return None;
            }
        }
        (Lit::Tuple(x), Lit::Tuple(y)) | (Lit::List(x), Lit::List(y)) => {
            if x.len() != y.len() {
                false
            } else {
                let mut all = true;
                for (p, q) in x.iter().zip(y.iter()) {
                    match lit_eq(p, q) {
                        Some(true) => {}
                        Some(false) => return Some(false),
                        None => all = false,
                    }
                }
                if !all {
                    return None;
                }
                true
            }
        }
        (Lit::Map(x), Lit::Map(y)) => {
            if x.len() != y.len() {
                false
            } else {
                let mut all = true;
                for (k, p) in x {
                    match y.iter().find(|(k2, _)| k2 == k) {
                        None => return Some(false),
                        Some((_, q)) => match lit_eq(p, q) {
                            Some(true) => {}
                            Some(false) => return Some(false),
                            None => all = false,
                        },
                    }
                }
                if !all {
                    return None;
                }
                true
            }
        }
        _ => false,
    })
}

fn eval_pair(i: usize, j: usize) -> Eval {
    let (a, ka) = POOL[i];
    let (b, kb) = POOL[j];
    let mut ev = Eval::pass(true).class("pair-laws");
    let fwd = match run_lines(&cmp_script(a, b)) {
        Ok(l) => l,
        Err(e) => return Eval::failed("c14:law-script", e),
    };
    let bwd = match run_lines(&cmp_script(b, a)) {
        Ok(l) => l,
        Err(e) => return Eval::failed("c14:law-script", e),
    };
    if fwd.len() != 6 || bwd.len() != 6 {
        return Eval::failed("c14:law-script", format!("unexpected output {fwd:?} / {bwd:?}"));
    }
    let t = |s: &str| s == "true";
    let fail = |what: &str, d: String| Some(Fail::new(format!("c14:law-{what}"), format!("a = {a}, b = {b}: {d} (a?b: {fwd:?}, b?a: {bwd:?})")));
    if i == j && !t(&fwd[0]) {
        ev.fail = fail("reflexive", "a == a is not true".into());
        return ev;
    }
    if fwd[0] != bwd[0] {
        ev.fail = fail("symmetric", "a == b differs from b == a".into());
        return ev;
    }
    // `==` compares structurally
    if let (Some(la), Some(lb)) = (parse_lit(a), parse_lit(b)) {
        if let Some(want) = lit_eq(&la, &lb) {
            ev.classes.push("structural-equality-judged");
            if fwd[0] != want.to_string() {
                ev.fail = fail("structural", format!("a == b is {}, structurally the values are {}", fwd[0], if want { "equal" } else { "different" }));
                return ev;
            }
        }
    }
    if fwd[0] == "ERR" || fwd[1] == "ERR" || t(&fwd[0]) == t(&fwd[1]) {
        ev.fail = fail("negation", "a != b is not the negation of a == b".into());
        return ev;
    }
    if ka == kb && (ka == 'n' || ka == 's') {
        // total order on numbers and on strings
        let (eq, lt, le, gt, ge) = (t(&fwd[0]), t(&fwd[2]), t(&fwd[3]), t(&fwd[4]), t(&fwd[5]));
        if fwd[2..].iter().any(|x| x == "ERR") {
            ev.fail = fail("order-error", "ordering comparison raised an error".into());
            return ev;
        }
        if (lt as u8 + eq as u8 + gt as u8) != 1 {
            ev.fail = fail("trichotomy", "not exactly one of <, ==, >".into());
            return ev;
        }
        if le != (lt || eq) || ge != (gt || eq) {
            ev.fail = fail("le-ge", "<= / >= inconsistent with < == >".into());
            return ev;
        }
        if t(&bwd[4]) != lt || t(&bwd[2]) != gt {
            ev.fail = fail("antisymmetric", "a < b differs from b > a".into());
            return ev;
        }
    }
    ev
}

fn eval_triple(i: usize, j: usize, k: usize) -> Eval {
    let (a, b, c) = (POOL[i].0, POOL[j].0, POOL[k].0);
    let mut s = format!("a = {a}\nb = {b}\nc = {c}\n");
    for (x, y) in [("a", "b"), ("b", "c"), ("a", "c")] {
        s.push_str(&format!("print {x} < {y}\nprint {x} == {y}\n"));
    }
    let l = match run_lines(&s) {
        Ok(l) if l.len() == 6 => l,
        other => return Eval::failed("c14:law-script", format!("{other:?}")),
    };
    let t = |n: usize| l[n] == "true";
    let mut ev = Eval::pass(true).class("triple-laws");
    // known shape: mixed int/float with an integer beyond 2^53
    let texts = [a, b, c];
    let shape = texts.iter().any(|x| is_big_int(x)) && texts.iter().any(|x| is_float(x)) || texts.contains(&"9007199254740992") && texts.contains(&"9007199254740993") && texts.iter().any(|x| is_float(x));
    let tag = |what: &str| if shape { format!("c14:law-{what}:int-float-beyond-2p53") } else { format!("c14:law-{what}") };
    if t(0) && t(2) && !t(4) {
        ev.fail = Some(Fail::new(tag("lt-transitive"), format!("a = {a}, b = {b}, c = {c}: a < b and b < c but not a < c")));
    } else if t(1) && t(3) && !t(5) {
        ev.fail = Some(Fail::new(tag("eq-transitive"), format!("a = {a}, b = {b}, c = {c}: a == b and b == c but not a == c")));
    } else if t(1) && t(2) != t(4) {
        ev.fail = Some(Fail::new(tag("eq-substitution"), format!("a = {a}, b = {b}, c = {c}: a == b but (b < c) != (a < c)")));
    }
    ev
}

// (c) key identity
fn hashable(text: &str) -> bool {
    !text.starts_with('[') && !text.starts_with('{') && !text.contains("[") && !text.contains("..")
}

fn eval_keys(i: usize, j: usize) -> Eval {
    let (k1, k2) = (POOL[i].0, POOL[j].0);
    let mut results = vec![];
    for pad in [0usize, 1, 8, 40] {
        let mut s = String::from("m = {}\n");
        for p in 0..pad {
            s.push_str(&format!("m.insert 'pad{p}', {p}\n"));
        }
        s.push_str(&format!("k1 = {k1}\nk2 = {k2}\nm.insert k1, 'v'\nprint m.contains_key k2\nm.insert k2, 'w'\nprint (size m) - {pad}\nprint k1 == k2\n"));
        match run_lines(&s) {
            Ok(l) if l.len() == 3 => results.push((pad, l)),
            other => return Eval::failed("c14:key-script", format!("k1 = {k1}, k2 = {k2}: {other:?}")),
        }
    }
    let mut ev = Eval::pass(true).class("key-identity");
    let shape = (is_float(k1) != is_float(k2)) && POOL[i].1 == 'n' && POOL[j].1 == 'n' || (k1.contains("2.0") != k2.contains("2.0")) && k1.starts_with("(1, 2") && k2.starts_with("(1, 2");
    let beyond = (is_big_int(k1) || is_big_int(k2)) && (is_float(k1) || is_float(k2));
    let tag = |what: &str| {
        if beyond {
            format!("c14:key-{what}:int-float-beyond-2p53")
        } else if shape {
            format!("c14:key-{what}:int-vs-equal-float")
        } else {
            format!("c14:key-{what}")
        }
    };
    for (pad, l) in &results {
        let (contains, delta, equal) = (l[0] == "true", l[1].as_str(), l[2] == "true");
        if contains != equal {
            ev.fail = Some(Fail::new(tag("contains"), format!("k1 = {k1}, k2 = {k2}, padding {pad}: contains_key(k2) after insert(k1) is {contains} but k1 == k2 is {equal}")));
            return ev;
        }
        if (delta == "1") != equal {
            ev.fail = Some(Fail::new(tag("entries"), format!("k1 = {k1}, k2 = {k2}, padding {pad}: inserting both leaves {delta} entries but k1 == k2 is {equal}")));
            return ev;
        }
    }
    ev
}

// (d) sorting
const SORT_ATOMS: [&str; 8] = ["1", "2", "2.0", "-1", "0.5", "3", "1", "10"];
const SORT_STRS: [&str; 5] = ["'a'", "'b'", "'ab'", "'B'", "'a'"];

fn eval_sort(items: &[&str], variant: usize) -> Eval {
    let list = format!("[{}]", items.join(", "));
    let mut s = format!("l = {list}\ns = copy l\n");
    match variant {
        0 => s.push_str("s.sort()\n"),
        1 => s.push_str("s.sort |x| x\n"),
        2 => s.push_str("s = l.to_tuple().sort_copy().to_list()\n"),
        _ => {
            // map.sort by key
            s = format!("l = {list}\nm = {{}}\nfor i, x in l.enumerate()\n  m.insert (x, i), i\nm.sort()\ns = m.keys().each(|k| k[0]).to_list()\n");
        }
    }
    s.push_str("print size(s) == size(l)\nordered = true\nfor i in 1..size(s)\n  if s[i] < s[i - 1]\n    ordered = false\nprint ordered\nperm = true\nfor x in l\n  cl = l.keep(|y| y == x).count()\n  cs = s.keep(|y| y == x).count()\n  if cl != cs\n    perm = false\nprint perm\nprint s\n");
    let mut ev = Eval::pass(true).class("sorting");
    match run_lines(&s) {
        Ok(l) if l.len() == 4 => {
            if l[0] != "true" || l[1] != "true" || l[2] != "true" {
                ev.fail = Some(Fail::new("c14:sort", format!("sorting {list} (variant {variant}) gave {}: same size {}, ordered {}, permutation {}", l[3], l[0], l[1], l[2])));
            }
        }
        other => ev.fail = Some(Fail::new("c14:sort-script", format!("{list} variant {variant}: {other:?}"))),
    }
    ev
}


const SORT_MIXED: [&str; 6] = ["1", "'a'", "2", "null", "'b'", "(1, 2)"];

/// a sort over values that may not be comparable: whether it succeeds or fails, the list (seen through an
/// alias) still holds exactly the elements it held before
fn eval_sort_mixed(items: &[&str], variant: usize) -> Eval {
    let list = format!("[{}]", items.join(", "));
    let call = match variant {
        0 => "l.sort()",
        1 => "l.sort |x| x",
        _ => "l.to_tuple().sort_copy()",
    };
    let s = format!(
        "l = {list}\nalias = l\norig = copy l\nr = try\n  {call}\n  'ok'\ncatch _\n  'ERR'\nprint r\nprint size(alias) == size(orig)\nperm = true\nfor x in orig\n  co = orig.keep(|y| y == x).count()\n  ca = alias.keep(|y| y == x).count()\n  if co != ca\n    perm = false\nprint perm\nprint alias\n"
    );
    let mut ev = Eval::pass(true).class("sorting-incomparable");
    match run_lines(&s) {
        Ok(l) if l.len() == 4 => {
            ev.classes.push(if l[0] == "ok" { "sort-succeeded" } else { "sort-failed" });
            if l[1] != "true" || l[2] != "true" {
                ev.fail = Some(Fail::new("c14:sort-loses-elements", format!("`{call}` on {list} ({}) left {} behind: same size {}, same elements {}", l[0], l[3], l[1], l[2])));
            }
        }
        other => ev.fail = Some(Fail::new("c14:sort-script", format!("{list} variant {variant}: {other:?}"))),
    }
    ev
}

// (e) map index assignment keeps order, replaces the entry at the index and any duplicate key
fn eval_map_index(size: usize, index: usize, key: usize) -> Eval {
    let keys = ["a", "b", "c", "d", "z"];
    let lit: Vec<String> = (0..size).map(|i| format!("{}: {}", keys[i], i + 1)).collect();
    let newkey = if key < size { keys[key] } else { "z" };
    let src = format!("m = {{{}}}\nalias = m\nm[{index}] = ('{newkey}', 9)\nprint alias\n", lit.join(", "));
    let mut ev = Eval::pass(true).class("map-index-assign");
    // model
    let mut entries: Vec<(String, i64)> = (0..size).map(|i| (keys[i].to_string(), i as i64 + 1)).collect();
    let expected = if index >= size {
        "ERR".to_string()
    } else {
        let mut idx = index;
        if let Some(p) = entries.iter().position(|e| e.0 == newkey) {
            if p != index {
                entries.remove(p);
                if p < index {
                    idx -= 1;
                }
            }
        }
        entries[idx] = (newkey.to_string(), 9);
        format!("{{{}}}", entries.iter().map(|(k, v)| format!("{k}: {v}")).collect::<Vec<_>>().join(", "))
    };
    let out = kx::run(&src, &RunOpts::default());
    let got = if out.outcome.is_ok() { out.stdout.trim_end().to_string() } else { "ERR".to_string() };
    if got != expected {
        ev.fail = Some(Fail::new("c14:map-index-assign", format!("expected {expected}, got {got} ({:?})\n{src}", out.outcome.class())));
    }
    ev
}

fn run_shard(ctx: &mut Ctx) {
    {
        let mut idx = 0u64;
        for size in 1..=4usize {
            for index in 0..=size {
                for key in 0..=size {
                    idx += 1;
                    if ctx.mine(idx) {
                        let case = json!({"kind": "map-index", "size": size, "index": index, "key": key});
                        ctx.run_case(&case, || eval_map_index(size, index, key));
                    }
                }
            }
        }
    }
    // (a)
    let n = ctx.tier.pick(40_000, 400_000);
    let post = |data: &Vec<u32>, f: &Fail| -> Option<(Value, Fail)> {
        let (prog, _) = history(data);
        let class = sig_class(&f.sig).to_string();
        let mut last = None;
        let reduced = crate::shrink::reduce(
            &prog,
            &[json!("Null"), json!({"Int": 0})],
            &mut |p: &Vec<E>| {
                if gen_::domain_ok(p).is_err() || undefined_names(p) {
                    return false;
                }
                match guarded(|| eval_history(p, true)) {
                    Ok(ev) => match ev.fail {
                        Some(f2) if sig_class(&f2.sig) == class => {
                            last = Some(f2);
                            true
                        }
                        _ => false,
                    },
                    Err(_) => false,
                }
            },
            std::time::Duration::from_secs(10),
        );
        last.map(|f2| (json!({"kind": "history", "src": print_program(&reduced, &Layout::canonical()), "ast": serde_json::to_value(&reduced).unwrap()}), f2))
    };
    ctx.explore_r(
        "histories",
        n,
        &gen_::choice_stream(400),
        |data| {
            let (p, _) = history(data);
            json!({"kind": "history", "src": print_program(&p, &Layout::canonical()), "ast": serde_json::to_value(&p).unwrap()})
        },
        |data| {
            let (p, nt) = history(data);
            eval_history(&p, nt)
        },
        Some(&post),
    );
    // (b) pairs: all; triples: numbers and strings (quick: 20% sample)
    let np = POOL.len();
    let mut idx = 0u64;
    for i in 0..np {
        for j in 0..np {
            idx += 1;
            if !ctx.mine(idx) {
                continue;
            }
            let case = json!({"kind": "pair", "i": i, "j": j, "a": POOL[i].0, "b": POOL[j].0});
            ctx.run_case(&case, || eval_pair(i, j));
        }
    }
    let triple_pct: u64 = ctx.tier.pick(100, 100);
    for kind in ['n', 's'] {
        let ids: Vec<usize> = (0..np).filter(|i| POOL[*i].1 == kind).collect();
        for &i in &ids {
            for &j in &ids {
                for &k in &ids {
                    idx += 1;
                    if !ctx.mine(idx) || fnv(format!("{}:{i}:{j}:{k}", ctx.seed).as_bytes()) % 100 >= triple_pct {
                        continue;
                    }
                    let case = json!({"kind": "triple", "i": i, "j": j, "k": k, "a": POOL[i].0, "b": POOL[j].0, "c": POOL[k].0});
                    ctx.run_case(&case, || eval_triple(i, j, k));
                }
            }
        }
    }
    // (c) keys
    let hk: Vec<usize> = (0..np).filter(|i| hashable(POOL[*i].0)).collect();
    for &i in &hk {
        for &j in &hk {
            idx += 1;
            if !ctx.mine(idx) {
                continue;
            }
            let case = json!({"kind": "keys", "i": i, "j": j, "k1": POOL[i].0, "k2": POOL[j].0});
            ctx.run_case(&case, || eval_keys(i, j));
        }
    }
    // (d) sorting: all lists up to length 4, sampled longer ones
    let max_full = ctx.tier.pick(3usize, 4usize);
    for (atoms, name) in [(&SORT_ATOMS[..], "numbers"), (&SORT_STRS[..], "strings")] {
        let mut stack: Vec<Vec<usize>> = vec![vec![]];
        while let Some(cur) = stack.pop() {
            for variant in 0..4 {
                idx += 1;
                if ctx.mine(idx) {
                    let items: Vec<&str> = cur.iter().map(|i| atoms[*i]).collect();
                    let case = json!({"kind": "sort", "items": items, "variant": variant, "set": name});
                    ctx.run_case(&case, || eval_sort(&items, variant));
                }
            }
            if cur.len() < max_full {
                for a in 0..atoms.len() {
                    let mut n = cur.clone();
                    n.push(a);
                    stack.push(n);
                }
            }
        }
        if name == "numbers" {
            // incomparable elements: all lists up to the same length
            let mut stack: Vec<Vec<usize>> = vec![vec![]];
            while let Some(cur) = stack.pop() {
                for variant in 0..3 {
                    idx += 1;
                    if ctx.mine(idx) {
                        let items: Vec<&str> = cur.iter().map(|i| SORT_MIXED[*i]).collect();
                        let case = json!({"kind": "sort-mixed", "items": items, "variant": variant});
                        ctx.run_case(&case, || eval_sort_mixed(&items, variant));
                    }
                }
                if cur.len() < max_full + 1 {
                    for a in 0..SORT_MIXED.len() {
                        let mut n = cur.clone();
                        n.push(a);
                        stack.push(n);
                    }
                }
            }
        }
        let n_long = ctx.tier.pick(300u64, 6000u64);
        for r in 0..n_long {
            idx += 1;
            if !ctx.mine(idx) {
                continue;
            }
            let h = fnv(format!("{}:{name}:{r}", ctx.seed).as_bytes());
            let len = 5 + (h % 3) as usize;
            let items: Vec<&str> = (0..len).map(|k| atoms[((h >> (8 * k)) % atoms.len() as u64) as usize]).collect();
            let variant = (h >> 60) as usize % 4;
            let case = json!({"kind": "sort", "items": items, "variant": variant, "set": name});
            ctx.run_case(&case, || eval_sort(&items, variant));
        }
    }
}

fn replay(case: &Value) -> Option<Fail> {
    let u = |k: &str| case[k].as_u64().map(|x| x as usize);
    match case["kind"].as_str()? {
        "history" => {
            let p: Vec<E> = serde_json::from_value(case["ast"].clone()).ok()?;
            eval_history(&p, true).fail
        }
        "pair" => eval_pair(u("i")?, u("j")?).fail,
        "map-index" => eval_map_index(u("size")?, u("index")?, u("key")?).fail,
        "triple" => eval_triple(u("i")?, u("j")?, u("k")?).fail,
        "keys" => eval_keys(u("i")?, u("j")?).fail,
        "sort-mixed" => {
            let items: Vec<String> = serde_json::from_value(case["items"].clone()).ok()?;
            let refs: Vec<&str> = items.iter().map(|s| s.as_str()).collect();
            eval_sort_mixed(&refs, case["variant"].as_u64()? as usize).fail
        }
        "sort" => {
            let items: Vec<String> = serde_json::from_value(case["items"].clone()).ok()?;
            let refs: Vec<&str> = items.iter().map(|s| s.as_str()).collect();
            eval_sort(&refs, u("variant")?).fail
        }
        _ => None,
    }
}

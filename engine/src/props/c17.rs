//! C17 — objects: operators and protocols dispatch to metamap entries as documented
use crate::core::*;
use crate::kx::{self, Capture, RunOpts};
use crate::pgen::{Src, choice_stream};
#[allow(unused_imports)]
use koto_runtime::{ErrorKind, Result, derive::*, prelude::*};
use serde::{Deserialize, Serialize};
use serde_json::{Value, json};

pub static PROP: Prop = Prop {
    id: "C17",
    rule: "(a) script objects: two object definitions decoded from a proptest choice vector (for each of the six arithmetic operators: absent / present / present-but-throwing-koto.unimplemented, the @r-form, the compound form; any subset of the six comparison keys with fixed consistent answers; @negate, @size, @index, @index_assign, @access, @access_assign, @call, @iterator, @next, @display, @debug, @type, @meta entries; own metamap or one shared through with_meta; an optional @base chain of depth 1-2 carrying data and @meta entries) x one of ~130 operations (every arithmetic operator with the object on either side against a number, string, null, list, the other object or itself; every compound assignment; every comparison; negation; size; index; index assignment; access of own data / @meta / inherited data / inherited @meta / missing keys / iterator functions; access assignment; call; call as the callback of a core-library function (`fold`); for-iteration; display and debug interpolation). Every metakey function prints who was called with which operands and returns a marker, and the printed call trace and result are compared with a dispatch model written from the guide (LHS first, RHS @r-fallback when the LHS lacks the operator or throws koto.unimplemented, != from @==, <= / > / >= from @< and @==, @next before @iterator, @debug falling back to @display, access order data -> @meta -> @base chain -> iterator functions). (b) host objects: five Rust object types implementing different subsets of the KotoObject interface (nothing, arithmetic on the left, arithmetic on the right, comparisons via less+equal only, everything) combined with each other, script objects and plain values under the same operations; same model, plus: every operation a type does not implement is an error. Non-trivial: a fallback, a derived comparison, a shared or inherited lookup or an error is involved.",
    assumptions: &[
        "not judged (guide silent): == / != against null (decided without calling @==), comparisons with the object on the right, compound assignment whose left side is not an object, operators of objects that only inherit them through @base (not inherited), derived comparisons when only one of @< / @== exists or when both answer true, default display of objects without @display, size/index/iteration of objects without the corresponding metakeys (plain map behaviour)",
    ],
    shards: |_| 16,
    run_shard,
    replay,
    min_nontrivial_fraction: 0.3,
};

pub const ARITH: [&str; 6] = ["+", "-", "*", "/", "%", "^"];
pub const CMP: [&str; 6] = ["==", "!=", "<", "<=", ">", ">="];

#[derive(Clone, Debug, Default, Serialize, Deserialize)]
pub struct Spec {
    arith: [u8; 6],   // 0 absent, 1 present, 2 throws koto.unimplemented, 3 throws another error
    arith_r: [bool; 6],
    compound: [bool; 6],
    cmp: [bool; 6],
    less_val: bool,
    eq_val: bool,
    negate: bool,
    size: bool,
    index: bool,
    index_assign: bool,
    access: bool,
    access_assign: bool,
    call: bool,
    iterator: bool,
    next: bool,
    display: bool,
    debug: bool,
    typed: bool,
    meta_named: bool,
    shared: bool,
    base_depth: u8, // 0..=2
}

impl Spec {
    fn has_meta(&self) -> bool {
        self.arith.iter().any(|x| *x > 0)
            || self.arith_r.iter().any(|x| *x)
            || self.compound.iter().any(|x| *x)
            || self.cmp.iter().any(|x| *x)
            || self.negate
            || self.size
            || self.index
            || self.index_assign
            || self.access
            || self.access_assign
            || self.call
            || self.iterator
            || self.next
            || self.display
            || self.debug
            || self.typed
            || self.meta_named
            || self.base_depth > 0
    }
}

fn gen_spec(s: &mut Src) -> Spec {
    let mut sp = Spec::default();
    for i in 0..6 {
        sp.arith[i] = s.weighted(&[3, 4, 2, 1]) as u8;
        sp.arith_r[i] = s.below(2) == 0;
        sp.compound[i] = s.below(2) == 0;
        sp.cmp[i] = s.below(2) == 0;
    }
    sp.less_val = s.below(2) == 0;
    sp.eq_val = !sp.less_val && s.below(2) == 0;
    sp.negate = s.below(2) == 0;
    sp.size = s.below(2) == 0;
    sp.index = s.below(2) == 0;
    sp.index_assign = s.below(2) == 0;
    sp.access = s.below(5) == 0;
    sp.access_assign = s.below(3) == 0;
    sp.call = s.below(2) == 0;
    sp.iterator = s.below(2) == 0;
    sp.next = s.below(3) == 0;
    sp.display = s.below(2) == 0;
    sp.debug = s.below(2) == 0;
    sp.typed = s.below(2) == 0;
    sp.meta_named = s.below(2) == 0;
    sp.shared = s.below(3) == 0;
    sp.base_depth = s.weighted(&[3, 2, 1]) as u8;
    sp
}

const PRELUDE: &str = "\
show = |v|
  match type v
    'Number' or 'String' or 'Null' or 'Bool' then '{v:?}'
    'List' then 'list'
    'Tuple' then 'tuple'
    'Function' then 'fn'
    'Iterator' then 'iter'
    x if x.starts_with 'Host' then host_show v
    else 'obj{map.get v, 'id'}'
";

/// Source defining object `name` (and its bases) for `spec`
fn object_source(name: &str, sp: &Spec) -> String {
    let mut m = String::new(); // metamap entries (indent 2)
    let id = name;
    let who = format!("{{map.get self, 'id'}}");
    for (i, op) in ARITH.iter().enumerate() {
        match sp.arith[i] {
            1 => m.push_str(&format!("  @{op}: |o|\n    print 'call {who}.@{op}({{show o}})'\n    'r:{{map.get self, 'id'}}{op}'\n")),
            2 => m.push_str(&format!("  @{op}: |o|\n    print 'call {who}.@{op}({{show o}})'\n    throw koto.unimplemented\n")),
            3 => m.push_str(&format!("  @{op}: |o|\n    print 'call {who}.@{op}({{show o}})'\n    throw 'boom'\n")),
            _ => {}
        }
        if sp.arith_r[i] {
            m.push_str(&format!("  @r{op}: |o|\n    print 'call {who}.@r{op}({{show o}})'\n    'r:{{map.get self, 'id'}}r{op}'\n"));
        }
        if sp.compound[i] {
            m.push_str(&format!("  @{op}=: |o|\n    print 'call {who}.@{op}=({{show o}})'\n    'discarded'\n"));
        }
    }
    for (i, op) in CMP.iter().enumerate() {
        if sp.cmp[i] {
            let val = match *op {
                "==" => sp.eq_val,
                "!=" => !sp.eq_val,
                "<" => sp.less_val,
                "<=" => sp.less_val || sp.eq_val,
                ">" => !(sp.less_val || sp.eq_val),
                _ => !sp.less_val,
            };
            // explicit implementations of derived operators answer the opposite of the derived value,
            // so that the model can tell an explicit call from a derivation
            let val = if matches!(*op, "!=" | "<=" | ">" | ">=") { !val } else { val };
            m.push_str(&format!("  @{op}: |o|\n    print 'call {who}.@{op}({{show o}})'\n    {val}\n"));
        }
    }
    if sp.negate {
        m.push_str(&format!("  @negate: ||\n    print 'call {who}.@negate()'\n    'r:{{map.get self, 'id'}}neg'\n"));
    }
    if sp.size {
        m.push_str(&format!("  @size: ||\n    print 'call {who}.@size()'\n    3\n"));
    }
    if sp.index {
        m.push_str(&format!("  @index: |i|\n    print 'call {who}.@index({{show i}})'\n    'r:{{map.get self, 'id'}}[]'\n"));
    }
    if sp.index_assign {
        m.push_str(&format!("  @index_assign: |i, v|\n    print 'call {who}.@index_assign({{show i}}, {{show v}})'\n    null\n"));
    }
    if sp.access {
        m.push_str(&format!("  @access: |k|\n    print 'call {who}.@access({{show k}})'\n    'r:{{map.get self, 'id'}}.{{k}}'\n"));
    }
    if sp.access_assign {
        m.push_str(&format!("  @access_assign: |k, v|\n    print 'call {who}.@access_assign({{show k}}, {{show v}})'\n    null\n"));
    }
    if sp.call {
        m.push_str(&format!("  @call: |a, b|\n    print 'call {who}.@call({{show a}}, {{show b}})'\n    'r:{{map.get self, 'id'}}()'\n"));
    }
    if sp.iterator {
        m.push_str(&format!("  @iterator: ||\n    print 'call {who}.@iterator()'\n    ('i1', 'i2').iter()\n"));
    }
    if sp.next {
        m.push_str(&format!(
            "  @next: ||\n    n = map.get self, 'n'\n    print 'call {who}.@next() n={{n}}'\n    map.insert self, 'n', n + 1\n    if n < 2 then 'n{{n}}' else null\n"
        ));
    }
    if sp.display {
        m.push_str(&format!("  @display: ||\n    print 'call {who}.@display()'\n    'D<{{map.get self, 'id'}}>'\n"));
    }
    if sp.debug {
        m.push_str(&format!("  @debug: ||\n    print 'call {who}.@debug()'\n    'G<{{map.get self, 'id'}}>'\n"));
    }
    if sp.typed {
        m.push_str(&format!("  @type: 'T{id}'\n"));
    }
    if sp.meta_named {
        m.push_str(&format!("  @meta mkey: 'meta:{id}'\n  @meta mfn: || 'mfn:{{map.get self, 'id'}}'\n"));
    }
    let mut out = String::new();
    // bases first
    for d in (1..=sp.base_depth).rev() {
        let bname = format!("{name}_base{d}");
        out.push_str(&format!("{bname} =\n  id: '{bname}'\n  bdata{d}: 'bdata{d}:{bname}'\n  bfn{d}: || 'bfn{d}:{{map.get self, 'id'}}'\n  @meta bmeta{d}: 'bmeta{d}:{bname}'\n"));
        if d < sp.base_depth {
            out.push_str(&format!("  @base: {name}_base{}\n", d + 1));
        }
    }
    let base_line = if sp.base_depth > 0 { format!("  @base: {name}_base1\n") } else { String::new() };
    if sp.shared && (!m.is_empty() || !base_line.is_empty()) {
        out.push_str(&format!("{name}_meta =\n{m}{base_line}"));
        out.push_str(&format!("{name} = {{id: '{id}', n: 0, own: 'own:{id}'}}.with_meta {name}_meta\n"));
    } else {
        out.push_str(&format!("{name} =\n  id: '{id}'\n  n: 0\n  own: 'own:{id}'\n{m}{base_line}"));
    }
    out
}

#[derive(Clone, Debug, PartialEq, Serialize, Deserialize)]
pub enum Operand {
    A,
    B,
    Num,
    Str,
    Null,
    List,
    Host(u8),
}

impl Operand {
    fn src(&self) -> String {
        match self {
            Operand::A => "oa".into(),
            Operand::B => "ob".into(),
            Operand::Num => "7".into(),
            Operand::Str => "'s'".into(),
            Operand::Null => "null".into(),
            Operand::List => "[1]".into(),
            Operand::Host(k) => format!("host{k}"),
        }
    }
    fn shown(&self) -> String {
        match self {
            Operand::A => "objoa".into(),
            Operand::B => "objob".into(),
            Operand::Num => "7".into(),
            Operand::Str => "'s'".into(),
            Operand::Null => "null".into(),
            Operand::List => "list".into(),
            Operand::Host(k) => format!("host{k}"),
        }
    }
}

#[derive(Clone, Debug, Serialize, Deserialize)]
pub enum Operation {
    Arith(usize, Operand, Operand),
    Compound(usize, Operand, Operand),
    Cmp(usize, Operand, Operand),
    Negate(Operand),
    Size(Operand),
    Index(Operand),
    IndexAssign(Operand),
    Access(Operand, String),
    AccessCall(Operand, String),
    AccessAssign(Operand),
    Call(Operand),
    /// the object is handed to a core-library function that calls it back (host call path)
    CallAsCallback(Operand),
    ForLoop(Operand),
    ToTuple(Operand),
    Display(Operand),
    Debug(Operand),
}

fn operation_source(op: &Operation) -> String {
    // the body computes `r`; it is wrapped in try by the caller
    match op {
        Operation::Arith(i, l, r) => format!("  r = show({} {} {})\n", l.src(), ARITH[*i], r.src()),
        Operation::Compound(i, l, r) => format!("  x = {}\n  x {}= {}\n  r = show x\n", l.src(), ARITH[*i], r.src()),
        Operation::Cmp(i, l, r) => format!("  r = show({} {} {})\n", l.src(), CMP[*i], r.src()),
        Operation::Negate(o) => format!("  r = show(-{})\n", o.src()),
        Operation::Size(o) => format!("  r = show(size {})\n", o.src()),
        Operation::Index(o) => format!("  r = show({}[1])\n", o.src()),
        Operation::IndexAssign(o) => format!("  x = {}\n  x[1] = 'v'\n  r = 'done'\n", o.src()),
        Operation::Access(o, k) => format!("  r = show({}.{k})\n", o.src()),
        Operation::AccessCall(o, k) => format!("  r = show({}.{k}())\n", o.src()),
        Operation::AccessAssign(o) => format!("  x = {}\n  x.newkey = 'v'\n  r = show(map.get(x, 'newkey'))\n", o.src()),
        Operation::Call(o) => format!("  r = show({}(1, 's'))\n", o.src()),
        Operation::CallAsCallback(o) => format!("  r = show((1,).fold('s0', {}))\n", o.src()),
        Operation::ForLoop(o) => format!("  acc = ''\n  for v in {}\n    acc = acc + '[{{show v}}]'\n  r = acc\n", o.src()),
        Operation::ToTuple(o) => format!("  r = '{{{}.to_tuple()}}'\n", o.src()),
        Operation::Display(o) => format!("  r = 'x{{{}}}y'\n", o.src()),
        Operation::Debug(o) => format!("  r = 'x{{{}:?}}y'\n", o.src()),
    }
}

#[derive(Clone, Debug, PartialEq)]
pub enum Expected {
    /// exact trace lines and result text
    Exact(Vec<String>, String),
    /// trace must consist of calls from this set (at least one), result text fixed
    Derived(Vec<String>, String),
    Error(Vec<String>),
    Unjudged,
}

/// What the model knows about an operand
pub enum Kind<'a> {
    Script(&'a Spec, &'static str),
    Host(&'a HostCaps, u8),
    Number,
    Other,
}

fn kind<'a>(o: &Operand, a: &'a Spec, b: &'a Spec, hosts: &'a [HostCaps]) -> Kind<'a> {
    match o {
        Operand::A => {
            if a.has_meta() { Kind::Script(a, "oa") } else { Kind::Other }
        }
        Operand::B => {
            if b.has_meta() { Kind::Script(b, "ob") } else { Kind::Other }
        }
        Operand::Num => Kind::Number,
        Operand::Host(k) => Kind::Host(&hosts[*k as usize], *k),
        _ => Kind::Other,
    }
}

fn model(op: &Operation, a: &Spec, b: &Spec, hosts: &[HostCaps]) -> (Expected, bool) {
    use Expected::*;
    let mut nontrivial = false;
    let e = match op {
        Operation::Arith(i, l, r) => {
            let opn = ARITH[*i];
            let (lk, rk) = (kind(l, a, b, hosts), kind(r, a, b, hosts));
            let mut trace = vec![];
            let is_map = |o: &Operand| matches!(o, Operand::A | Operand::B);
            let map_union = *i == 0 && is_map(l) && is_map(r);
            // plain maps without a metamap and other plain values: no operator
            let rhs_fallback = |trace: &mut Vec<String>| -> Expected {
                match &rk {
                    Kind::Script(rs, rid) if rs.arith_r[*i] => {
                        trace.push(format!("call {rid}.@r{opn}({})", l.shown()));
                        Exact(trace.clone(), format!("'r:{rid}r{opn}'"))
                    }
                    Kind::Host(hc, k) if hc.arith_r => {
                        trace.push(format!("call host{k}.{}_rhs({})", arith_name(*i), l.shown()));
                        Exact(trace.clone(), format!("'r:host{k}r{opn}'"))
                    }
                    // `+` of two maps without a usable operator is the map union
                    _ if map_union => Unjudged,
                    _ => Error(trace.clone()),
                }
            };
            match &lk {
                Kind::Number if matches!(rk, Kind::Number) => Unjudged,
                Kind::Script(ls, lid) => match ls.arith[*i] {
                    1 => {
                        trace.push(format!("call {lid}.@{opn}({})", r.shown()));
                        Exact(trace, format!("'r:{lid}{opn}'"))
                    }
                    2 => {
                        nontrivial = true;
                        trace.push(format!("call {lid}.@{opn}({})", r.shown()));
                        rhs_fallback(&mut trace)
                    }
                    3 => {
                        // any other error propagates, the right operand is not consulted
                        nontrivial = true;
                        trace.push(format!("call {lid}.@{opn}({})", r.shown()));
                        Error(trace)
                    }
                    _ => {
                        nontrivial = true;
                        rhs_fallback(&mut trace)
                    }
                },
                Kind::Host(hc, k) => {
                    nontrivial = true;
                    if hc.arith_l == 1 {
                        trace.push(format!("call host{k}.{}({})", arith_name(*i), r.shown()));
                        Exact(trace, format!("'r:host{k}{opn}'"))
                    } else if hc.arith_l == 2 {
                        // implemented, but reports "unimplemented" for this operand
                        trace.push(format!("call host{k}.{}({})", arith_name(*i), r.shown()));
                        rhs_fallback(&mut trace)
                    } else {
                        rhs_fallback(&mut trace)
                    }
                }
                _ => {
                    // strings and lists define + among themselves; anything else goes to the RHS
                    if matches!((l, r), (Operand::Str, Operand::Str) | (Operand::List, Operand::List)) {
                        Unjudged
                    } else {
                        nontrivial = true;
                        rhs_fallback(&mut trace)
                    }
                }
            }
        }
        Operation::Compound(i, l, r) => {
            let opn = ARITH[*i];
            match kind(l, a, b, hosts) {
                Kind::Script(ls, lid) => {
                    if ls.compound[*i] {
                        Exact(vec![format!("call {lid}.@{opn}=({})", r.shown())], l.shown())
                    } else {
                        nontrivial = true;
                        Error(vec![])
                    }
                }
                Kind::Host(hc, k) => {
                    nontrivial = true;
                    if hc.compound {
                        Exact(vec![format!("call host{k}.{}_assign({})", arith_name(*i), r.shown())], l.shown())
                    } else {
                        Error(vec![])
                    }
                }
                _ => Unjudged,
            }
        }
        Operation::Cmp(i, l, r) => {
            let opn = CMP[*i];
            if matches!(r, Operand::Null) && *i < 2 {
                return (Unjudged, false);
            }
            match kind(l, a, b, hosts) {
                Kind::Script(ls, lid) => {
                    let call = |k: &str| format!("call {lid}.@{k}({})", r.shown());
                    let has = |k: &str| ls.cmp[CMP.iter().position(|c| *c == k).unwrap()];
                    let (lv, ev) = (ls.less_val, ls.eq_val);
                    let derived = match opn {
                        "==" => ev,
                        "!=" => !ev,
                        "<" => lv,
                        "<=" => lv || ev,
                        ">" => !(lv || ev),
                        _ => !lv,
                    };
                    if has(opn) {
                        // explicit implementations of derived operators answer the opposite value
                        let val = if matches!(opn, "!=" | "<=" | ">" | ">=") { !derived } else { derived };
                        Exact(vec![call(opn)], val.to_string())
                    } else {
                        nontrivial = true;
                        match opn {
                            "==" => Unjudged, // structural comparison of the data
                            "!=" => {
                                if has("==") { Derived(vec![call("==")], derived.to_string()) } else { Unjudged }
                            }
                            "<" => Error(vec![]),
                            _ => {
                                if has("<") && has("==") {
                                    Derived(vec![call("<"), call("==")], derived.to_string())
                                } else if !has("<") && !has("==") {
                                    Error(vec![])
                                } else {
                                    Unjudged
                                }
                            }
                        }
                    }
                }
                Kind::Host(hc, k) => {
                    nontrivial = true;
                    let call = |n: &str| format!("call host{k}.{n}({})", r.shown());
                    let (lv, ev) = (hc.less_val, hc.eq_val);
                    let derived = match opn {
                        "==" => ev,
                        "!=" => !ev,
                        "<" => lv,
                        "<=" => lv || ev,
                        ">" => !(lv || ev),
                        _ => !lv,
                    };
                    if hc.cmp_explicit {
                        let val = if matches!(opn, "!=" | "<=" | ">" | ">=") { !derived } else { derived };
                        Exact(vec![call(cmp_name(*i))], val.to_string())
                    } else if hc.less_equal {
                        match opn {
                            "==" => Exact(vec![call("equal")], derived.to_string()),
                            "<" => Exact(vec![call("less")], derived.to_string()),
                            "!=" => Derived(vec![call("equal")], derived.to_string()),
                            _ => Derived(vec![call("less"), call("equal")], derived.to_string()),
                        }
                    } else {
                        Error(vec![])
                    }
                }
                _ => Unjudged,
            }
        }
        Operation::Negate(o) => match kind(o, a, b, hosts) {
            Kind::Script(s, id) => {
                if s.negate {
                    Exact(vec![format!("call {id}.@negate()")], format!("'r:{id}neg'"))
                } else {
                    nontrivial = true;
                    Error(vec![])
                }
            }
            Kind::Host(hc, k) => {
                nontrivial = true;
                if hc.unary { Exact(vec![format!("call host{k}.negate()")], format!("'r:host{k}neg'")) } else { Error(vec![]) }
            }
            Kind::Number => Unjudged,
            Kind::Other => {
                if matches!(o, Operand::A | Operand::B) { Unjudged } else { Error(vec![]) }
            }
        },
        Operation::Size(o) => match kind(o, a, b, hosts) {
            Kind::Script(s, id) => {
                if s.size { Exact(vec![format!("call {id}.@size()")], "3".into()) } else { Unjudged }
            }
            Kind::Host(hc, _) => {
                nontrivial = true;
                if hc.unary { Exact(vec![], "3".into()) } else { Error(vec![]) }
            }
            _ => Unjudged,
        },
        Operation::Index(o) => match kind(o, a, b, hosts) {
            Kind::Script(s, id) => {
                if s.index { Exact(vec![format!("call {id}.@index(1)")], format!("'r:{id}[]'")) } else { Unjudged }
            }
            Kind::Host(hc, k) => {
                nontrivial = true;
                if hc.unary { Exact(vec![format!("call host{k}.index(1)")], format!("'r:host{k}[]'")) } else { Error(vec![]) }
            }
            _ => Unjudged,
        },
        Operation::IndexAssign(o) => match kind(o, a, b, hosts) {
            Kind::Script(s, id) => {
                if s.index_assign { Exact(vec![format!("call {id}.@index_assign(1, 'v')")], "done".into()) } else { Unjudged }
            }
            Kind::Host(hc, k) => {
                nontrivial = true;
                if hc.unary { Exact(vec![format!("call host{k}.index_assign(1, 'v')")], "done".into()) } else { Error(vec![]) }
            }
            _ => Unjudged,
        },
        Operation::Access(o, key) | Operation::AccessCall(o, key) => {
            let is_call = matches!(op, Operation::AccessCall(..));
            match kind(o, a, b, hosts) {
                Kind::Script(s, id) => {
                    if s.access {
                        if is_call {
                            Unjudged // the marker string is not callable; not interesting
                        } else {
                            Exact(vec![format!("call {id}.@access('{key}')")], format!("'r:{id}.{key}'"))
                        }
                    } else {
                        // data -> @meta -> base chain (data, @meta) -> iterator functions
                        let found: Option<String> = match key.as_str() {
                            "own" => Some(format!("'own:{id}'")),
                            "mkey" if s.meta_named => Some(format!("'meta:{id}'")),
                            "mfn" if s.meta_named => Some(format!("'mfn:{id}'")),
                            "bdata1" if s.base_depth >= 1 => Some(format!("'bdata1:{id}_base1'")),
                            "bmeta1" if s.base_depth >= 1 => Some(format!("'bmeta1:{id}_base1'")),
                            "bfn1" if s.base_depth >= 1 => Some(format!("'bfn1:{id}'")),
                            "bdata2" if s.base_depth >= 2 => Some(format!("'bdata2:{id}_base2'")),
                            "bmeta2" if s.base_depth >= 2 => Some(format!("'bmeta2:{id}_base2'")),
                            "bfn2" if s.base_depth >= 2 => Some(format!("'bfn2:{id}'")),
                            _ => None,
                        };
                        let is_fn = matches!(key.as_str(), "mfn" | "bfn1" | "bfn2");
                        if key != "own" {
                            nontrivial = true;
                        }
                        match found {
                            Some(v) => {
                                if is_call == is_fn {
                                    if is_fn { Exact(vec![], v) } else { Exact(vec![], v) }
                                } else if is_fn {
                                    Exact(vec![], "fn".into())
                                } else {
                                    Unjudged // calling a string
                                }
                            }
                            None => {
                                if key == "count" && is_call && (s.iterator || s.next) {
                                    // iterator fallback: count() consumes the object's iteration
                                    if s.next {
                                        Exact(vec![format!("call {id}.@next() n=0"), format!("call {id}.@next() n=1"), format!("call {id}.@next() n=2")], "2".into())
                                    } else {
                                        Exact(vec![format!("call {id}.@iterator()")], "2".into())
                                    }
                                } else if key == "count" && (s.iterator || s.next) {
                                    Exact(vec![], "fn".into())
                                } else if key == "count" {
                                    // maps have `map.*` functions only without a metamap; objects have no `count`
                                    Error(vec![])
                                } else {
                                    Error(vec![])
                                }
                            }
                        }
                    }
                }
                Kind::Host(hc, k) => {
                    nontrivial = true;
                    match (key.as_str(), is_call) {
                        ("hello", true) if hc.methods => Exact(vec![format!("call host{k}.hello()")], format!("'hello:host{k}'")),
                        ("hello", false) if hc.methods => Exact(vec![], "fn".into()),
                        ("count", _) if hc.iterable => Unjudged,
                        _ => Error(vec![]),
                    }
                }
                _ => Unjudged,
            }
        }
        Operation::AccessAssign(o) => match kind(o, a, b, hosts) {
            Kind::Script(s, id) => {
                if s.access_assign {
                    Exact(vec![format!("call {id}.@access_assign('newkey', 'v')")], "null".into())
                } else {
                    Exact(vec![], "'v'".into())
                }
            }
            Kind::Host(_, _) => {
                nontrivial = true;
                Error(vec![])
            }
            _ => Unjudged,
        },
        Operation::Call(o) => match kind(o, a, b, hosts) {
            Kind::Script(s, id) => {
                if s.call {
                    Exact(vec![format!("call {id}.@call(1, 's')")], format!("'r:{id}()'"))
                } else {
                    nontrivial = true;
                    Error(vec![])
                }
            }
            Kind::Host(hc, k) => {
                nontrivial = true;
                if hc.unary { Exact(vec![format!("call host{k}.call(1, 's')")], format!("'r:host{k}()'")) } else { Error(vec![]) }
            }
            Kind::Other if matches!(o, Operand::A | Operand::B) => Error(vec![]),
            _ => Unjudged,
        },
        Operation::CallAsCallback(o) => match kind(o, a, b, hosts) {
            Kind::Script(s, id) => {
                nontrivial = true;
                if s.call { Exact(vec![format!("call {id}.@call('s0', 1)")], format!("'r:{id}()'")) } else { Error(vec![]) }
            }
            Kind::Host(hc, k) => {
                nontrivial = true;
                if hc.unary { Exact(vec![format!("call host{k}.call('s0', 1)")], format!("'r:host{k}()'")) } else { Error(vec![]) }
            }
            Kind::Other if matches!(o, Operand::A | Operand::B) => Error(vec![]),
            _ => Unjudged,
        },
        Operation::ForLoop(o) | Operation::ToTuple(o) => {
            let tuple = matches!(op, Operation::ToTuple(..));
            match kind(o, a, b, hosts) {
                Kind::Script(s, id) => {
                    if s.access && tuple {
                        Unjudged
                    } else if s.next {
                        nontrivial = true;
                        let t = vec![format!("call {id}.@next() n=0"), format!("call {id}.@next() n=1"), format!("call {id}.@next() n=2")];
                        Exact(t, if tuple { "('n0', 'n1')".into() } else { "['n0']['n1']".into() })
                    } else if s.iterator {
                        Exact(vec![format!("call {id}.@iterator()")], if tuple { "('i1', 'i2')".into() } else { "['i1']['i2']".into() })
                    } else if tuple {
                        nontrivial = true;
                        Error(vec![]) // no iterator functions on objects that are not iterable
                    } else {
                        Unjudged
                    }
                }
                Kind::Host(hc, k) => {
                    nontrivial = true;
                    if hc.iterable {
                        Exact(vec![format!("call host{k}.make_iterator()")], if tuple { "('h1', 'h2')".into() } else { "['h1']['h2']".into() })
                    } else if tuple {
                        Error(vec![])
                    } else {
                        Unjudged
                    }
                }
                _ => Unjudged,
            }
        }
        Operation::Display(o) | Operation::Debug(o) => {
            let debug = matches!(op, Operation::Debug(..));
            match kind(o, a, b, hosts) {
                Kind::Script(s, id) => {
                    if debug && s.debug {
                        Exact(vec![format!("call {id}.@debug()")], format!("xG<{id}>y"))
                    } else if s.display {
                        if debug {
                            nontrivial = true;
                        }
                        Exact(vec![format!("call {id}.@display()")], format!("xD<{id}>y"))
                    } else {
                        Unjudged
                    }
                }
                Kind::Host(hc, k) => {
                    if hc.unary { Exact(vec![], format!("x<host{k}{}>y", if debug { "?" } else { "" })) } else { Exact(vec![], format!("xHost{k}y")) }
                }
                _ => Unjudged,
            }
        }
    };
    (e, nontrivial)
}

fn arith_name(i: usize) -> &'static str {
    ["add", "subtract", "multiply", "divide", "remainder", "power"][i]
}
fn cmp_name(i: usize) -> &'static str {
    ["equal", "not_equal", "less", "less_or_equal", "greater", "greater_or_equal"][i]
}

// ---------------------------------------------------------------------------------------------
// host objects

#[derive(Clone, Debug, Default)]
pub struct HostCaps {
    /// 0 none, 1 implemented, 2 implemented but answering "unimplemented" (operand not supported)
    arith_l: u8,
    arith_r: bool,
    compound: bool,
    /// less() and equal() only; the derived operators come from the trait defaults
    less_equal: bool,
    /// all six comparison functions overridden
    cmp_explicit: bool,
    less_val: bool,
    eq_val: bool,
    /// negate, size, index, index_assign, call, display
    unary: bool,
    iterable: bool,
    methods: bool,
}

pub fn host_caps() -> Vec<HostCaps> {
    vec![
        HostCaps { methods: true, ..Default::default() },
        HostCaps { arith_l: 1, compound: true, unary: true, methods: true, ..Default::default() },
        HostCaps { arith_r: true, less_equal: true, less_val: true, methods: true, ..Default::default() },
        HostCaps { arith_l: 2, arith_r: true, less_equal: true, eq_val: true, iterable: true, methods: true, ..Default::default() },
        HostCaps { arith_l: 1, arith_r: true, compound: true, cmp_explicit: true, less_val: false, eq_val: false, unary: true, iterable: true, methods: true, ..Default::default() },
    ]
}

fn host_print(vm_out: &Capture, line: String) {
    vm_out.push_line(&line);
}

fn shown_value(v: &KValue) -> String {
    match v {
        KValue::Number(n) => n.to_string(),
        KValue::Str(s) => format!("'{s}'"),
        KValue::Null => "null".into(),
        KValue::Bool(b) => b.to_string(),
        KValue::List(_) => "list".into(),
        KValue::Tuple(_) => "tuple".into(),
        KValue::Map(m) => match m.get("id") {
            Some(KValue::Str(s)) => format!("obj{s}"),
            _ => "obj?".into(),
        },
        KValue::Object(o) => o.try_borrow().map(|o| o.type_string().to_string().to_lowercase()).unwrap_or_else(|_| "borrowed".into()),
        _ => "other".into(),
    }
}

fn unimplemented<T>(name: &'static str, ty: KString) -> koto_runtime::Result<T> {
    Err(koto_runtime::Error::from(ErrorKind::Unimplemented { fn_name: name, object_type: ty }))
}

macro_rules! host_type {
    ($name:ident, $k:expr) => {
        #[derive(Clone, KotoType, KotoCopy)]
        #[koto(runtime = koto_runtime)]
        pub struct $name {
            out: Capture,
        }

        #[koto_impl(runtime = koto_runtime)]
        impl $name {
            #[koto_method]
            fn hello(&self) -> KValue {
                host_print(&self.out, format!("call host{}.hello()", $k));
                KValue::Str(format!("hello:host{}", $k).into())
            }
        }
    };
}

host_type!(Host0, 0);
host_type!(Host1, 1);
host_type!(Host2, 2);
host_type!(Host3, 3);
host_type!(Host4, 4);


macro_rules! arith_l_impl {
    ($k:expr, $mode:expr, $( ($f:ident, $op:expr) ),*) => {
        $(
            fn $f(&self, other: &KValue) -> koto_runtime::Result<KValue> {
                host_print(&self.out, format!("call host{}.{}({})", $k, stringify!($f), shown_value(other)));
                if $mode == 2 {
                    return unimplemented(stringify!($f), self.type_string());
                }
                Ok(KValue::Str(format!("r:host{}{}", $k, $op).into()))
            }
        )*
    };
}
macro_rules! arith_r_impl {
    ($k:expr, $( ($f:ident, $op:expr) ),*) => {
        $(
            fn $f(&self, other: &KValue) -> koto_runtime::Result<KValue> {
                host_print(&self.out, format!("call host{}.{}({})", $k, stringify!($f), shown_value(other)));
                Ok(KValue::Str(format!("r:host{}r{}", $k, $op).into()))
            }
        )*
    };
}
macro_rules! compound_impl {
    ($k:expr, $( $f:ident ),*) => {
        $(
            fn $f(&mut self, other: &KValue) -> koto_runtime::Result<()> {
                host_print(&self.out, format!("call host{}.{}({})", $k, stringify!($f), shown_value(other)));
                Ok(())
            }
        )*
    };
}
macro_rules! cmp_impl {
    ($k:expr, $( ($f:ident, $val:expr) ),*) => {
        $(
            fn $f(&self, other: &KValue) -> koto_runtime::Result<bool> {
                host_print(&self.out, format!("call host{}.{}({})", $k, stringify!($f), shown_value(other)));
                Ok($val)
            }
        )*
    };
}
macro_rules! unary_impl {
    ($k:expr) => {
        fn display(&self, ctx: &mut DisplayContext) -> koto_runtime::Result<()> {
            ctx.append(format!("<host{}{}>", $k, if ctx.debug_enabled() { "?" } else { "" }));
            Ok(())
        }
        fn negate(&self) -> koto_runtime::Result<KValue> {
            host_print(&self.out, format!("call host{}.negate()", $k));
            Ok(KValue::Str(format!("r:host{}neg", $k).into()))
        }
        fn size(&self) -> Option<usize> {
            Some(3)
        }
        fn index(&self, index: &KValue) -> koto_runtime::Result<KValue> {
            host_print(&self.out, format!("call host{}.index({})", $k, shown_value(index)));
            Ok(KValue::Str(format!("r:host{}[]", $k).into()))
        }
        fn index_assign(&mut self, index: &KValue, value: &KValue) -> koto_runtime::Result<()> {
            host_print(&self.out, format!("call host{}.index_assign({}, {})", $k, shown_value(index), shown_value(value)));
            Ok(())
        }
        fn is_callable(&self) -> bool {
            true
        }
        fn call(&mut self, ctx: &mut CallContext) -> koto_runtime::Result<KValue> {
            let args: Vec<String> = ctx.args().iter().map(shown_value).collect();
            host_print(&self.out, format!("call host{}.call({})", $k, args.join(", ")));
            Ok(KValue::Str(format!("r:host{}()", $k).into()))
        }
    };
}
macro_rules! iterable_impl {
    ($k:expr) => {
        fn is_iterable(&self) -> IsIterable {
            IsIterable::Iterable
        }
        fn make_iterator(&self, _vm: &mut KotoVm) -> koto_runtime::Result<KIterator> {
            host_print(&self.out, format!("call host{}.make_iterator()", $k));
            Ok(KIterator::with_tuple(KTuple::from(vec![KValue::Str("h1".into()), KValue::Str("h2".into())])))
        }
    };
}

impl KotoObject for Host0 {}
impl KotoObject for Host1 {
    arith_l_impl!(1, 1, (add, "+"), (subtract, "-"), (multiply, "*"), (divide, "/"), (remainder, "%"), (power, "^"));
    compound_impl!(1, add_assign, subtract_assign, multiply_assign, divide_assign, remainder_assign, power_assign);
    unary_impl!(1);
}
impl KotoObject for Host2 {
    arith_r_impl!(2, (add_rhs, "+"), (subtract_rhs, "-"), (multiply_rhs, "*"), (divide_rhs, "/"), (remainder_rhs, "%"), (power_rhs, "^"));
    cmp_impl!(2, (less, true), (equal, false));
}
impl KotoObject for Host3 {
    arith_l_impl!(3, 2, (add, "+"), (subtract, "-"), (multiply, "*"), (divide, "/"), (remainder, "%"), (power, "^"));
    arith_r_impl!(3, (add_rhs, "+"), (subtract_rhs, "-"), (multiply_rhs, "*"), (divide_rhs, "/"), (remainder_rhs, "%"), (power_rhs, "^"));
    cmp_impl!(3, (less, false), (equal, true));
    iterable_impl!(3);
}
impl KotoObject for Host4 {
    arith_l_impl!(4, 1, (add, "+"), (subtract, "-"), (multiply, "*"), (divide, "/"), (remainder, "%"), (power, "^"));
    arith_r_impl!(4, (add_rhs, "+"), (subtract_rhs, "-"), (multiply_rhs, "*"), (divide_rhs, "/"), (remainder_rhs, "%"), (power_rhs, "^"));
    compound_impl!(4, add_assign, subtract_assign, multiply_assign, divide_assign, remainder_assign, power_assign);
    // less=false, equal=false; the explicit derived operators answer the opposite of the derivation
    cmp_impl!(4, (equal, false), (not_equal, false), (less, false), (less_or_equal, true), (greater, false), (greater_or_equal, false));
    unary_impl!(4);
    iterable_impl!(4);
}

fn install_hosts(koto: &mut koto::Koto, cap: &Capture) {
    let p = koto.prelude();
    p.insert("host0", KObject::from(Host0 { out: cap.clone() }));
    p.insert("host1", KObject::from(Host1 { out: cap.clone() }));
    p.insert("host2", KObject::from(Host2 { out: cap.clone() }));
    p.insert("host3", KObject::from(Host3 { out: cap.clone() }));
    p.insert("host4", KObject::from(Host4 { out: cap.clone() }));
    p.add_fn("host_show", |ctx| match ctx.args() {
        [v] => Ok(KValue::Str(shown_value(v).into())),
        _ => Ok(KValue::Null),
    });
}

// ---------------------------------------------------------------------------------------------

#[derive(Clone, Debug, Serialize, Deserialize)]
pub struct Case {
    a: Spec,
    b: Spec,
    op: Operation,
}

fn case_source(c: &Case) -> String {
    let mut s = String::from(PRELUDE);
    s.push_str(&object_source("oa", &c.a));
    s.push_str(&object_source("ob", &c.b));
    s.push_str("print '--'\nres = try\n");
    s.push_str(&operation_source(&c.op));
    s.push_str("  'ok ' + r\ncatch e\n  'ERR ' + ('{e}'.lines().next()?.get() or '')\nprint '=> ' + res\n");
    s
}

fn eval_case(c: &Case) -> Eval {
    let hosts = host_caps();
    let (exp, nontrivial) = model(&c.op, &c.a, &c.b, &hosts);
    let mut ev = Eval::pass(nontrivial).class(op_class(&c.op));
    let src = case_source(c);
    let cap = Capture::default();
    let mut koto = koto::Koto::with_settings(kx::settings(&cap, &RunOpts::default()));
    install_hosts(&mut koto, &cap);
    let outcome = kx::run_on(&mut koto, &src, &RunOpts::default());
    let stdout = cap.take();
    if exp == Expected::Unjudged {
        // the case was run (a panic would have been reported by the runner), but it is not judged
        ev.discard = true;
        ev.classes.push("unjudged");
        return ev;
    }
    let fail = |what: &str, detail: String| Some(Fail::new(format!("c17:{what}:{}", op_class(&c.op)), format!("{detail}\noperation: {:?}\n{src}", c.op)));
    if !outcome.is_ok() {
        ev.fail = fail("script-error", format!("script failed: {outcome:?}\nstdout: {stdout}"));
        return ev;
    }
    let Some((_, after)) = stdout.split_once("--\n") else {
        ev.fail = fail("protocol", format!("no separator in output {stdout:?}"));
        return ev;
    };
    let lines: Vec<&str> = after.lines().collect();
    let Some(pos) = lines.iter().position(|l| l.starts_with("=> ")) else {
        ev.fail = fail("protocol", format!("no result line in {after:?}"));
        return ev;
    };
    let trace: Vec<String> = lines[..pos].iter().map(|s| s.to_string()).collect();
    let result = &lines[pos][3..];
    match &exp {
        Expected::Exact(t, r) => {
            if result != format!("ok {r}") {
                ev.fail = fail("result", format!("expected result {r:?}, got {result:?} (trace {trace:?})"));
            } else if &trace != t {
                ev.fail = fail("trace", format!("expected calls {t:?}, got {trace:?} (result {result:?})"));
            }
        }
        Expected::Derived(allowed, r) => {
            if result != format!("ok {r}") {
                ev.fail = fail("derived-result", format!("expected derived result {r:?}, got {result:?} (trace {trace:?})"));
            } else if trace.is_empty() || trace.iter().any(|l| !allowed.contains(l)) {
                ev.fail = fail("derived-trace", format!("expected calls among {allowed:?}, got {trace:?}"));
            }
        }
        Expected::Error(t) => {
            if !result.starts_with("ERR") {
                ev.fail = fail("missing-error", format!("expected an error, got {result:?} (trace {trace:?})"));
            } else if &trace != t {
                ev.fail = fail("trace", format!("expected calls {t:?} before the error, got {trace:?}"));
            }
        }
        Expected::Unjudged => {}
    }
    ev
}

fn op_class(op: &Operation) -> &'static str {
    match op {
        Operation::Arith(..) => "arith",
        Operation::Compound(..) => "compound",
        Operation::Cmp(..) => "cmp",
        Operation::Negate(..) => "negate",
        Operation::Size(..) => "size",
        Operation::Index(..) => "index",
        Operation::IndexAssign(..) => "index-assign",
        Operation::Access(..) => "access",
        Operation::AccessCall(..) => "access-call",
        Operation::AccessAssign(..) => "access-assign",
        Operation::Call(..) => "call",
        Operation::CallAsCallback(..) => "call-as-callback",
        Operation::ForLoop(..) => "for",
        Operation::ToTuple(..) => "to-tuple",
        Operation::Display(..) => "display",
        Operation::Debug(..) => "debug",
    }
}

fn all_operands(with_hosts: bool) -> Vec<Operand> {
    let mut v = vec![Operand::A, Operand::B, Operand::Num, Operand::Str, Operand::Null, Operand::List];
    if with_hosts {
        for k in 0..5 {
            v.push(Operand::Host(k));
        }
    }
    v
}

pub fn all_operations() -> Vec<Operation> {
    let mut ops = vec![];
    let subjects = {
        let mut v = vec![Operand::A];
        for k in 0..5 {
            v.push(Operand::Host(k));
        }
        v
    };
    for i in 0..6 {
        for subj in &subjects {
            for other in all_operands(true) {
                ops.push(Operation::Arith(i, subj.clone(), other.clone()));
                if other != *subj {
                    ops.push(Operation::Arith(i, other.clone(), subj.clone()));
                }
                ops.push(Operation::Cmp(i, subj.clone(), other.clone()));
            }
            for other in [Operand::B, Operand::Num, Operand::Str, Operand::Host(4)] {
                ops.push(Operation::Compound(i, subj.clone(), other));
            }
        }
    }
    for subj in &subjects {
        ops.push(Operation::Negate(subj.clone()));
        ops.push(Operation::Size(subj.clone()));
        ops.push(Operation::Index(subj.clone()));
        ops.push(Operation::IndexAssign(subj.clone()));
        ops.push(Operation::AccessAssign(subj.clone()));
        ops.push(Operation::Call(subj.clone()));
        ops.push(Operation::CallAsCallback(subj.clone()));
        ops.push(Operation::ForLoop(subj.clone()));
        ops.push(Operation::ToTuple(subj.clone()));
        ops.push(Operation::Display(subj.clone()));
        ops.push(Operation::Debug(subj.clone()));
        for key in ["own", "mkey", "mfn", "bdata1", "bmeta1", "bfn1", "bdata2", "bmeta2", "bfn2", "missing", "count", "hello"] {
            ops.push(Operation::Access(subj.clone(), key.to_string()));
            ops.push(Operation::AccessCall(subj.clone(), key.to_string()));
        }
    }
    ops
}

fn decode(cs: &[u32]) -> Case {
    let mut s = Src::new(cs);
    let a = gen_spec(&mut s);
    let b = gen_spec(&mut s);
    // pick the operation class first so that the rare classes are not drowned by arithmetic
    let ops = all_operations();
    let mut classes: Vec<&'static str> = vec![];
    for o in &ops {
        if !classes.contains(&op_class(o)) {
            classes.push(op_class(o));
        }
    }
    let w: Vec<u32> = classes.iter().map(|c| match *c { "arith" => 6, "cmp" => 5, "compound" => 3, "access" | "access-call" => 3, _ => 1 }).collect();
    let class = classes[s.weighted(&w)];
    let of_class: Vec<&Operation> = ops.iter().filter(|o| op_class(o) == class).collect();
    let op = of_class[s.below(of_class.len() as u32) as usize].clone();
    Case { a, b, op }
}

fn run_shard(ctx: &mut Ctx) {
    let n = ctx.tier.pick(40_000u64, 2_000_000u64);
    let strat = choice_stream(120);
    ctx.explore("objects", n, &strat, |cs| json!({"kind": "case", "case": serde_json::to_value(decode(cs)).unwrap()}), |cs| eval_case(&decode(cs)));
    // every operation at least once against two fixed rich definitions
    let ops = all_operations();
    if ctx.shard == 0 {
        ctx.st.exhaustive_spaces.insert("operations x two fixed definitions".into(), ops.len() as u64 * 2);
    }
    let rich = Spec { arith: [1, 2, 0, 1, 2, 0], arith_r: [true, true, true, false, false, false], compound: [true, false, true, false, true, false], cmp: [true, false, true, false, false, false], less_val: true, eq_val: false, negate: true, size: true, index: true, index_assign: true, access: false, access_assign: true, call: true, iterator: true, next: false, display: true, debug: false, typed: true, meta_named: true, shared: false, base_depth: 2 };
    let mut poor = Spec::default();
    poor.arith_r = [true; 6];
    poor.next = true;
    poor.shared = true;
    for (k, (a, b)) in [(rich.clone(), poor.clone()), (poor, rich)].into_iter().enumerate() {
        for (i, op) in ops.iter().enumerate() {
            if !ctx.mine((k * ops.len() + i) as u64) {
                continue;
            }
            let c = Case { a: a.clone(), b: b.clone(), op: op.clone() };
            let cj = json!({"kind": "case", "case": serde_json::to_value(&c).unwrap()});
            ctx.run_case(&cj, || eval_case(&c));
        }
    }
}

fn replay(case: &Value) -> Option<Fail> {
    let c: Case = serde_json::from_value(case["case"].clone()).ok()?;
    eval_case(&c).fail
}

//! C12 — diagnostics identify the right source location
use crate::core::*;
use crate::kx;
use crate::lang::*;
use crate::pgen::{self as gen_, Src};
use crate::textgen;
use koto::prelude::*;
use serde_json::{Value, json};

pub static PROP: Prop = Prop {
    id: "C12",
    rule: "(a) planted-fault programs decoded from a proptest choice vector: a preamble of generated statements of arbitrary kinds printed with comments / blank lines / multi-line expressions, then a fault expression of a known kind (throw, bad index, operator type mismatch, failed assert, access on null, call of a non-callable, failed let hint, an error raised by a native function after a successful callback, optionally spread over several lines) on a known line, reached through 0-4 carriers on known lines (function call, method call, each callback driven by to_tuple, `@+` overload, nested block inside if / for) with filler statements between them; plus `debug` expressions (single- and multi-line) on known lines. Oracle through KotoVm::run: trace[0] maps through debug_info.get_source_span to a span starting on the fault expression's first line, trace[i] to the carriers' call-site lines innermost first; the rendered message contains for each of those lines the `line:col` header and the exact source line; debug output starts with `[<line of the debug keyword>]`. (b) compile errors: valid programs with one unambiguously illegal token (`$`, stray `)` / `]`, reserved `await` / `const`) inserted at a token boundary on a known line: reported line == token's line, column <= display width of the line, rendering does not panic; and for the corpus mutation neighbourhood the weaker clause (position inside the source). Non-trivial: fault at call depth >= 1 or preceded by >= 1 multi-line construct.",
    assumptions: &[
        "columns are only required to lie inside the line (the statement speaks of lines)",
        "native frames (each/to_tuple) are expected at the line of the call that drives them",
    ],
    shards: |_| 14,
    run_shard,
    replay,
    min_nontrivial_fraction: 0.3,
};

#[derive(Clone, Debug, serde::Serialize, serde::Deserialize)]
pub struct Planted {
    pub src: String,
    /// expected 1-based lines: fault first, then call sites innermost first
    pub lines: Vec<usize>,
    /// (1-based line of the debug keyword)
    pub debug_lines: Vec<usize>,
    pub multiline_before: bool,
    pub depth: usize,
    pub fault: String,
}

const FAULTS: [(&str, &str); 14] = [
    // a native function that has called back into koto successfully and then fails itself
    ("native-after-callback", "q = (1, 2).find |x| 5"),
    ("native-after-callback-sort", "q = [2, 1].sort |x| if x == 1 then 'a' else 2"),
    // faults whose very first instruction fails (operands already in registers): `@` is the
    // enclosing function's argument, or the top-level local `num5`
    ("arg-access", "q = @.nofield"),
    ("arg-index", "q = @[@]"),
    ("arg-call", "q = @()"),
    ("arg-throw", "throw @"),
    ("throw", "throw 'boom'"),
    ("bad-index", "q = [1, 2][7]"),
    ("type-mismatch", "q = 1 + nul"),
    ("assert", "assert 1 == 2"),
    ("null-access", "q = nul.field"),
    ("not-callable", "q = num5()"),
    ("let-hint", "let q: String = 5"),
    ("interp", "q = 'a{1 + nul}b'"),
];

pub fn build(data: &[u32]) -> Planted {
    let mut s = Src::new(data);
    let mut lines: Vec<String> = vec!["nul = null".into(), "num5 = 5".into()];
    let mut multiline_before = false;
    let mut debug_lines = vec![];
    // preamble of generated statements (with trivia), may contain multi-line constructs
    {
        let n_data: Vec<u32> = (0..160).map(|_| s.below(u32::MAX)).collect();
        let mut g = gen_::G::new(&n_data, gen_::Cfg { stmts: (1, 8), trace: false, confusion_pct: 0, ..Default::default() });
        let mut prog = vec![];
        let n = 1 + g.s.below(8);
        for k in ["pn", "ps", "pl"] {
            let _ = k;
        }
        for _ in 0..n {
            prog.push(g.stmt());
        }
        let prog = gen_::flatten(prog);
        // the preamble must not fail itself: keep it only if the model runs it to completion
        let m = crate::model::run_program(&prog, true);
        if matches!(m.result, Some(Ok(_))) && gen_::domain_ok(&prog).is_ok() {
            let layout = Layout::new((0..53).map(|i| (fnv(format!("{}/{i}", data.first().copied().unwrap_or(0)).as_bytes()) >> 11) as u8).collect());
            let text = print_program(&prog, &layout);
            if !text.contains("print") || true {
                for l in text.lines() {
                    lines.push(l.to_string());
                }
                multiline_before = prog.iter().any(|e| e.is_compound()) || text.lines().any(|l| l.trim_end().ends_with(['+', '-', '*', '/', '<', '>', '=']) || l.trim_start().starts_with("#-"));
            }
        }
    }
    // optional debug expressions
    let n_dbg = s.below(3);
    for k in 0..n_dbg {
        if s.chance(50) {
            lines.push(format!("dz{k} = debug num5 + {k}"));
            debug_lines.push(lines.len());
        } else {
            lines.push(format!("dz{k} = debug ["));
            debug_lines.push(lines.len());
            lines.push("  num5,".into());
            lines.push(format!("  {k}]"));
            multiline_before = true;
        }
    }
    // carriers, innermost first
    let depth = s.below(5) as usize;
    let (fault_name, fault_text) = FAULTS[s.below(FAULTS.len() as u32) as usize];
    let fault_text = fault_text.replace('@', if depth == 0 { "num5" } else { "a" });
    let fault_text = fault_text.as_str();
    // the innermost function may be a generator that fails when resumed after a yield
    let in_generator = depth > 0 && s.chance(30);
    let mut generator_for = false;
    let multi = s.chance(25) && matches!(fault_name, "bad-index" | "type-mismatch");
    let mut expected: Vec<usize> = vec![];
    // innermost function holding the fault
    let mut callee = String::new();
    let filler = |s: &mut Src, lines: &mut Vec<String>, ind: &str| {
        let n = s.below(3);
        for k in 0..n {
            match s.below(4) {
                0 => lines.push(format!("{ind}# filler comment {k}")),
                1 => lines.push(String::new()),
                2 => lines.push(format!("{ind}w{k} = [1, 2, 3].to_tuple()")),
                _ => {
                    lines.push(format!("{ind}w{k} = 1 +"));
                    lines.push(format!("{ind}    2"));
                }
            }
        }
    };
    let push_fault = |lines: &mut Vec<String>, expected: &mut Vec<usize>, ind: &str| {
        if multi {
            match fault_name {
                "bad-index" => {
                    lines.push(format!("{ind}q = [1,"));
                    expected.push(lines.len());
                    lines.push(format!("{ind}  2][7]"));
                }
                _ => {
                    lines.push(format!("{ind}q = 1 +"));
                    expected.push(lines.len());
                    lines.push(format!("{ind}    nul"));
                }
            }
        } else {
            lines.push(format!("{ind}{fault_text}"));
            expected.push(lines.len());
        }
    };
    if depth == 0 {
        // fault at top level, possibly inside a nested block
        match s.below(3) {
            0 => push_fault(&mut lines, &mut expected, ""),
            1 => {
                lines.push("if num5 > 1".into());
                filler(&mut s, &mut lines, "  ");
                push_fault(&mut lines, &mut expected, "  ");
            }
            _ => {
                lines.push("for it in 0..2".into());
                lines.push("  if it == 1".into());
                push_fault(&mut lines, &mut expected, "    ");
            }
        }
    } else {
        for level in 0..depth {
            let name = format!("fn{level}");
            let kind = if level == 0 { 0 } else { s.below(5) };
            if level == 0 && in_generator {
                lines.push(format!("gz{level} = |a|"));
                lines.push("  yield a".into());
                if s.chance(40) {
                    filler(&mut s, &mut lines, "  ");
                }
                push_fault(&mut lines, &mut expected, "  ");
                lines.push("  yield a".into());
                lines.push(format!("{name} = |a|"));
                filler(&mut s, &mut lines, "  ");
                if s.chance(50) {
                    lines.push(format!("  r = gz{level}(a).to_tuple()"));
                    expected.push(lines.len());
                } else {
                    generator_for = true;
                    lines.push(format!("  for gv in gz{level}(a)"));
                    expected.push(lines.len());
                    lines.push("    r = gv".into());
                }
                lines.push("  r".into());
            } else if level == 0 {
                lines.push(format!("{name} = |a|"));
                if s.chance(60) {
                    filler(&mut s, &mut lines, "  ");
                }
                push_fault(&mut lines, &mut expected, "  ");
                lines.push("  a".into());
            } else {
                match kind {
                    0 => {
                        lines.push(format!("{name} = |a|"));
                        filler(&mut s, &mut lines, "  ");
                        lines.push(format!("  r = {callee}(a)"));
                        expected.push(lines.len());
                        lines.push("  r".into());
                    }
                    1 => {
                        // method call through a map
                        lines.push(format!("ob{level} ="));
                        lines.push(format!("  m: |a| {callee}(a)"));
                        let inner_site = lines.len();
                        lines.push(format!("{name} = |a|"));
                        filler(&mut s, &mut lines, "  ");
                        lines.push(format!("  r = ob{level}.m(a)"));
                        expected.push(inner_site);
                        expected.push(lines.len());
                        lines.push("  r".into());
                    }
                    2 => {
                        // each callback driven by to_tuple
                        lines.push(format!("{name} = |a|"));
                        filler(&mut s, &mut lines, "  ");
                        lines.push(format!("  r = (1, 2).each({callee}).to_tuple()"));
                        expected.push(lines.len());
                        lines.push("  r".into());
                    }
                    3 => {
                        // a call spread over several lines whose argument is a method-call chain on a
                        // later line: the call site is the line where the call starts
                        lines.push(format!("hp{level} ="));
                        lines.push("  arg: |x| x".into());
                        lines.push(format!("{name} = |a|"));
                        filler(&mut s, &mut lines, "  ");
                        lines.push(format!("  r = {callee}("));
                        expected.push(lines.len());
                        lines.push(format!("    hp{level}.arg(a)"));
                        lines.push("  )".into());
                        lines.push("  r".into());
                    }
                    _ => {
                        // operator overload
                        lines.push(format!("ov{level} ="));
                        lines.push(format!("  @+: |other| {callee}(other)"));
                        let inner_site = lines.len();
                        lines.push(format!("{name} = |a|"));
                        filler(&mut s, &mut lines, "  ");
                        lines.push(format!("  r = ov{level} + a"));
                        expected.push(inner_site);
                        expected.push(lines.len());
                        lines.push("  r".into());
                    }
                }
            }
            callee = name;
        }
        filler(&mut s, &mut lines, "");
        lines.push(format!("res = {callee}(1)"));
        expected.push(lines.len());
    }
    lines.push("print 'not reached'".into());
    Planted { src: lines.join("\n") + "\n", lines: expected, debug_lines, multiline_before, depth, fault: if generator_for { format!("{fault_name}+generator-for") } else if in_generator { format!("{fault_name}+generator") } else { fault_name.to_string() } }
}

pub fn eval_planted(p: &Planted) -> Eval {
    let cap = kx::Capture::default();
    let opts = kx::RunOpts::default();
    let mut koto = Koto::with_settings(kx::settings(&cap, &opts));
    let mut ev = Eval::pass(p.depth >= 1 || p.multiline_before);
    ev.classes.push(intern(&format!("fault:{}", p.fault)));
    ev.classes.push(intern(&format!("depth:{}", p.depth)));
    let chunk = match koto.compile(p.src.as_str()) {
        Ok(c) => c,
        Err(e) => {
            ev.fail = Some(Fail::new("c12:planted-does-not-compile", format!("{e}\n{}", p.src)));
            return ev;
        }
    };
    let r = koto.verif_vm().run(chunk);
    let stdout = cap.take();
    let src_lines: Vec<&str> = p.src.lines().collect();
    // debug prefixes
    let is_dbg = |l: &&str| {
        let Some(rest) = l.strip_prefix('[') else { return false };
        let digits: String = rest.chars().take_while(|c| c.is_ascii_digit()).collect();
        !digits.is_empty() && (rest[digits.len()..].starts_with("] num5") || rest[digits.len()..].starts_with("] ["))
    };
    let dbg_out: Vec<&str> = stdout.lines().filter(is_dbg).filter(|l| l.contains("num5") || l.ends_with('[')).collect();
    for (k, dl) in p.debug_lines.iter().enumerate() {
        match dbg_out.get(k) {
            Some(l) if l.starts_with(&format!("[{dl}] ")) => {}
            other => {
                ev.fail = Some(Fail::new("c12:debug-line", format!("debug expression on line {dl} printed {other:?}\n{}", p.src)));
                return ev;
            }
        }
    }
    let err = match r {
        Err(e) => e,
        Ok(_) => {
            ev.fail = Some(Fail::new("c12:planted-fault-did-not-fire", format!("the program ran to completion\n{}", p.src)));
            return ev;
        }
    };
    // trace -> lines
    let mut got: Vec<usize> = vec![];
    for f in err.trace.iter() {
        match f.chunk.debug_info.get_source_span(f.instruction) {
            Some(span) => got.push(span.start.line as usize + 1),
            None => got.push(0),
        }
    }
    // native adaptor frames repeat the line of the call that drives them: collapse repeats
    let collapse = |v: &Vec<usize>| {
        let mut o: Vec<usize> = vec![];
        for x in v {
            if o.last() != Some(x) {
                o.push(*x);
            }
        }
        o
    };
    // a `for` loop re-throws a generator's error as a string that holds the generator's rendered trace: there
    // the frames are judged on the rendered message (below), which is what the statement speaks about
    if p.fault.ends_with("+generator-for") {
        got = vec![];
        for l in err.to_string().lines() {
            if let Some(rest) = l.strip_prefix("--- ") {
                if let Some((a, _)) = rest.split_once(':') {
                    if let Ok(a) = a.trim().parse::<usize>() {
                        got.push(a);
                    }
                }
            }
        }
    }
    if collapse(&got) != collapse(&p.lines) {
        ev.fail = Some(Fail::new(
            if got.first() != p.lines.first() { "c12:fault-line" } else { "c12:call-site-lines" },
            format!("trace lines {got:?}, expected {:?} (fault first, then call sites innermost first)\n--- rendered:\n{err}\n--- source:\n{}", p.lines, numbered(&p.src)),
        ));
        return ev;
    }
    // rendered message quotes exactly those lines
    let rendered = match guarded(|| err.to_string()) {
        Ok(s) => s,
        Err((loc, msg)) => {
            ev.fail = Some(Fail::new(panic_sig(&loc, &msg), format!("rendering the error panicked at {loc}: {msg}")));
            return ev;
        }
    };
    let mut pos = 0;
    for l in &p.lines {
        let header = format!("--- {l}:");
        let quoted = format!(" {l} | {}", src_lines[l - 1]);
        match rendered[pos..].find(&header) {
            Some(h) => {
                let after = pos + h;
                if !rendered[after..].contains(&quoted) {
                    ev.fail = Some(Fail::new("c12:rendered-quote", format!("the rendered message does not quote line {l} exactly ({quoted:?})\n--- rendered:\n{rendered}")));
                    return ev;
                }
                pos = after + header.len();
            }
            None => {
                ev.fail = Some(Fail::new("c12:rendered-header", format!("the rendered message has no `{header}` header in trace order\n--- rendered:\n{rendered}")));
                return ev;
            }
        }
    }
    ev
}

fn numbered(src: &str) -> String {
    src.lines().enumerate().map(|(i, l)| format!("{:3} | {l}\n", i + 1)).collect()
}

// ---------------------------------------------------------------------------------------------
// compile errors

const BAD_TOKENS: [&str; 5] = ["$", ")", "]", "await", "const"];

/// parse "line:col" (1-based) from a rendered compile error
fn compile_error_pos(msg: &str) -> Option<(usize, usize)> {
    for l in msg.lines().skip(1) {
        let t = l.trim_start_matches("--- ").trim();
        // optionally "path - line:col"
        let t = t.rsplit(" - ").next().unwrap_or(t);
        if let Some((a, b)) = t.split_once(':') {
            if let (Ok(a), Ok(b)) = (a.trim().parse::<usize>(), b.trim().parse::<usize>()) {
                return Some((a, b));
            }
        }
    }
    None
}

/// token boundaries where an illegal token can be planted: (byte offset, 1-based line, number of BAD_TOKENS usable there)
fn bad_token_sites(src: &str) -> Vec<(usize, usize, usize)> {
    use koto_lexer::Token;
    let toks: Vec<_> = crate::textgen::lex_all(src);
    let mut sites = vec![];
    let mut depth_str = 0;
    let mut brackets = 0i32;
    for (i, t) in toks.iter().enumerate() {
        match t.token {
            Token::StringStart(_) => depth_str += 1,
            Token::StringEnd => depth_str -= 1,
            Token::RoundOpen | Token::SquareOpen | Token::CurlyOpen => brackets += 1,
            Token::RoundClose | Token::SquareClose | Token::CurlyClose => brackets -= 1,
            _ => {}
        }
        // a closing bracket is only unambiguously illegal where no bracket is open; inside brackets and at
        // the start of a line (after its indentation) only the tokens that are illegal everywhere are planted
        if depth_str == 0 && t.token == Token::Whitespace && i > 0 && i + 1 < toks.len() && !matches!(toks[i + 1].token, Token::NewLine | Token::CommentSingle | Token::CommentMulti) {
            let line_start = matches!(toks[i - 1].token, Token::NewLine);
            if brackets == 0 && !line_start {
                sites.push((t.source_bytes.end, t.span.start.line as usize + 1, BAD_TOKENS.len()));
            } else if brackets > 0 {
                sites.push((t.source_bytes.end, t.span.start.line as usize + 1, 1));
            }
        }
        // inside brackets also at the very start of an unindented line
        if depth_str == 0 && brackets > 0 && t.token == Token::NewLine && i + 1 < toks.len() && !matches!(toks[i + 1].token, Token::NewLine | Token::Whitespace | Token::CommentSingle | Token::CommentMulti) {
            sites.push((t.source_bytes.end, toks[i + 1].span.start.line as usize + 1, 1));
        }
    }
    sites
}

fn eval_bad_token(src: &str, seed: u64) -> Eval {
    let sites = bad_token_sites(src);
    if sites.is_empty() {
        return Eval { discard: true, ..Default::default() };
    }
    let (at, line, n_tok) = sites[(fnv(format!("{seed}:site").as_bytes()) % sites.len() as u64) as usize];
    let tok = BAD_TOKENS[(fnv(format!("{seed}:tok").as_bytes()) % n_tok as u64) as usize];
    eval_bad_token_at(src, at, line, tok, n_tok == 1)
}

fn eval_bad_token_at(src: &str, at: usize, line: usize, tok: &str, inside_brackets: bool) -> Eval {
    if at > src.len() || !src.is_char_boundary(at) {
        return Eval { discard: true, ..Default::default() };
    }
    let n_tok = if inside_brackets { 1 } else { BAD_TOKENS.len() };
    let bad = format!("{}{} {}", &src[..at], tok, &src[at..]);
    if koto_parser::Parser::parse(src).is_err() {
        // only valid programs get a bad token planted
        return Eval { discard: true, ..Default::default() };
    }
    let mut ev = Eval::pass(true).class(if n_tok == 1 { "planted-bad-token-inside-brackets" } else { "planted-bad-token" });
    let mut koto = Koto::default();
    match koto.compile(bad.as_str()) {
        Ok(_) => {
            // e.g. `)` closing something meaningful is impossible at a whitespace site of a valid
            // program, but `await`/`const` could be accepted as identifiers in some positions
            ev.discard = true;
            ev
        }
        Err(e) => {
            let msg = match guarded(|| e.to_string()) {
                Ok(m) => m,
                Err((loc, m)) => {
                    ev.fail = Some(Fail::new(panic_sig(&loc, &m), format!("rendering the compile error panicked at {loc}: {m}")));
                    return ev;
                }
            };
            let Some((l, c)) = compile_error_pos(&msg) else {
                ev.fail = Some(Fail::new("c12:compile-error-without-position", format!("{msg}")));
                return ev;
            };
            let lines: Vec<&str> = bad.lines().collect();
            if l == 0 || l > lines.len().max(1) {
                ev.fail = Some(Fail::new("c12:compile-position-outside-source", format!("line {l} of {} lines\n{msg}", lines.len())));
                return ev;
            }
            let width = lines[l - 1].len().max(unicode_width::UnicodeWidthStr::width(lines[l - 1]));
            if c == 0 || c > width + 1 {
                ev.fail = Some(Fail::new("c12:compile-column-outside-line", format!("column {c}, line {l} has display width {width}\n{msg}")));
                return ev;
            }
            if l != line {
                // the signature carries the parser's message: "expected X after Y" errors raised from a look-ahead are
                // keyed individually in the known findings
                ev.fail = Some(Fail::new(format!("c12:compile-error-line|{}", msg.lines().next().unwrap_or("").trim()), format!("illegal token `{tok}` planted on line {line}, error reported on line {l}\n{msg}\n--- source:\n{}", numbered(&bad))));
            }
            ev
        }
    }
}

fn eval_position_inside(src: &str) -> Eval {
    let mut koto = Koto::default();
    let mut ev = Eval::pass(false).class("mutant-position");
    if let Err(e) = koto.compile(src) {
        let msg = match guarded(|| e.to_string()) {
            Ok(m) => m,
            Err((loc, m)) => {
                ev.fail = Some(Fail::new(crate::props::c06::text_panic_sig(src, &loc, &m), format!("rendering the compile error panicked at {loc}: {m}")));
                return ev;
            }
        };
        ev.nontrivial = true;
        if let Some((l, c)) = compile_error_pos(&msg) {
            // a source ending in a newline has an (empty) last line
            let n_lines = src.split('\n').count().max(1);
            if l == 0 || l > n_lines {
                ev.fail = Some(Fail::new("c12:compile-position-outside-source", format!("line {l} of {n_lines} lines\n{msg}")));
                return ev;
            }
            let line = src.split('\n').nth(l - 1).unwrap_or("");
            let width = line.len().max(unicode_width::UnicodeWidthStr::width(line));
            if c == 0 || c > width + 2 {
                ev.fail = Some(Fail::new("c12:compile-column-outside-line", format!("column {c}, line {l} has display width {width}\n{msg}")));
            }
        }
    } else {
        ev.discard = true;
    }
    ev
}

/// (c) span monotonicity: top-level statements are compiled in order, so the statement that the
/// source span of each successive instruction belongs to must never decrease, and every span must
/// lie inside the source. An unbalanced span stack or a stale span shows as a step backwards.
pub fn eval_span_order(src: &str) -> Eval {
    let Ok(ast) = koto_parser::Parser::parse(src) else {
        return Eval { discard: true, ..Default::default() };
    };
    let Some(entry) = ast.entry_point() else { return Eval { discard: true, ..Default::default() } };
    let stmts = crate::astwalk::children(&ast, entry);
    if stmts.len() < 2 {
        return Eval { discard: true, ..Default::default() };
    }
    // line ranges of the top-level statements
    let ranges: Vec<(u32, u32)> = stmts.iter().map(|s| {
        let sp = ast.span(ast.node(*s).span);
        (sp.start.line, sp.end.line)
    }).collect();
    let mut koto = Koto::default();
    let Ok(chunk) = koto.compile(src) else { return Eval { discard: true, ..Default::default() } };
    let n_lines = src.split('\n').count() as u32;
    let mut reader = koto_bytecode::InstructionReader::new(chunk.clone());
    let mut last_stmt = 0usize;
    let mut last_ip = 0usize;
    let mut ev = Eval::pass(stmts.len() >= 4).class("span-order");
    loop {
        let ip = reader.ip;
        if reader.next().is_none() {
            break;
        }
        let Some(span) = chunk.debug_info.get_source_span(ip as u32) else { continue };
        if span.start.line >= n_lines || span.end.line >= n_lines || span.end.line < span.start.line {
            ev.fail = Some(Fail::new("c12:span-outside-source", format!("instruction at ip {ip} maps to {span:?} but the source has {n_lines} lines\n{}", numbered(src))));
            return ev;
        }
        // statement containing the span's start line
        let Some(k) = ranges.iter().position(|(a, b)| span.start.line >= *a && span.start.line <= *b) else { continue };
        if k < last_stmt {
            ev.fail = Some(Fail::new(
                "c12:span-goes-backwards",
                format!("instruction at ip {ip} maps to line {} (top-level statement #{k}) after the instruction at ip {last_ip} already belonged to statement #{last_stmt}\n{}", span.start.line + 1, numbered(src)),
            ));
            return ev;
        }
        if k > last_stmt {
            last_stmt = k;
        }
        last_ip = ip;
    }
    ev
}

fn run_shard(ctx: &mut Ctx) {
    {
        // (c) span order over generated programs and the corpus
        use proptest::strategy::{Strategy, ValueTree};
        let n = ctx.tier.pick(6_000u64, 100_000u64);
        for i in 0..n {
            if !ctx.mine(i) {
                continue;
            }
            let mut runner = seeded_runner(ctx.sub_seed("span", i));
            let data = gen_::choice_stream(500).new_tree(&mut runner).unwrap().current();
            let prog = match i % 3 {
                0 => crate::props::c01::build(&data).0,
                1 => crate::props::c02::build(&data).0,
                _ => crate::props::c04::build_program(&data, None).0,
            };
            let seed = ctx.sub_seed("span-layout", i);
            let layout = Layout::new((0..67).map(|k| (fnv(format!("{seed}/{k}").as_bytes()) >> 9) as u8).collect());
            let src = print_program(&prog, &layout);
            let case = json!({"kind": "span-order", "src": src});
            ctx.run_case(&case, || eval_span_order(&src));
            for k in 0..2u64 {
                let seed = ctx.sub_seed("bad-gen", i) ^ k;
                let case = json!({"kind": "bad-token", "src": src, "seed": seed});
                ctx.run_case(&case, || eval_bad_token(&src, seed));
            }
        }
        let corpus = crate::corpus::load();
        ctx.explore_iter("span-corpus", corpus.iter(), |c| json!({"kind": "span-order", "src": c.text}), |c| eval_span_order(&c.text));
    }
    let n = ctx.tier.pick(60_000, 600_000);
    ctx.explore(
        "planted",
        n,
        &gen_::choice_stream(260),
        |data| {
            let p = build(data);
            json!({"kind": "planted", "planted": serde_json::to_value(&p).unwrap(), "src": p.src})
        },
        |data| eval_planted(&build(data)),
    );
    // (b) planted illegal tokens in generated programs and corpus texts
    let corpus = crate::corpus::load();
    let per = ctx.tier.pick(3u64, 40u64);
    let mut idx = 0u64;
    for c in corpus.iter() {
        if koto_parser::Parser::parse(&c.text).is_err() {
            continue;
        }
        for k in 0..per {
            idx += 1;
            if !ctx.mine(idx) {
                continue;
            }
            let seed = ctx.sub_seed("bad", idx) ^ k;
            let case = json!({"kind": "bad-token", "src": c.text, "seed": seed});
            ctx.run_case(&case, || eval_bad_token(&c.text, seed));
        }
    }
    // every in-bracket site of the corpus texts (quick: a quarter of them)
    let keep: u64 = ctx.tier.pick(4, 1);
    for c in corpus.iter() {
        if c.text.len() > 6000 || koto_parser::Parser::parse(&c.text).is_err() {
            continue;
        }
        for (at, line, n_tok) in bad_token_sites(&c.text) {
            if n_tok != 1 {
                continue;
            }
            idx += 1;
            if !ctx.mine(idx) || fnv(format!("{}:{at}", c.name).as_bytes()) % keep != 0 || ctx.too_many_failures() {
                continue;
            }
            let case = json!({"kind": "bad-token-at", "src": c.text, "at": at, "line": line, "tok": "$"});
            ctx.run_case(&case, || eval_bad_token_at(&c.text, at, line, "$", true));
        }
    }
    // weaker clause on the mutation neighbourhood
    let pct: u64 = ctx.tier.pick(3, 100);
    for (ci, c) in corpus.iter().enumerate() {
        if c.text.len() > 3000 {
            continue;
        }
        let toks = textgen::token_ranges(&c.text);
        let nn = textgen::neighbourhood_size(&c.text, &toks);
        for k in 0..nn {
            idx += 1;
            if !ctx.mine(idx) || fnv(format!("{}:{}:{}", ctx.seed, ci, k).as_bytes()) % 100 >= pct {
                continue;
            }
            if ctx.too_many_failures() {
                break;
            }
            let Some(m) = textgen::mutant(&c.text, &toks, k) else { continue };
            let case = json!({"kind": "position", "src": m});
            ctx.run_case(&case, || eval_position_inside(&m));
        }
    }
}

fn replay(case: &Value) -> Option<Fail> {
    match case["kind"].as_str()? {
        "planted" => {
            let p: Planted = serde_json::from_value(case["planted"].clone()).ok()?;
            eval_planted(&p).fail
        }
        "bad-token" => eval_bad_token(case["src"].as_str()?, case["seed"].as_u64()?).fail,
        "bad-token-at" => eval_bad_token_at(case["src"].as_str()?, case["at"].as_u64()? as usize, case["line"].as_u64()? as usize, case["tok"].as_str()?, true).fail,
        "position" => eval_position_inside(case["src"].as_str()?).fail,
        "span-order" => eval_span_order(case["src"].as_str()?).fail,
        _ => None,
    }
}

//! C09 — lexing is lossless and positions are exact
use crate::core::*;
use koto_lexer::{Lexer, Token};
use proptest::prelude::*;
use serde_json::{Value, json};

pub static PROP: Prop = Prop {
    id: "C09",
    rule: "Inputs: (a) every string of length <= L over a 26-symbol alphabet reaching every lexer mode (quotes, braces, backslash, #, -, r, digits, ., e, _, letters, u, :, <, =, space, tab, CR, LF, 2/3/4-byte chars), enumerated exhaustively (quick L=4, thorough L=5 plus L=6 over a 14-symbol sub-alphabet); (b) proptest strings built from token-shaped fragments (nested interpolation, raw strings, format specs, comments, CRLF, indentation); (c) the repository corpus and its line-joined/indent-shifted variants. Oracle recomputed from the raw input only: contiguity from byte 0, char boundaries, start/end line = number of LF before the byte, spans abut, column 0 directly after LF, indent = leading space/tab count of the line (only lines whose preceding line break was lexed as a NewLine token, and line 0), full coverage when no Error token, token count <= 2*len+2. A case is non-trivial if the input contains a quote, '#', a line break or a multi-byte character; distinct by content hash.",
    assumptions: &[
        "tokens after the first Error token are not judged (statement)",
        "indent is not judged for lines that begin inside a multi-line string or comment (the statement does not define them)",
        "columns are judged only for 'zero directly after a line break' and span abutment",
    ],
    shards: |_| 12,
    run_shard,
    replay,
    min_nontrivial_fraction: 0.3,
};

const ALPHA: [&str; 26] = [
    "'", "\"", "{", "}", "\\", "#", "-", "r", "0", "1", ".", "e", "_", "a", "x", "u", ":", "<", "=", " ", "\t", "\r", "\n", "é", "語", "😀",
];
const SUB: [&str; 14] = ["'", "{", "}", "\\", "#", "-", "r", "1", ":", "<", " ", "\n", "é", "😀"];

/// The oracle. Returns (clause, detail) on violation.
pub fn check_lex(src: &str) -> Option<(String, String)> {
    let bytes = src.as_bytes();
    // nl[i] = number of '\n' in src[..i]
    let mut nl: Vec<u32> = Vec::with_capacity(bytes.len() + 1);
    let mut c = 0u32;
    nl.push(0);
    for b in bytes {
        if *b == b'\n' {
            c += 1;
        }
        nl.push(c);
    }
    let line_indent = |byte: usize| -> usize {
        let start = src[..byte].rfind('\n').map(|p| p + 1).unwrap_or(0);
        bytes[start..].iter().take_while(|b| **b == b' ' || **b == b'\t').count()
    };
    let mut lexer = Lexer::new(src);
    let mut prev_end = 0usize;
    let mut prev_span_end = koto_lexer::Position { line: 0, column: 0 };
    let mut judged_line: Option<u32> = Some(0);
    let mut count = 0usize;
    let mut saw_error = false;
    loop {
        count += 1;
        if count > 2 * src.len() + 3 {
            return Some(("progress".into(), format!("more than 2*len+2 tokens for input of {} bytes", src.len())));
        }
        let Some(t) = lexer.next() else { break };
        if t.token == Token::Error {
            saw_error = true;
            break;
        }
        let (s, e) = (t.source_bytes.start, t.source_bytes.end);
        let tk = format!("token #{count} {:?} bytes {s}..{e} span {:?} indent {}", t.token, t.span, t.indent);
        if s != prev_end {
            return Some(("contiguity".into(), format!("{tk}: starts at {s}, previous token ended at {prev_end}")));
        }
        if e < s || e > src.len() {
            return Some(("bounds".into(), format!("{tk}: byte range outside the input (len {})", src.len())));
        }
        if !src.is_char_boundary(s) || !src.is_char_boundary(e) {
            return Some(("char-boundary".into(), format!("{tk}: bound not on a char boundary")));
        }
        if t.span.start.line != nl[s] {
            return Some(("start-line".into(), format!("{tk}: start line {} but {} line breaks precede byte {s}", t.span.start.line, nl[s])));
        }
        if t.span.end.line != nl[e] {
            return Some(("end-line".into(), format!("{tk}: end line {} but {} line breaks precede byte {e}", t.span.end.line, nl[e])));
        }
        if t.span.start != prev_span_end {
            return Some(("abut".into(), format!("{tk}: span start differs from previous span end {:?}", prev_span_end)));
        }
        if (s == 0 || bytes[s - 1] == b'\n') && t.span.start.column != 0 {
            return Some(("column-reset".into(), format!("{tk}: starts directly after a line break but start column is {}", t.span.start.column)));
        }
        if e > 0 && bytes[e - 1] == b'\n' && t.span.end.column != 0 {
            return Some(("column-reset".into(), format!("{tk}: ends directly after a line break but end column is {}", t.span.end.column)));
        }
        if judged_line == Some(nl[s]) {
            let want = line_indent(s);
            if t.indent != want {
                return Some(("indent".into(), format!("{tk}: indent {} but the line has {want} leading whitespace bytes", t.indent)));
            }
        }
        if t.token == Token::NewLine {
            judged_line = Some(nl[e]);
        } else if nl[e] != nl[s] {
            // the token swallowed a line break: the line it ends on starts inside a token
            judged_line = None;
        }
        prev_end = e;
        prev_span_end = t.span.end;
    }
    if !saw_error && prev_end != src.len() {
        return Some(("coverage".into(), format!("no Error token but tokens cover only {prev_end} of {} bytes", src.len())));
    }
    // Metamorphic clause for "columns restart at zero after each line break": lengthening the text
    // *before* a line break that lies inside a token must not change any column after it.
    let toks = lex_prefix(src);
    let mut tried = 0;
    for (_, r, _) in &toks {
        if tried >= 4 {
            break;
        }
        let Some(rel) = src[r.clone()].rfind('\n') else { continue };
        if r.len() == 1 || (r.len() == 2 && &src[r.clone()] == "\r\n") {
            continue; // a NewLine token: judged directly above
        }
        tried += 1;
        let mut q = r.start + rel;
        if q > r.start && bytes[q - 1] == b'\r' {
            q -= 1;
        }
        let line_of_break = nl[q];
        let variant = format!("{}zz{}", &src[..q], &src[q..]);
        let toks2 = lex_prefix(&variant);
        if toks2.len() != toks.len() {
            continue;
        }
        let comparable = toks.iter().zip(&toks2).all(|((k1, r1, _), (k2, r2, _))| {
            k1 == k2 && (if r1.start > q { r2.start == r1.start + 2 } else { r2.start == r1.start }) && (if r1.end > q { r2.end == r1.end + 2 } else { r2.end == r1.end })
        });
        if !comparable {
            continue;
        }
        for ((k, r1, s1), (_, _, s2)) in toks.iter().zip(&toks2) {
            if s1.start.line > line_of_break && s1.start != s2.start {
                return Some(("column-independence".into(), format!("token {k:?} at bytes {r1:?}: start {:?} becomes {:?} when 2 characters are inserted before the line break at byte {q} (an earlier line)", s1.start, s2.start)));
            }
            if s1.end.line > line_of_break && s1.end != s2.end {
                return Some(("column-independence".into(), format!("token {k:?} at bytes {r1:?}: end {:?} becomes {:?} when 2 characters are inserted before the line break at byte {q} (an earlier line)", s1.end, s2.end)));
            }
        }
    }
    None
}

fn lex_prefix(src: &str) -> Vec<(Token, std::ops::Range<usize>, koto_lexer::Span)> {
    let mut out = vec![];
    for t in Lexer::new(src) {
        if t.token == Token::Error || out.len() > 2 * src.len() + 3 {
            break;
        }
        out.push((t.token, t.source_bytes.clone(), t.span));
    }
    out
}

fn nontrivial(s: &str) -> bool {
    s.bytes().any(|b| b == b'\'' || b == b'"' || b == b'#' || b == b'\n' || b == b'\r' || b >= 0x80)
}

fn eval_str(s: &str) -> Eval {
    let mut ev = Eval::pass(nontrivial(s));
    if let Some((clause, detail)) = check_lex(s) {
        // known shape: line break inside interpolation format options
        ev.fail = Some(Fail::new(format!("c09:{clause}"), detail));
    }
    ev
}

fn eval_guarded(s: &str) -> Eval {
    match guarded(|| eval_str(s)) {
        Ok(ev) => ev,
        Err((loc, msg)) => Eval::failed(panic_sig(&loc, &msg), format!("panic at {loc}: {msg}")),
    }
}

fn enumerate_block(ctx: &mut Ctx, alpha: &[&str], max_len: usize, block: usize, name: &str) {
    // block = index of the 2-symbol prefix; block 0 additionally covers lengths 0 and 1
    let n = alpha.len();
    let desc = json!({"kind": "block", "alphabet": name, "max_len": max_len, "block": block});
    if !ctx.begin_batch(&desc) {
        return;
    }
    let mut last = String::new();
    let mut run_one = |ctx: &mut Ctx, s: &str| {
        let ev = eval_guarded(s);
        ctx.batch_item(fnv(s.as_bytes()), &ev, &|| json!({"kind": "text", "src": s}));
    };
    if block == 0 {
        run_one(ctx, "");
        for a in alpha {
            run_one(ctx, a);
        }
    }
    let prefix = format!("{}{}", alpha[block / n], alpha[block % n]);
    // all suffixes of length 0..=max_len-2
    let mut idx: Vec<usize> = vec![];
    loop {
        let mut s = prefix.clone();
        for i in &idx {
            s.push_str(alpha[*i]);
        }
        run_one(ctx, &s);
        last = s;
        // next in length-lexicographic order
        let mut k = idx.len();
        loop {
            if k == 0 {
                idx = vec![0; idx.len() + 1];
                break;
            }
            k -= 1;
            if idx[k] + 1 < n {
                idx[k] += 1;
                for j in k + 1..idx.len() {
                    idx[j] = 0;
                }
                break;
            }
        }
        if idx.len() > max_len - 2 {
            break;
        }
    }
    ctx.end_batch(json!({"kind": "text", "src": last}));
}

pub fn fragment() -> impl Strategy<Value = String> {
    prop_oneof![
        4 => "[a-zé語_][a-z0-9_]{0,4}",
        2 => "(0x[0-9a-f_]{1,3}|0b[01_]{1,3}|0o[0-7]{1,3}|[0-9][0-9_]{0,3}(\\.[0-9]{1,2})?(e[+-]?[0-9]{1,2})?)",
        3 => "( |  |\t|    )",
        3 => "(\n|\r\n|\n  |\n    |\n\t|\r\n  )",
        3 => "(\\+|-|\\*|/|%|\\^|==|!=|<=|>=|<|>|=|\\+=|->|\\.\\.|\\.\\.=|\\.\\.\\.|\\.|,|:|;|@|\\?|\\(|\\)|\\[|\\]|\\{|\\}|\\|)",
        2 => "(if|then|else|for|in|while|match|and|or|not|true|null|self|return|let|await)",
        3 => "'([a-z é😀]|\\\\n|\\\\'|\\\\\\{|\\\\u\\{1f600\\}|\n|\r\n){0,5}'",
        3 => "\"([a-z ']|\\{[a-z]\\}|\\{[a-z]:[ _é]?[<^>]?[0-9]{0,2}(\\.[0-9])?[xXob?e]?\\}|\\{ *'[a-z]\\{[a-z]\\}' *\\}|\\{\\{[a-z]: 1\\}\\}|\n){0,5}\"",
        2 => "r(#{0,2})'([a-z {}\\\\\"#]|\n|'){0,5}'#{0,2}",
        2 => "#[^-\r\n][a-z '\"é]{0,6}",
        2 => "#-([a-z #'é-]|\n|\r\n|#-|-#){0,8}-#",
        1 => "#-[a-z\n]{0,4}",
        1 => "('|\"|r#'|\\{|\\}|\\\\|\r|\u{0301}|😀|\\$|`|~|!)",
        1 => "'\\{[a-z0-9]:[^a-z]{0,4}\\}'",
    ]
}

pub fn random_text() -> impl Strategy<Value = String> {
    proptest::collection::vec(fragment(), 1..10).prop_map(|v| v.concat())
}

fn run_shard(ctx: &mut Ctx) {
    // (a) exhaustive
    let max_len = ctx.tier.pick(4, 5);
    let nblocks = ALPHA.len() * ALPHA.len();
    for b in 0..nblocks {
        if ctx.mine(b as u64) {
            enumerate_block(ctx, &ALPHA, max_len, b, "A26");
        }
    }
    if ctx.shard == 0 {
        let total: u64 = (0..=max_len as u32).map(|l| (ALPHA.len() as u64).pow(l)).sum();
        ctx.st.exhaustive_spaces.insert(format!("A26^<={max_len}"), total);
    }
    if !ctx.quick() {
        for b in 0..SUB.len() * SUB.len() {
            if ctx.mine(b as u64) {
                enumerate_block(ctx, &SUB, 6, b, "S14");
            }
        }
        if ctx.shard == 0 {
            let total: u64 = (0..=6u32).map(|l| (SUB.len() as u64).pow(l)).sum();
            ctx.st.exhaustive_spaces.insert("S14^<=6".into(), total);
        }
    }
    // boundary inputs the alphabets cannot reach: raw strings at the delimiter-length limits, long runs
    if ctx.shard == 0 {
        let mut items: Vec<String> = vec![];
        for hashes in [0usize, 1, 2, 127, 128, 254, 255, 256, 257, 300] {
            let h = "#".repeat(hashes);
            for body in ["x", "", "a\nb", "é", "'", "\"#"] {
                for q in ['\'', '"'] {
                    items.push(format!("r{h}{q}{body}{q}{h}"));
                    items.push(format!("x = r{h}{q}{body}{q}{h}\ny = 1\n"));
                    items.push(format!("r{h}{q}{body}")); // unterminated
                    items.push(format!("r{h}{q}{body}{q}{}", "#".repeat(hashes.saturating_sub(1)))); // one hash short
                }
            }
        }
        for n in [255usize, 256, 65535, 65536, 70000] {
            items.push(format!("{}x", " ".repeat(n)));
            items.push(format!("'{}'", "a".repeat(n)));
            items.push(format!("#{}\nx", "c".repeat(n)));
            items.push(format!("{}\nx", "\n".repeat(n.min(3000))));
            items.push(format!("x{}", "y".repeat(n)));
            items.push(format!("{}", "1".repeat(n.min(400))));
        }
        for s in items {
            let case = json!({"kind": "text", "src": s});
            ctx.run_case(&case, || eval_str(&s).class("boundary"));
        }
    }
    // (b) random token-shaped strings
    let n = ctx.tier.pick(200_000, 3_000_000);
    ctx.explore("random", n, &random_text(), |s| json!({"kind": "text", "src": s}), |s| eval_str(s).class("random"));
    // (c) corpus + variants
    let corpus = crate::corpus::load();
    let mut items: Vec<String> = vec![];
    for c in &corpus {
        items.push(c.text.clone());
        items.push(c.text.replace('\n', "\r\n"));
        items.push(c.text.lines().map(|l| format!("  {l}")).collect::<Vec<_>>().join("\n"));
        // truncated variants: cut at a third and two thirds (unterminated strings/comments)
        for k in [1, 2] {
            let mut cut = c.text.len() * k / 3;
            while !c.text.is_char_boundary(cut) {
                cut -= 1;
            }
            items.push(c.text[..cut].to_string());
        }
    }
    ctx.explore_iter("corpus", items.into_iter(), |s| json!({"kind": "text", "src": s}), |s| eval_str(s).class("corpus"));
}

fn replay(case: &Value) -> Option<Fail> {
    match case["kind"].as_str() {
        Some("text") => eval_str(case["src"].as_str()?).fail,
        Some("block") => {
            // a worker died inside this block: re-run it string by string
            let name = case["alphabet"].as_str()?;
            let alpha: &[&str] = if name == "A26" { &ALPHA } else { &SUB };
            let max_len = case["max_len"].as_u64()? as usize;
            let block = case["block"].as_u64()? as usize;
            let n = alpha.len();
            let prefix = format!("{}{}", alpha[block / n], alpha[block % n]);
            let mut stack = vec![prefix];
            while let Some(s) = stack.pop() {
                if let Some(f) = eval_guarded(&s).fail {
                    return Some(Fail::new(f.sig, format!("input {s:?}: {}", f.detail)));
                }
                if s.chars().count() < max_len {
                    for a in alpha {
                        stack.push(format!("{s}{a}"));
                    }
                }
            }
            None
        }
        _ => None,
    }
}

//! C13 — iterator pipelines are lazy, ordered and faithful to sequence semantics
use crate::core::*;
use crate::kx::{self, RunOpts};
use serde::{Deserialize, Serialize};
use serde_json::{Value, json};
use std::cell::Cell;
use std::rc::Rc;

pub static PROP: Prop = Prop {
    id: "C13",
    rule: "Pipelines = source x adaptor chain x consumer, run 25 per script (zip / chain also with pair-emitting arguments: a map, an enumerate adaptor; consumers include four peekable interleavings of peek / peek_back with forward and backward consumption). Sources: list, tuple, exclusive / inclusive / descending range, exclusive / inclusive range with bounds beyond 32 bits, ASCII string, a string of multi-character grapheme clusters that end in ASCII, map, and generators (looping over a range, over a list, and over an adaptor chain) that print `p<i>` on every pull, each of length 0..5 (exhaustive). Adaptors (numeric parameters 0..3): each, keep, skip, take, take_while, step, chain, zip, enumerate, chunks, windows, flatten, intersperse, cycle (always under a later take), reversed, iter. Consumers: to_list, to_tuple, count, sum, product, min, max, min_max, fold, find, position, any, all, last, consume, a for loop, 3-target unpacking, and next/next_back call sequences. All chains of depth <= 2 are enumerated (quick: x every source x a consumer rotated per pipeline; thorough: x every consumer, plus depth 3 over a reduced source set); deeper chains are proptest-sampled. Oracle: (1) the printed result equals a sequence model written in plain Rust on vectors from the core-library docs (errors for chunks/windows/step 0 and reversed on a non-bidirectional chain); (2) laziness: nothing is pulled before the pipeline is consumed, pulls are p0, p1, ... each once and in order, and the number of pulls is at most the model's minimal demand plus the declared look-ahead of the chain; (3) reversed over a bidirectional chain is the forward output backwards; (4) a copy taken after k pulls advances independently of the original. Zip / chain arguments include pair-emitting iterables (map, enumerate); peekable consumers interleave peek / peek_back with forward and backward consumption. Non-trivial: chain depth >= 2, reuse of an exhausted iterator, or a mixed-direction call sequence.",
    assumptions: &[
        "look-ahead allowance per adaptor: step k: k-1, intersperse / zip / chain / peekable: 1, windows n: n, chunks n: n",
        "error texts are not compared (only that an error is raised)",
    ],
    shards: |_| 14,
    run_shard,
    replay,
    min_nontrivial_fraction: 0.3,
};

#[derive(Clone, Debug, PartialEq)]
pub enum MV {
    Null,
    Bool(bool),
    Int(i64),
    Str(String),
    Tup(Vec<MV>),
    List(Vec<MV>),
}

pub fn show(v: &MV, contained: bool) -> String {
    match v {
        MV::Null => "null".into(),
        MV::Bool(b) => b.to_string(),
        MV::Int(n) => n.to_string(),
        MV::Str(s) => {
            if contained {
                format!("'{s}'")
            } else {
                s.clone()
            }
        }
        MV::Tup(t) => format!("({})", t.iter().map(|x| show(x, true)).collect::<Vec<_>>().join(", ")),
        MV::List(t) => format!("[{}]", t.iter().map(|x| show(x, true)).collect::<Vec<_>>().join(", ")),
    }
}

#[derive(Clone, Copy, Debug, PartialEq, Eq, Serialize, Deserialize)]
pub enum SrcK {
    List,
    Tuple,
    Range,
    RangeInc,
    RangeDesc,
    Str,
    Map,
    Gen,
    StrChars,
    StrBytes,
    StrSplit,
    StrLines,
    ObjNext,
    ObjIterator,
    GenList,
    GenPipe,
    /// ranges whose bounds do not fit in 32 bits (a separate representation inside koto)
    RangeLarge,
    RangeLargeInc,
    /// a string whose grapheme clusters are a Prepend character (U+0600) followed by an ASCII digit, and letters
    StrCluster,
}
pub const SOURCES: [SrcK; 19] = [
    SrcK::List, SrcK::Tuple, SrcK::Range, SrcK::RangeInc, SrcK::RangeDesc, SrcK::Str, SrcK::Map, SrcK::Gen, SrcK::StrChars, SrcK::StrBytes, SrcK::StrSplit, SrcK::StrLines, SrcK::ObjNext, SrcK::ObjIterator, SrcK::GenList, SrcK::GenPipe, SrcK::RangeLarge, SrcK::RangeLargeInc, SrcK::StrCluster,
];

#[derive(Clone, Copy, Debug, PartialEq, Eq, Serialize, Deserialize)]
pub enum Ad {
    Each,
    Keep,
    Skip(u8),
    Take(u8),
    TakeWhile,
    Step(u8),
    Chain,
    Zip,
    Enumerate,
    Chunks(u8),
    Windows(u8),
    Flatten,
    Intersperse,
    Cycle,
    Reversed,
    Iter,
    /// zip / chain with an argument that yields key-value pairs (a map) or pairs from an adaptor
    ZipMap,
    ZipEnumerate,
    ChainMap,
}

pub fn all_adaptors() -> Vec<Ad> {
    let mut v = vec![Ad::Each, Ad::Keep, Ad::TakeWhile, Ad::Chain, Ad::Zip, Ad::Enumerate, Ad::Flatten, Ad::Intersperse, Ad::Cycle, Ad::Reversed, Ad::Iter, Ad::ZipMap, Ad::ZipEnumerate, Ad::ChainMap];
    for n in 0..4u8 {
        v.push(Ad::Skip(n));
        v.push(Ad::Take(n));
        v.push(Ad::Step(n));
        v.push(Ad::Chunks(n));
        v.push(Ad::Windows(n));
    }
    v
}

#[derive(Clone, Copy, Debug, PartialEq, Eq, Serialize, Deserialize)]
pub enum Cons {
    ToList,
    ToTuple,
    Count,
    Sum,
    Product,
    Min,
    Max,
    MinMax,
    Fold,
    Find,
    Position,
    Any,
    All,
    Last,
    Consume,
    For,
    Unpack3,
    Next3,
    NextBackMix,
    CopyThenAdvance,
    ExhaustReuse,
    /// peekable: peek, next, peek again, collect the rest
    PeekForward,
    /// peekable: peek_back, then consume forwards to the end
    PeekBackThenForward,
    /// peekable: peek, then consume backwards to the end
    PeekThenBackward,
    /// peekable: peek and peek_back interleaved with next / next_back
    PeekMix,
}
pub const CONSUMERS: [Cons; 25] = [
    Cons::ToList, Cons::ToTuple, Cons::Count, Cons::Sum, Cons::Product, Cons::Min, Cons::Max, Cons::MinMax, Cons::Fold, Cons::Find, Cons::Position, Cons::Any, Cons::All, Cons::Last, Cons::Consume, Cons::For, Cons::Unpack3, Cons::Next3,
    Cons::NextBackMix, Cons::CopyThenAdvance, Cons::ExhaustReuse, Cons::PeekForward, Cons::PeekBackThenForward, Cons::PeekThenBackward, Cons::PeekMix,
];

#[derive(Clone, Debug, Serialize, Deserialize)]
pub struct Pipe {
    pub src: SrcK,
    pub len: u8,
    pub chain: Vec<Ad>,
    pub cons: Cons,
}

const STR_CLUSTERS: [&str; 5] = ["\u{600}1", "b", "\u{600}2", "d", "\u{600}3"];

fn source_values(k: SrcK, len: u8) -> Vec<MV> {
    let n = len as i64;
    match k {
        SrcK::List | SrcK::Tuple | SrcK::Gen | SrcK::GenList | SrcK::GenPipe | SrcK::ObjNext | SrcK::ObjIterator => (1..=n).map(MV::Int).collect(),
        SrcK::StrChars => "abcde".chars().take(len as usize).map(|c| MV::Str(c.to_string())).collect(),
        SrcK::StrBytes => "abcde".bytes().take(len as usize).map(|b| MV::Int(b as i64)).collect(),
        // 'a,b,c' split by ',' : len+1 pieces... we use len pieces joined by ',' (len 0: '' splits into one empty piece)
        SrcK::StrSplit => {
            if len == 0 {
                vec![MV::Str(String::new())]
            } else {
                "abcde".chars().take(len as usize).map(|c| MV::Str(c.to_string())).collect()
            }
        }
        SrcK::StrLines => "abcde".chars().take(len as usize).map(|c| MV::Str(c.to_string())).collect(),
        SrcK::Range => (0..n).map(MV::Int).collect(),
        SrcK::RangeInc => (0..=n).map(MV::Int).collect(),
        SrcK::RangeLarge => (0..n).map(|i| MV::Int(3_000_000_000 + i)).collect(),
        SrcK::RangeLargeInc => (0..=n).map(|i| MV::Int(3_000_000_000 + i)).collect(),
        SrcK::RangeDesc => vec![],
        SrcK::Str => "abcde".chars().take(len as usize).map(|c| MV::Str(c.to_string())).collect(),
        SrcK::StrCluster => STR_CLUSTERS.iter().take(len as usize).map(|c| MV::Str(c.to_string())).collect(),
        SrcK::Map => "abcde".chars().take(len as usize).enumerate().map(|(i, c)| MV::Tup(vec![MV::Str(c.to_string()), MV::Int(i as i64 + 1)])).collect(),
    }
}

fn source_text(k: SrcK, len: u8) -> String {
    let n = len as usize;
    match k {
        SrcK::List => format!("[{}]", (1..=n).map(|i| i.to_string()).collect::<Vec<_>>().join(", ")),
        SrcK::Tuple => match n {
            0 => "()".into(),
            1 => "(1,)".into(),
            _ => format!("({})", (1..=n).map(|i| i.to_string()).collect::<Vec<_>>().join(", ")),
        },
        SrcK::Range => format!("(0..{n})"),
        SrcK::RangeInc => format!("(0..={n})"),
        SrcK::RangeLarge => format!("(3000000000..{})", 3_000_000_000i64 + n as i64),
        SrcK::RangeLargeInc => format!("(3000000000..={})", 3_000_000_000i64 + n as i64),
        SrcK::RangeDesc => format!("({n}..0)"),
        SrcK::Str => format!("'{}'", &"abcde"[..n]),
        SrcK::StrCluster => format!("'{}'", STR_CLUSTERS.iter().take(n).copied().collect::<String>()),
        SrcK::Map => format!("{{{}}}", "abcde".chars().take(n).enumerate().map(|(i, c)| format!("{c}: {}", i + 1)).collect::<Vec<_>>().join(", ")),
        SrcK::Gen => format!("gen({n})"),
        SrcK::GenList => format!("genl({n})"),
        SrcK::GenPipe => format!("genp({n})"),
        SrcK::StrChars => format!("'{}'.chars()", &"abcde"[..n]),
        SrcK::StrBytes => format!("'{}'.bytes()", &"abcde"[..n]),
        SrcK::StrSplit => format!("'{}'.split(',')", "abcde".chars().take(n).map(|c| c.to_string()).collect::<Vec<_>>().join(",")),
        SrcK::StrLines => format!("'{}'.lines()", "abcde".chars().take(n).map(|c| c.to_string()).collect::<Vec<_>>().join("\\n")),
        SrcK::ObjNext => format!("mk_next({n})"),
        SrcK::ObjIterator => format!("mk_iterable({n})"),
    }
}

fn bidirectional_source(k: SrcK) -> bool {
    !matches!(k, SrcK::Gen | SrcK::GenList | SrcK::GenPipe | SrcK::ObjNext | SrcK::StrSplit | SrcK::StrLines | SrcK::StrBytes)
}

/// the second source used by chain / zip
fn other_values() -> Vec<MV> {
    vec![MV::Int(10), MV::Int(20)]
}
fn other_map_pairs() -> Vec<MV> {
    vec![MV::Tup(vec![MV::Str("a".into()), MV::Int(10)]), MV::Tup(vec![MV::Str("b".into()), MV::Int(20)])]
}
fn other_enumerated() -> Vec<MV> {
    vec![MV::Tup(vec![MV::Int(0), MV::Int(10)]), MV::Tup(vec![MV::Int(1), MV::Int(20)])]
}

#[derive(Debug)]
pub enum ModelErr {
    Error,
    /// outside the documented behaviour: not judged
    Unjudged(&'static str),
}

/// Eager model of the chain on vectors. Also reports whether the chain is still bidirectional.
pub fn model_chain(src: SrcK, len: u8, chain: &[Ad]) -> Result<(Vec<MV>, bool), ModelErr> {
    let mut v = source_values(src, len);
    let mut bidi = bidirectional_source(src);
    let mut infinite = false;
    for ad in chain {
        if infinite && !matches!(ad, Ad::Take(_) | Ad::Each | Ad::Enumerate | Ad::Skip(_) | Ad::Iter) {
            return Err(ModelErr::Unjudged("adaptor other than take/each/enumerate/skip over an endless cycle"));
        }
        match ad {
            Ad::Each => {
                v = v.into_iter().map(|x| MV::Tup(vec![x, MV::Int(0)])).collect();
            }
            Ad::Keep => {
                v.retain(|x| *x != MV::Int(2));
                bidi = false;
            }
            Ad::Skip(n) => {
                v = v.into_iter().skip(*n as usize).collect();
            }
            Ad::Take(n) => {
                v = v.into_iter().take(*n as usize).collect();
                infinite = false;
                bidi = false;
            }
            Ad::TakeWhile => {
                v = v.into_iter().take_while(|x| *x != MV::Int(3)).collect();
                bidi = false;
            }
            Ad::Step(n) => {
                if *n == 0 {
                    return Err(ModelErr::Error);
                }
                v = v.into_iter().step_by(*n as usize).collect();
                bidi = false;
            }
            Ad::Chain => {
                v.extend(other_values());
                bidi = false;
            }
            Ad::Zip => {
                v = v.into_iter().zip(other_values()).map(|(a, b)| MV::Tup(vec![a, b])).collect();
                bidi = false;
            }
            Ad::ZipMap => {
                v = v.into_iter().zip(other_map_pairs()).map(|(a, b)| MV::Tup(vec![a, b])).collect();
                bidi = false;
            }
            Ad::ZipEnumerate => {
                v = v.into_iter().zip(other_enumerated()).map(|(a, b)| MV::Tup(vec![a, b])).collect();
                bidi = false;
            }
            Ad::ChainMap => {
                v.extend(other_map_pairs());
                bidi = false;
            }
            Ad::Enumerate => {
                v = v.into_iter().enumerate().map(|(i, x)| MV::Tup(vec![MV::Int(i as i64), x])).collect();
                bidi = false;
            }
            Ad::Chunks(n) => {
                if *n == 0 {
                    return Err(ModelErr::Error);
                }
                v = v.chunks(*n as usize).map(|c| MV::Tup(c.to_vec())).collect();
                bidi = false;
            }
            Ad::Windows(n) => {
                if *n == 0 {
                    return Err(ModelErr::Error);
                }
                v = if v.len() >= *n as usize { v.windows(*n as usize).map(|c| MV::Tup(c.to_vec())).collect() } else { vec![] };
                bidi = false;
            }
            Ad::Flatten => {
                let mut out = vec![];
                for x in v {
                    match x {
                        MV::Tup(t) | MV::List(t) => out.extend(t),
                        MV::Str(s) => {
                            // strings are iterable: flatten yields their grapheme clusters (the clusters of the
                            // source alphabets are single characters, or an element of STR_CLUSTERS)
                            if STR_CLUSTERS.contains(&s.as_str()) {
                                out.push(MV::Str(s));
                            } else {
                                for c in s.chars() {
                                    out.push(MV::Str(c.to_string()));
                                }
                            }
                        }
                        other => out.push(other),
                    }
                }
                v = out;
                bidi = false;
            }
            Ad::Intersperse => {
                let mut out = vec![];
                for (i, x) in v.into_iter().enumerate() {
                    if i > 0 {
                        out.push(MV::Int(0));
                    }
                    out.push(x);
                }
                v = out;
                bidi = false;
            }
            Ad::Cycle => {
                if v.is_empty() {
                    // cycling an empty iterator yields nothing
                } else {
                    // represent the endless repetition by enough repetitions for any later take
                    let base = v.clone();
                    while v.len() < 64 {
                        v.extend(base.clone());
                    }
                    infinite = true;
                }
                bidi = false;
            }
            Ad::Reversed => {
                if !bidi {
                    return Err(ModelErr::Error);
                }
                v.reverse();
            }
            Ad::Iter => {}
        }
    }
    if infinite {
        return Err(ModelErr::Unjudged("endless pipeline"));
    }
    Ok((v, bidi))
}

fn all_int(v: &[MV]) -> bool {
    v.iter().all(|x| matches!(x, MV::Int(_)))
}
fn all_str(v: &[MV]) -> bool {
    v.iter().all(|x| matches!(x, MV::Str(_)))
}

fn mv_cmp(a: &MV, b: &MV) -> std::cmp::Ordering {
    match (a, b) {
        (MV::Int(x), MV::Int(y)) => x.cmp(y),
        (MV::Str(x), MV::Str(y)) => x.as_bytes().cmp(y.as_bytes()),
        _ => std::cmp::Ordering::Equal,
    }
}

/// expected printed result of the consumer (None = not judged)
pub fn model_consume(v: &[MV], bidi: bool, cons: Cons) -> Result<String, ModelErr> {
    let comparable = all_int(v) || all_str(v);
    Ok(match cons {
        Cons::ToList => show(&MV::List(v.to_vec()), false),
        Cons::ToTuple => show(&MV::Tup(v.to_vec()), false),
        Cons::Count => v.len().to_string(),
        Cons::Sum => {
            if !all_int(v) {
                return Err(if v.len() <= 1 { ModelErr::Unjudged("sum of a single non-number") } else { ModelErr::Error });
            }
            v.iter().map(|x| if let MV::Int(n) = x { *n } else { 0 }).sum::<i64>().to_string()
        }
        Cons::Product => {
            if !all_int(v) {
                return Err(if v.len() <= 1 { ModelErr::Unjudged("product of a single non-number") } else { ModelErr::Error });
            }
            let mut p: i64 = 1;
            for x in v {
                if let MV::Int(n) = x {
                    p = p.checked_mul(*n).ok_or(ModelErr::Unjudged("product overflows 64 bits"))?;
                }
            }
            p.to_string()
        }
        Cons::Min | Cons::Max | Cons::MinMax => {
            if v.is_empty() {
                return Ok("null".into());
            }
            if !comparable {
                return Err(if v.len() <= 1 { ModelErr::Unjudged("min/max of a single incomparable value") } else { ModelErr::Error });
            }
            let mn = v.iter().min_by(|a, b| mv_cmp(a, b)).unwrap().clone();
            let mx = v.iter().max_by(|a, b| mv_cmp(a, b)).unwrap().clone();
            match cons {
                Cons::Min => show(&mn, false),
                Cons::Max => show(&mx, false),
                _ => show(&MV::Tup(vec![mn, mx]), false),
            }
        }
        Cons::Fold => {
            let mut acc = MV::Int(0);
            for x in v {
                acc = MV::Tup(vec![acc, x.clone()]);
            }
            show(&acc, false)
        }
        Cons::Find => show(&v.iter().find(|x| **x == MV::Int(3)).cloned().unwrap_or(MV::Null), false),
        Cons::Position => v.iter().position(|x| *x == MV::Int(3)).map(|p| p.to_string()).unwrap_or("null".into()),
        Cons::Any => v.iter().any(|x| *x == MV::Int(2)).to_string(),
        Cons::All => v.iter().all(|x| *x != MV::Int(4)).to_string(),
        Cons::Last => show(&v.last().cloned().unwrap_or(MV::Null), false),
        Cons::Consume => "null".into(),
        Cons::For => {
            let mut s = String::new();
            for x in v {
                s.push_str(&show(x, false));
                s.push(';');
            }
            s
        }
        Cons::Unpack3 => {
            let g = |i: usize| show(&v.get(i).cloned().unwrap_or(MV::Null), false);
            format!("{} {} {}", g(0), g(1), g(2))
        }
        Cons::Next3 => {
            // three next() calls: values or null once exhausted
            let g = |i: usize| match v.get(i) {
                Some(x) => show(x, false),
                None => "null".into(),
            };
            format!("{} {} {}", g(0), g(1), g(2))
        }
        Cons::NextBackMix => {
            if !bidi {
                return Err(ModelErr::Unjudged("next_back on a non-bidirectional chain"));
            }
            // next, next_back, next, next_back: partitions the forward sequence
            let mut d: std::collections::VecDeque<MV> = v.iter().cloned().collect();
            let mut out = vec![];
            for k in 0..4 {
                let x = if k % 2 == 0 { d.pop_front() } else { d.pop_back() };
                out.push(x.map(|x| show(&x, false)).unwrap_or("null".into()));
            }
            out.join(" ")
        }
        Cons::PeekForward => {
            let sh = |x: Option<&MV>| x.map(|x| show(x, false)).unwrap_or("null".into());
            let rest: Vec<MV> = v.iter().skip(1).cloned().collect();
            format!("{} {} {} {} {}", sh(v.first()), sh(v.first()), sh(v.first()), sh(v.get(1)), show(&MV::Tup(rest), false))
        }
        Cons::PeekBackThenForward => {
            if !bidi {
                return Err(ModelErr::Unjudged("peek_back on a non-bidirectional chain"));
            }
            let sh = |x: Option<&MV>| x.map(|x| show(x, false)).unwrap_or("null".into());
            format!("{} {}", sh(v.last()), show(&MV::Tup(v.to_vec()), false))
        }
        Cons::PeekThenBackward => {
            if !bidi {
                return Err(ModelErr::Unjudged("reversed on a non-bidirectional chain"));
            }
            let sh = |x: Option<&MV>| x.map(|x| show(x, false)).unwrap_or("null".into());
            let rev: Vec<MV> = v.iter().rev().cloned().collect();
            format!("{} {}", sh(v.first()), show(&MV::Tup(rev), false))
        }
        Cons::PeekMix => {
            if !bidi {
                return Err(ModelErr::Unjudged("peek_back on a non-bidirectional chain"));
            }
            // peek, peek_back, next, peek_back, next_back, peek, rest
            let mut d: std::collections::VecDeque<MV> = v.iter().cloned().collect();
            let sh = |x: Option<&MV>| x.map(|x| show(x, false)).unwrap_or("null".into());
            let mut out = vec![sh(d.front()), sh(d.back())];
            out.push(sh(d.pop_front().as_ref()));
            out.push(sh(d.back()));
            out.push(sh(d.pop_back().as_ref()));
            out.push(sh(d.front()));
            out.push(show(&MV::Tup(d.into_iter().collect()), false));
            out.join(" ")
        }
        Cons::CopyThenAdvance if false => unreachable!(),
        Cons::CopyThenAdvance => {
            // advance once, copy, advance the copy twice, then collect the original
            let rest: Vec<MV> = v.iter().skip(1).cloned().collect();
            show(&MV::Tup(rest), false)
        }
        Cons::ExhaustReuse => {
            // consume fully, then next() again and collect again
            format!("{} null ()", v.len())
        }
    })
}

fn adaptor_text(ad: &Ad) -> String {
    match ad {
        Ad::Each => ".each(|x| (x, 0))".into(),
        Ad::Keep => ".keep(|x| x != 2)".into(),
        Ad::Skip(n) => format!(".skip({n})"),
        Ad::Take(n) => format!(".take({n})"),
        Ad::TakeWhile => ".take(|x| x != 3)".into(),
        Ad::Step(n) => format!(".step({n})"),
        Ad::Chain => ".chain((10, 20))".into(),
        Ad::Zip => ".zip((10, 20))".into(),
        Ad::ZipMap => ".zip({a: 10, b: 20})".into(),
        Ad::ZipEnumerate => ".zip((10, 20).enumerate())".into(),
        Ad::ChainMap => ".chain({a: 10, b: 20})".into(),
        Ad::Enumerate => ".enumerate()".into(),
        Ad::Chunks(n) => format!(".chunks({n})"),
        Ad::Windows(n) => format!(".windows({n})"),
        Ad::Flatten => ".flatten()".into(),
        Ad::Intersperse => ".intersperse(0)".into(),
        Ad::Cycle => ".cycle()".into(),
        Ad::Reversed => ".reversed()".into(),
        Ad::Iter => ".iter()".into(),
    }
}

fn lookahead(chain: &[Ad]) -> usize {
    chain
        .iter()
        .map(|a| match a {
            Ad::Step(n) => (*n as usize).saturating_sub(1) + 1,
            Ad::Intersperse | Ad::Zip | Ad::Chain | Ad::ZipMap | Ad::ZipEnumerate | Ad::ChainMap => 1,
            Ad::Windows(n) | Ad::Chunks(n) => *n as usize,
            Ad::Cycle => 64,
            Ad::Flatten => 1,
            _ => 0,
        })
        .sum()
}

/// minimal number of source pulls of the model for early-exit consumers, computed by running the
/// model lazily over a counting source (Rust's std adaptors have minimal demand)
fn model_pulls(p: &Pipe) -> usize {
    let counter = Rc::new(Cell::new(0usize));
    let src = source_values(p.src, p.len);
    let c2 = counter.clone();
    let mut it: Box<dyn Iterator<Item = MV>> = Box::new(src.into_iter().inspect(move |_| c2.set(c2.get() + 1)));
    for ad in &p.chain {
        it = match *ad {
            Ad::Each => Box::new(it.map(|x| MV::Tup(vec![x, MV::Int(0)]))),
            Ad::Keep => Box::new(it.filter(|x| *x != MV::Int(2))),
            Ad::Skip(n) => Box::new(it.skip(n as usize)),
            Ad::Take(n) => Box::new(it.take(n as usize)),
            Ad::TakeWhile => Box::new(it.take_while(|x| *x != MV::Int(3))),
            Ad::Step(n) => Box::new(it.step_by((n as usize).max(1))),
            Ad::Chain => Box::new(it.chain(other_values())),
            Ad::Zip => Box::new(it.zip(other_values()).map(|(a, b)| MV::Tup(vec![a, b]))),
            Ad::ZipMap => Box::new(it.zip(other_map_pairs()).map(|(a, b)| MV::Tup(vec![a, b]))),
            Ad::ZipEnumerate => Box::new(it.zip(other_enumerated()).map(|(a, b)| MV::Tup(vec![a, b]))),
            Ad::ChainMap => Box::new(it.chain(other_map_pairs())),
            Ad::Enumerate => Box::new(it.enumerate().map(|(i, x)| MV::Tup(vec![MV::Int(i as i64), x]))),
            _ => {
                // eager adaptors in this estimate: everything is needed
                let v: Vec<MV> = it.collect();
                Box::new(v.into_iter())
            }
        };
    }
    match p.cons {
        Cons::Find | Cons::Position => {
            let _ = it.find(|x| *x == MV::Int(3));
        }
        Cons::Any => {
            let _ = it.any(|x| x == MV::Int(2));
        }
        Cons::All => {
            let _ = it.all(|x| x != MV::Int(4));
        }
        Cons::Unpack3 | Cons::Next3 => {
            for _ in 0..3 {
                if it.next().is_none() {
                    break;
                }
            }
        }
        _ => {
            for _ in it {}
        }
    }
    // the end of the source is detected by one extra (unsuccessful) pull, which prints nothing
    counter.get()
}

pub fn pipe_script(p: &Pipe, k: usize) -> String {
    let mut s = String::new();
    s.push_str(&format!("print '#{k}'\n"));
    let mut chain_text = String::new();
    for a in &p.chain {
        chain_text.push_str(&adaptor_text(a));
    }
    let src = source_text(p.src, p.len);
    let body = match p.cons {
        Cons::ToList => "it.to_list()".to_string(),
        Cons::ToTuple => "it.to_tuple()".into(),
        Cons::Count => "it.count()".into(),
        Cons::Sum => "it.sum()".into(),
        Cons::Product => "it.product()".into(),
        Cons::Min => "it.min()".into(),
        Cons::Max => "it.max()".into(),
        Cons::MinMax => "it.min_max()".into(),
        Cons::Fold => "it.fold 0, |acc, x| (acc, x)".into(),
        Cons::Find => "it.find |x| x == 3".into(),
        Cons::Position => "it.position |x| x == 3".into(),
        Cons::Any => "it.any |x| x == 2".into(),
        Cons::All => "it.all |x| x != 4".into(),
        Cons::Last => "it.last()".into(),
        Cons::Consume => "it.consume()".into(),
        Cons::For => "(o = ''\n  for x in it\n    o = o + '{x};'\n  o)".replace("(o = ''", "").replace("  o)", "  o"),
        Cons::Unpack3 => "".into(),
        _ => "".into(),
    };
    s.push_str("r = try\n");
    let needs_iter = p.chain.is_empty() && !matches!(p.src, SrcK::Gen | SrcK::GenList | SrcK::GenPipe | SrcK::StrChars | SrcK::StrBytes | SrcK::StrSplit | SrcK::StrLines) && matches!(p.cons, Cons::Next3 | Cons::NextBackMix | Cons::CopyThenAdvance | Cons::ExhaustReuse);
    s.push_str(&format!("  it = {src}{chain_text}{}\n", if needs_iter { ".iter()" } else { "" }));
    s.push_str("  print 'made'\n");
    match p.cons {
        Cons::For => {
            s.push_str("  o = ''\n  for x in it\n    o = o + '{x};'\n  o\n");
        }
        Cons::Unpack3 => {
            s.push_str("  ua, ub, uc = it\n  '{ua} {ub} {uc}'\n");
        }
        Cons::Next3 => {
            s.push_str("  g = |o| if o == null then null else o.get()\n  na = g it.next()\n  nb = g it.next()\n  nc = g it.next()\n  '{na} {nb} {nc}'\n");
        }
        Cons::NextBackMix => {
            s.push_str("  g = |o| if o == null then null else o.get()\n  na = g it.next()\n  nb = g it.next_back()\n  nc = g it.next()\n  nd = g it.next_back()\n  '{na} {nb} {nc} {nd}'\n");
        }
        Cons::PeekForward => {
            s.push_str("  g = |o| if o == null then null else o.get()\n  pk = it.peekable()\n  pa = g pk.peek()\n  pb = g pk.peek()\n  pc = g pk.next()\n  pd = g pk.peek()\n  '{pa} {pb} {pc} {pd} {pk.to_tuple()}'\n");
        }
        Cons::PeekBackThenForward => {
            s.push_str("  g = |o| if o == null then null else o.get()\n  pk = it.peekable()\n  pa = g pk.peek_back()\n  '{pa} {pk.to_tuple()}'\n");
        }
        Cons::PeekThenBackward => {
            s.push_str("  g = |o| if o == null then null else o.get()\n  pk = it.peekable()\n  pa = g pk.peek()\n  '{pa} {pk.reversed().to_tuple()}'\n");
        }
        Cons::PeekMix => {
            s.push_str("  g = |o| if o == null then null else o.get()\n  pk = it.peekable()\n  pa = g pk.peek()\n  pb = g pk.peek_back()\n  pc = g pk.next()\n  pd = g pk.peek_back()\n  pe = g pk.next_back()\n  pf = g pk.peek()\n  '{pa} {pb} {pc} {pd} {pe} {pf} {pk.to_tuple()}'\n");
        }
        Cons::CopyThenAdvance => {
            s.push_str("  it.next()\n  cp = koto.copy it\n  cp.next()\n  cp.next()\n  it.to_tuple()\n");
        }
        Cons::ExhaustReuse => {
            s.push_str("  n = it.count()\n  again = it.next()\n  rest = it.to_tuple()\n  '{n} {again} {rest}'\n");
        }
        _ => {
            s.push_str(&format!("  {body}\n"));
        }
    }
    s.push_str("catch e\n  'ERR'\nprint 'R {r}'\n");
    s
}

const PRELUDE: &str = "gen = |n|\n  for i in 0..n\n    print 'p{i}'\n    yield i + 1\ngenl = |n|\n  for i in (0..n).to_list()\n    print 'p{i}'\n    yield i + 1\ngenp = |n|\n  for i in (0..n).each(|x| x)\n    print 'p{i}'\n    yield i + 1\nmk_next = |n|\n  i: 0\n  n: n\n  @next: ||\n    if self.i < self.n\n      self.i += 1\n      self.i\n    else\n      null\nmk_iterable = |n|\n  n: n\n  @iterator: || 1..=self.n\n";

pub struct PipeResult {
    pub fail: Option<(String, String)>,
    pub judged: bool,
}

pub fn eval_batch(pipes: &[Pipe]) -> Vec<PipeResult> {
    let mut src = String::from(PRELUDE);
    for (k, p) in pipes.iter().enumerate() {
        src.push_str(&pipe_script(p, k));
    }
    let out = kx::run(&src, &RunOpts::default());
    let mut results = vec![];
    // split the output per pipeline
    let mut sections: Vec<Vec<&str>> = vec![];
    for l in out.stdout.lines() {
        if l.starts_with('#') {
            sections.push(vec![]);
        } else if let Some(s) = sections.last_mut() {
            s.push(l);
        }
    }
    for (k, p) in pipes.iter().enumerate() {
        let Some(sec) = sections.get(k) else {
            results.push(PipeResult { fail: Some(("batch".into(), format!("no output section for pipeline {k} (batch outcome {:?})\n{}", out.outcome, pipe_script(p, k)))), judged: true });
            continue;
        };
        let text = pipe_script(p, k);
        // model
        let expected: Result<String, ModelErr> = if p.cons == Cons::CopyThenAdvance && matches!(p.src, SrcK::ObjNext | SrcK::ObjIterator) {
            // copying an iterator over a user object shares or copies the object's own state: not documented
            Err(ModelErr::Unjudged("copy of an iterator over a user-defined object"))
        } else {
            model_chain(p.src, p.len, &p.chain).and_then(|(v, bidi)| model_consume(&v, bidi, p.cons))
        };
        let made_at = sec.iter().position(|l| *l == "made");
        let result_line = sec.iter().rev().find(|l| l.starts_with("R ")).map(|l| &l[2..]);
        let pulls: Vec<&str> = sec.iter().filter(|l| l.starts_with('p') && l[1..].chars().all(|c| c.is_ascii_digit())).cloned().collect();
        match &expected {
            Err(ModelErr::Unjudged(_)) => {
                results.push(PipeResult { fail: None, judged: false });
                continue;
            }
            Err(ModelErr::Error) => {
                if result_line != Some("ERR") {
                    results.push(PipeResult { fail: Some(("value".into(), format!("model expects an error, koto printed {result_line:?}\n{text}"))), judged: true });
                    continue;
                }
            }
            Ok(exp) => {
                if result_line != Some(exp.as_str()) {
                    results.push(PipeResult { fail: Some(("value".into(), format!("model {exp:?}, koto {result_line:?}\n{text}"))), judged: true });
                    continue;
                }
            }
        }
        // laziness
        if matches!(p.src, SrcK::Gen | SrcK::GenList | SrcK::GenPipe) {
            if let Some(m) = made_at {
                if sec[..m].iter().any(|l| l.starts_with('p')) {
                    results.push(PipeResult { fail: Some(("eager-pull".into(), format!("source elements were pulled before the pipeline was consumed: {:?}\n{text}", &sec[..m]))), judged: true });
                    continue;
                }
            }
            let in_order = pulls.iter().enumerate().all(|(i, l)| **l == format!("p{i}"));
            // a copied generator replays its own pulls: order is only judged without copies
            if !in_order && p.cons != Cons::CopyThenAdvance {
                results.push(PipeResult { fail: Some(("pull-order".into(), format!("pulls are not p0, p1, ... each once: {pulls:?}\n{text}"))), judged: true });
                continue;
            }
            if expected.is_ok() && !matches!(p.cons, Cons::CopyThenAdvance | Cons::ExhaustReuse | Cons::NextBackMix | Cons::PeekForward | Cons::PeekBackThenForward | Cons::PeekThenBackward | Cons::PeekMix) {
                // every request made after an inner adaptor has ended may pull once more (adaptors are
                // not fused): allow one pull per request of the multi-request consumers and per skipped element
                let requests = if matches!(p.cons, Cons::Unpack3 | Cons::Next3) { 3 + p.chain.iter().map(|a| if let Ad::Skip(n) = a { *n as usize } else { 0 }).sum::<usize>() } else { 0 };
                let allowed = model_pulls(p) + lookahead(&p.chain) + requests;
                if pulls.len() > allowed.min(p.len as usize) && pulls.len() > allowed {
                    results.push(PipeResult { fail: Some(("over-pull".into(), format!("{} pulls, the model needs {} (+{} look-ahead)\n{text}", pulls.len(), model_pulls(p), lookahead(&p.chain)))), judged: true });
                    continue;
                }
            }
        }
        results.push(PipeResult { fail: None, judged: true });
    }
    results
}

/// Source text of a batch of sampled pipelines (used by the rc / arc differential)
pub fn sample_pipeline_source(data: &[u32]) -> String {
    let mut s = crate::pgen::Src::new(data);
    let ads = all_adaptors();
    let mut src = String::from(PRELUDE);
    for k in 0..12 {
        let depth = 1 + s.below(4) as usize;
        let chain: Vec<Ad> = (0..depth).map(|_| ads[s.below(ads.len() as u32) as usize]).collect();
        let p = Pipe { src: SOURCES[s.below(SOURCES.len() as u32) as usize], len: s.below(6) as u8, chain: fix_cycle(chain), cons: CONSUMERS[s.below(CONSUMERS.len() as u32) as usize] };
        src.push_str(&pipe_script(&p, k));
    }
    src
}

fn fix_cycle(chain: Vec<Ad>) -> Vec<Ad> {
    // every cycle is bounded by a take: directly (possibly after element-wise adaptors that cannot
    // spin on an endless input)
    let mut out: Vec<Ad> = vec![];
    let mut open_cycle = false;
    for a in chain {
        if open_cycle {
            match a {
                Ad::Take(_) => open_cycle = false,
                Ad::Each | Ad::Enumerate | Ad::Skip(_) | Ad::Iter => {}
                _ => {
                    out.push(Ad::Take(5));
                    open_cycle = false;
                }
            }
        }
        if a == Ad::Cycle {
            open_cycle = true;
        }
        out.push(a);
    }
    if open_cycle {
        out.push(Ad::Take(5));
    }
    out
}

fn run_batch(ctx: &mut Ctx, batch: &[Pipe], desc: Value) {
    if !ctx.begin_batch(&desc) {
        return;
    }
    let results = match guarded(|| eval_batch(batch)) {
        Ok(r) => r,
        Err((loc, msg)) => batch.iter().map(|_| PipeResult { fail: Some((panic_sig(&loc, &msg), format!("panic at {loc}: {msg}"))), judged: true }).collect(),
    };
    let mut last = json!(null);
    for (p, r) in batch.iter().zip(results.into_iter()) {
        let cj = json!({"kind": "pipe", "pipe": serde_json::to_value(p).unwrap(), "script": pipe_script(p, 0)});
        let mut ev = Eval::pass(p.chain.len() >= 2 || matches!(p.cons, Cons::ExhaustReuse | Cons::NextBackMix | Cons::PeekForward | Cons::PeekBackThenForward | Cons::PeekThenBackward | Cons::PeekMix));
        if !r.judged {
            ev.discard = true;
            ev.classes.push("unjudged");
        }
        ev.classes.push(intern(&format!("depth:{}", p.chain.len())));
        if let Some((what, detail)) = r.fail {
            ev.fail = Some(Fail::new(if what.starts_with("panic@") { what } else { format!("c13:{what}|{:?}", p.chain.last()) }, detail));
        }
        let h = fnv(cj["script"].as_str().unwrap().as_bytes());
        ctx.batch_item(h, &ev, &|| cj.clone());
        last = cj;
    }
    ctx.end_batch(last);
}

fn run_shard(ctx: &mut Ctx) {
    use proptest::prelude::*;
    use proptest::strategy::ValueTree;
    let ads = all_adaptors();
    let quick = ctx.quick();
    let mut batch: Vec<Pipe> = vec![];
    let mut bidx = 0u64;
    let mut pidx = 0u64;
    let mut flush = |ctx: &mut Ctx, batch: &mut Vec<Pipe>, bidx: &mut u64| {
        if batch.is_empty() {
            return;
        }
        *bidx += 1;
        if ctx.mine(*bidx) {
            let desc = json!({"kind": "batch", "pipes": serde_json::to_value(&*batch).unwrap()});
            run_batch(ctx, batch, desc);
        }
        batch.clear();
    };
    // all chains of depth <= 2
    let mut chains: Vec<Vec<Ad>> = vec![vec![]];
    for a in &ads {
        chains.push(vec![*a]);
    }
    for a in &ads {
        for b in &ads {
            chains.push(vec![*a, *b]);
        }
    }
    let mut total = 0u64;
    for chain in &chains {
        let chain = fix_cycle(chain.clone());
        for src in SOURCES {
            for len in 0..=5u8 {
                if quick && chain.len() >= 2 {
                    pidx += 1;
                    let cons = CONSUMERS[(pidx % CONSUMERS.len() as u64) as usize];
                    batch.push(Pipe { src, len, chain: chain.clone(), cons });
                    total += 1;
                    if batch.len() == 25 {
                        flush(ctx, &mut batch, &mut bidx);
                    }
                } else {
                    for cons in CONSUMERS {
                        batch.push(Pipe { src, len, chain: chain.clone(), cons });
                        total += 1;
                        if batch.len() == 25 {
                            flush(ctx, &mut batch, &mut bidx);
                        }
                    }
                }
            }
        }
    }
    flush(ctx, &mut batch, &mut bidx);
    if ctx.shard == 0 {
        ctx.st.exhaustive_spaces.insert(if quick { "chains-depth<=2 x sources x lengths (consumer rotated)".into() } else { "chains-depth<=2 x sources x lengths x consumers".into() }, total);
    }
    // deeper chains: proptest-sampled
    let n = ctx.tier.pick(6_000u64, 100_000u64);
    let strat = (proptest::collection::vec(0usize..ads.len(), 3..=4), 0usize..SOURCES.len(), 0u8..=5, 0usize..CONSUMERS.len());
    for i in 0..n {
        let mut b: Vec<Pipe> = vec![];
        for j in 0..25u64 {
            let mut runner = seeded_runner(ctx.sub_seed("deep", i * 25 + j));
            let (c, s, l, k) = strat.new_tree(&mut runner).unwrap().current();
            b.push(Pipe { src: SOURCES[s], len: l, chain: fix_cycle(c.into_iter().map(|x| ads[x]).collect()), cons: CONSUMERS[k] });
        }
        batch = b;
        flush(ctx, &mut batch, &mut bidx);
    }
}

fn replay(case: &Value) -> Option<Fail> {
    match case["kind"].as_str()? {
        "pipe" => {
            let p: Pipe = serde_json::from_value(case["pipe"].clone()).ok()?;
            let r = eval_batch(&[p.clone()]).into_iter().next()?;
            r.fail.map(|(w, d)| Fail::new(format!("c13:{w}|{:?}", p.chain.last()), d))
        }
        "batch" => {
            let pipes: Vec<Pipe> = serde_json::from_value(case["pipes"].clone()).ok()?;
            for p in pipes {
                match guarded(|| eval_batch(&[p.clone()])) {
                    Ok(r) => {
                        if let Some((w, d)) = r.into_iter().next().and_then(|r| r.fail) {
                            return Some(Fail::new(format!("c13:{w}|{:?}", p.chain.last()), d));
                        }
                    }
                    Err((loc, msg)) => return Some(Fail::new(panic_sig(&loc, &msg), format!("panic at {loc}: {msg}\n{}", pipe_script(&p, 0)))),
                }
            }
            None
        }
        _ => None,
    }
}

//! C16 — type hints check exactly as documented; disabling them changes nothing else
use crate::core::*;
use crate::corpus;
use crate::kx::{self, RunOpts};
use serde_json::{Value, json};

pub static PROP: Prop = Prop {
    id: "C16",
    rule: "(a) the full product of 27 hint positions (plus a `koto.type` anchor) (three multi-lets whose right-hand side is one iterated value, six positions binding `_` / `_name` with a hint, let, second target of a multi-let, for argument, unpacked for argument, function argument, unpacked function argument, variadic-free default argument, implicit and explicit return value, yield, match arm, nested match pattern, typed catch, a hinted entry of a map pattern in a match arm and in a catch) x 44 hints (11 built-in type names, Object, three user @type names of a @base chain, an unknown name, a wrong-case name, Any / Callable / Indexable / Iterable, each with and without `?`) x 27 runtime values (every value kind, native and generator functions, iterators, objects with @type, without @type, with @base chains of depth 1-3, with @call / @index / @iterator / @next), each site run in its own try wrapper under enable_type_checks on and off: a checking site raises exactly when the oracle (own type name, then the @type of each @base in turn; `?` admits null; the four special hints by the guide's definitions) says mismatch, match and catch sites select / fall through instead, and with checks disabled every checking site passes while match / catch sites are unchanged; `koto.type` of every value is anchored to the declared name. (b) proptest-sampled composite programs threading one value through five hinted positions (argument -> let -> for -> match -> return) in nested frames: the first mismatching position in evaluation order decides. (c) every runnable corpus program (guide, core-library docs, test scripts) that succeeds with checks enabled prints the same with checks disabled. Non-trivial: a site where the plain type-name comparison alone gives the wrong answer (null with `?`, special hints, @base chains, objects) or any mismatch.",
    assumptions: &[
        "not judged (guide silent or implementation deliberately narrower): Callable for generator functions, Iterable for objects without @iterator/@next (they still iterate their entries) ",
        "the text of type-check errors is not judged, only that an error is raised at the site",
    ],
    shards: |_| 16,
    run_shard,
    replay,
    min_nontrivial_fraction: 0.2,
};

pub struct Val {
    pub name: &'static str,
    pub expr: &'static str,
    /// own type name followed by the type names of the @base chain
    pub chain: &'static [&'static str],
    pub callable: Option<bool>,
    pub indexable: Option<bool>,
    pub iterable: Option<bool>,
    pub throwable: bool,
}

const T: Option<bool> = Some(true);
const F: Option<bool> = Some(false);

pub fn values() -> Vec<Val> {
    let v = |name, expr, chain, callable, indexable, iterable, throwable| Val { name, expr, chain, callable, indexable, iterable, throwable };
    vec![
        v("null", "null", &["Null"], F, F, F, false),
        v("bool", "true", &["Bool"], F, F, F, false),
        v("int", "42", &["Number"], F, F, F, false),
        v("float", "1.5", &["Number"], F, F, F, false),
        v("string", "'abc'", &["String"], F, T, T, true),
        v("empty-string", "''", &["String"], F, T, T, true),
        v("list", "[1, 2]", &["List"], F, T, T, false),
        v("tuple", "(1, 2)", &["Tuple"], F, T, T, false),
        v("empty-tuple", "()", &["Tuple"], F, T, T, false),
        v("map", "{a: 1}", &["Map"], F, T, T, false),
        v("range", "1..3", &["Range"], F, T, T, false),
        // a range without an end can be indexed (`(5..)[2]` is 7); whether it is Iterable is not judged
        v("range-from", "(5..)", &["Range"], F, T, None, false),
        v("function", "|x| x", &["Function"], T, F, F, false),
        v("native-function", "string.to_number", &["Function"], T, F, F, false),
        v("generator-function", "|| yield 1", &["Generator"], None, F, F, false),
        v("iterator", "(1, 2).iter()", &["Iterator"], F, F, T, false),
        v("generator-instance", "(|| yield 1)()", &["Iterator"], F, F, T, false),
        v("typed-object", "{@type: 'Animal', name: 'x', @display: || 'animal'}", &["Animal"], F, T, None, true),
        v("untyped-object", "{@meta tag: 1, a: 1, @display: || 'obj'}", &["Object"], F, T, None, true),
        v("derived-1", "{@base: {@type: 'Animal', name: 'x'}, @type: 'Dog', @display: || 'dog'}", &["Dog", "Animal"], F, T, None, true),
        v("derived-2", "{@base: {@base: {@type: 'Animal', name: 'x'}, @type: 'Dog'}, @type: 'Pup', @display: || 'pup'}", &["Pup", "Dog", "Animal"], F, T, None, true),
        v("derived-untyped", "{@base: {@type: 'Animal', name: 'x'}, b: 2, @display: || 'child'}", &["Animal"], F, T, None, true),
        v("derived-from-untyped", "{@base: {@meta tag: 1}, @type: 'Dog', @display: || 'dog2'}", &["Dog", "Object"], F, T, None, true),
        v("callable-object", "{@call: || 1, @display: || 'callable'}", &["Object"], T, T, None, true),
        v("indexable-object", "{@index: (|i| i), @size: (|| 3), @type: 'Dog', @display: || 'ix'}", &["Dog"], F, T, None, true),
        v("iterator-object", "{@iterator: (|| (1, 2).iter()), @display: || 'it'}", &["Object"], F, T, T, true),
        v("next-object", "{@next: (|| null), @type: 'Animal', @display: || 'nx'}", &["Animal"], F, T, T, true),
    ]
}

pub const HINTS: [&str; 22] = [
    "Null", "Bool", "Number", "String", "List", "Tuple", "Map", "Range", "Function", "Generator", "Iterator", "Object", "Animal", "Dog", "Pup", "Nope", "number", "Any", "Callable", "Indexable", "Iterable", "Strin",
];

/// Some(true) = matches, Some(false) = mismatch, None = not judged
pub fn matches(v: &Val, hint: &str, optional: bool) -> Option<bool> {
    if optional && v.chain == ["Null"] {
        return Some(true);
    }
    match hint {
        "Any" => Some(true),
        "Callable" => v.callable,
        "Indexable" => v.indexable,
        "Iterable" => v.iterable,
        h => Some(v.chain.iter().any(|t| *t == h)),
    }
}

fn plain_comparison_suffices(v: &Val, hint: &str, optional: bool) -> bool {
    // trivial: the verdict equals "own type name == hint" and is a match
    let own = v.chain[0] == hint;
    matches(v, hint, optional) == Some(own) && own
}

pub const POSITIONS: [&str; 28] = ["match-map-entry", "catch-map-entry", "let-iter-ignored-first", "let-iter-ignored", "let-iter", "for-unpack-ignored-first", "arg-unpack-ignored-first", "let-multi-ignored-first", "let-multi-ignored", "for-ignored", "for-unpack-ignored", "arg-ignored", "arg-unpack-ignored", "match-ignored", "type-name", "let", "let-multi", "for", "for-unpack", "arg", "arg-unpack", "arg-default", "ret", "ret-explicit", "yield", "match", "match-nested", "catch"];

fn is_checking(pos: &str) -> bool {
    !matches!(pos, "type-name" | "match" | "match-nested" | "match-ignored" | "catch" | "match-map-entry" | "catch-map-entry")
}

/// Source of one site; it prints `<k>:<ok|E|hit|miss>`
fn site_source(k: usize, pos: &str, vexpr: &str, hint: &str) -> String {
    let body = match pos {
        "type-name" => format!("  if (type mk()) == '{}' then 'hit' else 'miss'\n", hint.trim_end_matches('?')),
        "let" => format!("  let x: {hint} = mk()\n  'ok'\n"),
        "let-multi-ignored" => format!("  let a: Any, _: {hint} = 0, mk()\n  'ok'\n"),
        // the hinted placeholder comes first: what follows it must still receive its own element
        "for-unpack-ignored-first" => format!("  q = 'none'\n  for _: {hint}, b, c in ((mk(), 7, 8),)\n    q = if b == 7 and c == 8 then 'ok' else 'shifted'\n  q\n"),
        "arg-unpack-ignored-first" => format!("  f = |(_: {hint}, b, c)| if b == 7 and c == 8 then 'ok' else 'shifted'\n  f((mk(), 7, 8))\n"),
        "let-multi-ignored-first" => format!("  let _: {hint}, b, c = mk(), 7, 8\n  if b == 7 and c == 8 then 'ok' else 'shifted'\n"),
        // the right-hand side is one value that is iterated, not a literal comma-separated list
        "let-iter-ignored-first" => format!("  src = [mk(), 7, 8]\n  let _: {hint}, b, c = src\n  if b == 7 and c == 8 then 'ok' else 'shifted'\n"),
        "let-iter-ignored" => format!("  let a: Any, _y: {hint}, c = (7, mk(), 8)\n  if a == 7 and c == 8 then 'ok' else 'shifted'\n"),
        "let-iter" => format!("  let a: Any, x: {hint}, c = [7, mk(), 8]\n  if a == 7 and c == 8 then 'ok' else 'shifted'\n"),
        // a hint on an entry of a map pattern selects, it does not assert
        "match-map-entry" => format!("  match {{x: mk(), y: 1}}\n    {{x: {hint}}} then 'hit'\n    else 'miss'\n"),
        "catch-map-entry" => format!("  try\n    throw {{code: mk(), @display: || 'e'}}\n  catch {{code: {hint}}}\n    'hit'\n  catch _\n    'miss'\n"),
        "for-ignored" => format!("  q = 'none'\n  for _: {hint} in (mk(),)\n    q = 'ok'\n  q\n"),
        "for-unpack-ignored" => format!("  q = 'none'\n  for a, _y: {hint} in ((0, mk()),)\n    q = 'ok'\n  q\n"),
        "arg-ignored" => format!("  f = |_: {hint}| 'ok'\n  f mk()\n"),
        "arg-unpack-ignored" => format!("  f = |(a, _: {hint})| 'ok'\n  f((0, mk()))\n"),
        "match-ignored" => format!("  match mk()\n    _: {hint} then 'hit'\n    else 'miss'\n"),
        "let-multi" => format!("  let a: Any, x: {hint} = 0, mk()\n  'ok'\n"),
        "for" => format!("  q = 'none'\n  for x: {hint} in (mk(),)\n    q = 'ok'\n  q\n"),
        "for-unpack" => format!("  q = 'none'\n  for a, x: {hint} in ((0, mk()),)\n    q = 'ok'\n  q\n"),
        "arg" => format!("  f = |x: {hint}| 'ok'\n  f mk()\n"),
        "arg-unpack" => format!("  f = |(a, x: {hint})| 'ok'\n  f((0, mk()))\n"),
        "arg-default" => format!("  f = |a, x: {hint} = 99| 'ok'\n  f 0, mk()\n"),
        "ret" => format!("  f = |x| -> {hint}\n    x\n  f mk()\n  'ok'\n"),
        "ret-explicit" => format!("  f = |x| -> {hint}\n    if true\n      return x\n    0\n  f mk()\n  'ok'\n"),
        "yield" => format!("  g = |x| -> {hint}\n    yield x\n  q = 'none'\n  for y in g mk()\n    q = 'ok'\n  q\n"),
        "match" => format!("  match mk()\n    x: {hint} then 'hit'\n    else 'miss'\n"),
        "match-nested" => format!("  match (0, mk())\n    (a, x: {hint}) then 'hit'\n    else 'miss'\n"),
        _ => format!("  try\n    throw mk()\n  catch e: {hint}\n    'hit'\n  catch e\n    'miss'\n"),
    };
    format!("mk = || {vexpr}\nr = try\n{body}catch _\n  'E'\nprint '{k}:{{r}}'\n")
}

#[derive(Clone, Debug, serde::Serialize, serde::Deserialize)]
pub struct Site {
    pos: usize,
    val: usize,
    hint: usize,
    optional: bool,
}

fn expected(site: &Site, vals: &[Val], checks_on: bool) -> Option<&'static str> {
    let v = &vals[site.val];
    let pos = POSITIONS[site.pos];
    let m = matches(v, HINTS[site.hint], site.optional);
    if pos == "type-name" {
        // `koto.type` reports the own @type, or the nearest @type along the @base chain
        return Some(if v.chain[0] == HINTS[site.hint] { "hit" } else { "miss" });
    }
    if is_checking(pos) {
        if !checks_on {
            return Some("ok");
        }
        m.map(|m| if m { "ok" } else { "E" })
    } else {
        m.map(|m| if m { "hit" } else { "miss" })
    }
}

/// Runs a batch of sites under one setting; returns per-site output (None when missing)
fn run_sites(sites: &[Site], vals: &[Val], checks_on: bool) -> (Vec<Option<String>>, kx::RunOut) {
    let mut src = String::new();
    for (k, s) in sites.iter().enumerate() {
        let hint = format!("{}{}", HINTS[s.hint], if s.optional { "?" } else { "" });
        src.push_str(&site_source(k, POSITIONS[s.pos], vals[s.val].expr, &hint));
    }
    let out = kx::run(&src, &RunOpts { type_checks_off: !checks_on, ..Default::default() });
    let mut res: Vec<Option<String>> = vec![None; sites.len()];
    for l in out.stdout.lines() {
        if let Some((k, r)) = l.split_once(':') {
            if let Ok(k) = k.parse::<usize>() {
                if k < res.len() {
                    res[k] = Some(r.to_string());
                }
            }
        }
    }
    (res, out)
}

fn site_text(s: &Site, vals: &[Val]) -> String {
    let hint = format!("{}{}", HINTS[s.hint], if s.optional { "?" } else { "" });
    site_source(0, POSITIONS[s.pos], vals[s.val].expr, &hint)
}

/// Evaluates a batch; returns one (site index, judged, nontrivial, failure) per site
fn eval_sites(sites: &[Site]) -> Vec<(bool, bool, Option<Fail>)> {
    let vals = values();
    let (on, on_out) = run_sites(sites, &vals, true);
    let (off, off_out) = run_sites(sites, &vals, false);
    let mut out = vec![];
    for (k, s) in sites.iter().enumerate() {
        let v = &vals[s.val];
        let pos = POSITIONS[s.pos];
        let e_on = expected(s, &vals, true);
        let e_off = expected(s, &vals, false);
        let nontrivial = !plain_comparison_suffices(v, HINTS[s.hint], s.optional);
        let mut fail = None;
        let mut judged = false;
        for (mode, e, got, run) in [("on", e_on, &on[k], &on_out), ("off", e_off, &off[k], &off_out)] {
            let Some(e) = e else { continue };
            judged = true;
            let g = got.as_deref();
            if g != Some(e) && fail.is_none() {
                let kind = if mode == "off" {
                    if is_checking(pos) { "disabled-still-checks" } else { "disabled-changes-selection" }
                } else if is_checking(pos) {
                    if e == "E" { "accepted-mismatch" } else { "rejected-match" }
                } else {
                    "wrong-selection"
                };
                let special = matches!(HINTS[s.hint], "Callable" | "Indexable" | "Iterable" | "Any");
                fail = Some(Fail::new(
                    format!("c16:{kind}:{pos}|{}", if special { HINTS[s.hint] } else { "name" }),
                    format!(
                        "position {pos}, value {} ({}), hint {}{}, type checks {mode}: expected {e:?}, got {g:?}{}\n{}",
                        v.name,
                        v.expr,
                        HINTS[s.hint],
                        if s.optional { "?" } else { "" },
                        if g.is_none() { format!(" (batch outcome {:?})", run.outcome) } else { String::new() },
                        site_text(s, &vals)
                    ),
                ));
            }
        }
        out.push((judged, nontrivial, fail));
    }
    out
}

fn run_site_batch(ctx: &mut Ctx, sites: &[Site]) {
    let desc = json!({"kind": "sites", "sites": serde_json::to_value(sites).unwrap()});
    if !ctx.begin_batch(&desc) {
        return;
    }
    let results = match guarded(|| eval_sites(sites)) {
        Ok(r) => r,
        Err((loc, msg)) => sites.iter().map(|_| (true, true, Some(Fail::new(panic_sig(&loc, &msg), format!("panic at {loc}: {msg}"))))).collect(),
    };
    let mut last = json!(null);
    for (s, (judged, nontrivial, fail)) in sites.iter().zip(results.into_iter()) {
        let cj = json!({"kind": "site", "site": serde_json::to_value(s).unwrap()});
        let mut ev = Eval::pass(nontrivial).class(intern(&format!("pos:{}", POSITIONS[s.pos])));
        if !judged {
            ev.discard = true;
            ev.classes.push("unjudged");
        }
        ev.fail = fail;
        ctx.batch_item(hash_value(&cj), &ev, &|| cj.clone());
        last = cj;
    }
    ctx.end_batch(last);
}

// ---------------------------------------------------------------------------------------------
// (b) composite programs

#[derive(Clone, Debug, serde::Serialize, serde::Deserialize)]
pub struct Chain {
    val: usize,
    hints: Vec<(usize, bool)>, // arg, let, for, match, ret
    depth: usize,
}

fn hint_text(h: &(usize, bool)) -> String {
    format!("{}{}", HINTS[h.0], if h.1 { "?" } else { "" })
}

fn chain_source(c: &Chain, vals: &[Val]) -> String {
    let h: Vec<String> = c.hints.iter().map(hint_text).collect();
    let mut s = format!("mk = || {}\n", vals[c.val].expr);
    s.push_str(&format!("f = |a: {}| -> {}\n  let b: {} = a\n  r = 'none'\n  for c: {} in (b,)\n    r = match c\n      d: {} then 'hit'\n      else 'miss'\n  print r\n  b\n", h[0], h[4], h[1], h[2], h[3]));
    // call through `depth` nested plain closures so that the hinted frames are not the outermost ones
    let mut call = "f mk()".to_string();
    for i in 0..c.depth {
        s.push_str(&format!("w{i} = || {call}\n"));
        call = format!("w{i}()");
    }
    s.push_str(&format!("z = try\n  {call}\n  'ok'\ncatch _\n  'E'\nprint z\n"));
    s
}

fn eval_chain(c: &Chain) -> Eval {
    let vals = values();
    let v = &vals[c.val];
    let m: Vec<Option<bool>> = c.hints.iter().map(|h| matches(v, HINTS[h.0], h.1)).collect();
    let src = chain_source(c, &vals);
    let mut ev = Eval::pass(m.iter().any(|x| *x == Some(false))).class("chain");
    // expected output, checks on: positions in evaluation order arg, let, for, (match prints), ret
    let exp_on: Option<String> = (|| {
        for i in [0, 1, 2] {
            if !m[i]? {
                return Some("E\n".to_string());
            }
        }
        let sel = if m[3]? { "hit" } else { "miss" };
        Some(format!("{sel}\n{}\n", if m[4]? { "ok" } else { "E" }))
    })();
    let exp_off: Option<String> = m[3].map(|x| format!("{}\nok\n", if x { "hit" } else { "miss" }));
    let mut judged = false;
    for (mode, exp) in [(true, exp_on), (false, exp_off)] {
        let Some(exp) = exp else { continue };
        judged = true;
        let out = kx::run(&src, &RunOpts { type_checks_off: !mode, ..Default::default() });
        if out.stdout != exp || !out.outcome.is_ok() {
            ev.fail = Some(Fail::new(
                format!("c16:chain:{}", if mode { "on" } else { "off" }),
                format!("value {} hints {:?} checks {}: expected {exp:?}, got {:?} ({:?})\n{src}", v.name, c.hints.iter().map(hint_text).collect::<Vec<_>>(), if mode { "on" } else { "off" }, out.stdout, out.outcome.class()),
            ));
            return ev;
        }
    }
    if !judged {
        ev.discard = true;
    }
    ev
}

// ---------------------------------------------------------------------------------------------
// (c) corpus differential

fn eval_corpus(text: &str, name: &str) -> Eval {
    let on = kx::run(text, &RunOpts { limit_ms: Some(3000), ..Default::default() });
    let mut ev = Eval::pass(text.contains(": ") || text.contains("->")).class("corpus");
    if !on.outcome.is_ok() {
        ev.discard = true;
        return ev;
    }
    let off = kx::run(text, &RunOpts { limit_ms: Some(3000), type_checks_off: true, ..Default::default() });
    if off.stdout != on.stdout || off.outcome.class() != on.outcome.class() {
        ev.fail = Some(Fail::new("c16:corpus-differs", format!("{name}: with type checks disabled the program printed {:?} ({:?}) instead of {:?}", off.stdout, off.outcome.class(), on.stdout)));
    }
    ev
}

fn nondeterministic(text: &str) -> bool {
    ["random", "os.", "io.", "time", "koto.hash", "chunk:", "args", "script_"].iter().any(|w| text.contains(w))
}

fn run_shard(ctx: &mut Ctx) {
    let vals = values();
    // (a) full product, batched by (position, value)
    let mut bidx = 0u64;
    let mut total = 0u64;
    for pos in 0..POSITIONS.len() {
        for val in 0..vals.len() {
            let mut batch = vec![];
            for hint in 0..HINTS.len() {
                for optional in [false, true] {
                    batch.push(Site { pos, val, hint, optional });
                }
            }
            total += batch.len() as u64;
            bidx += 1;
            if ctx.mine(bidx) && !ctx.too_many_failures() {
                run_site_batch(ctx, &batch);
            }
        }
    }
    if ctx.shard == 0 {
        ctx.st.exhaustive_spaces.insert("positions x values x hints x optional".into(), total);
    }
    // (b) composite chains
    {
        use proptest::prelude::*;
        let n = ctx.tier.pick(6_000u64, 400_000u64);
        // hints are drawn with a bias towards the value's own chain so that deep positions are reached
        let strat = (0usize..vals.len(), proptest::collection::vec((0usize..HINTS.len() * 2, any::<bool>(), 0u8..4), 5), 0usize..4);
        let vals2 = values();
        ctx.explore(
            "chain",
            n,
            &strat,
            |(val, hs, depth)| {
                let c = decode_chain(*val, hs, *depth, &values());
                json!({"kind": "chain", "chain": serde_json::to_value(&c).unwrap()})
            },
            move |(val, hs, depth)| eval_chain(&decode_chain(*val, hs, *depth, &vals2)),
        );
    }
    // (c) corpus
    let items: Vec<corpus::Item> = corpus::load().into_iter().filter(|i| i.runnable && !nondeterministic(&i.text)).collect();
    ctx.explore_iter("corpus", items.into_iter(), |i| json!({"kind": "corpus", "name": i.name, "text": i.text}), |i| eval_corpus(&i.text, &i.name));
}

fn decode_chain(val: usize, hs: &[(usize, bool, u8)], depth: usize, vals: &[Val]) -> Chain {
    let v = &vals[val];
    let hints = hs
        .iter()
        .map(|(h, opt, bias)| {
            // three times out of four pick a hint that matches (own chain or Any), so that later positions are reached
            if *bias > 0 {
                let mut pool: Vec<usize> = HINTS.iter().enumerate().filter(|(_, n)| v.chain.contains(n) || **n == "Any").map(|x| x.0).collect();
                pool.sort();
                (pool[(h * pool.len()) / (HINTS.len() * 2)], *opt)
            } else {
                (h % HINTS.len(), *opt)
            }
        })
        .collect();
    Chain { val, hints, depth }
}

fn replay(case: &Value) -> Option<Fail> {
    match case["kind"].as_str()? {
        "site" => {
            let s: Site = serde_json::from_value(case["site"].clone()).ok()?;
            eval_sites(&[s]).into_iter().next()?.2
        }
        "sites" => {
            let s: Vec<Site> = serde_json::from_value(case["sites"].clone()).ok()?;
            eval_sites(&s).into_iter().find_map(|x| x.2)
        }
        "chain" => {
            let c: Chain = serde_json::from_value(case["chain"].clone()).ok()?;
            eval_chain(&c).fail
        }
        "corpus" => eval_corpus(case["text"].as_str()?, case["name"].as_str().unwrap_or("?")).fail,
        _ => None,
    }
}

//! C02 — functions, closures and generators bind and capture as documented
use crate::core::*;
use crate::lang::*;
use crate::pgen::{self as gen_, Cfg, G};
use crate::props::c01;
use serde_json::{Value, json};

pub static PROP: Prop = Prop {
    id: "C02",
    rule: "Programs from G/functions decoded from a proptest choice vector: 2-7 scenarios per program drawn from {function with a generated signature (0-2 positional incl. nested tuple unpack with leading/trailing/absent ellipsis and `_`, 0-2 defaults reading outer variables, optional variadic) called 1-3 times with argument lists from too few to too many, packed `xs...` runs and empty packs; recursion; capture-by-copy with reassignment after capture and a shared list mutated through the capture; objects with methods using self; generator definitions (yield inside for/if, early return, trailing yields) consumed by for, unpacking, to_tuple/to_list, pause-and-resume across two loops, and packed forwarding; piped calls incl. chains; closure factories; nested closures}. Every body prints its bound arguments. Oracle: stdout, result and Ok/Err class equal the reference interpreter M (binding as in the guide, arity and unpack-size errors, capture by copy, defaults evaluated once, lazy resume order modelled by coroutines); each program also runs inside a function and inside a nested closure. Non-trivial: the program calls a function with >= 2 different argument forms, or a closure with a capture, or resumes a generator >= 2 times (feature counters); distinct by content hash.",
    assumptions: &[
        "closures never reassign captured names from expressions that read them (known shape F27, excluded by construction)",
        "arity errors are generated only outside try/catch (C04-arity-catch belongs to C04/C06)",
        "runtime error texts are not compared",
    ],
    shards: |_| 14,
    run_shard,
    replay,
    min_nontrivial_fraction: 0.3,
};

pub fn build(data: &[u32]) -> (Vec<E>, G<'_>) {
    let mut g = G::new(data, Cfg { stmts: (2, 6), ..Cfg::default() });
    let prog = g.fn_program();
    (prog, g)
}

const VARIANTS: [&str; 3] = ["plain", "in-function", "nested-closure"];

fn nontrivial(g: &G) -> bool {
    let f = |k: &str| g.features.get(k).copied().unwrap_or(0);
    f("packed-args") + f("capture-scenario") + f("closure-factory") + f("nested-closure") > 0 || f("generator-def") > 0 || f("function-def") >= 2
}

fn case_json(prog: &[E]) -> Value {
    json!({"kind": "prog", "src": c01::variant_source(prog, "plain"), "ast": serde_json::to_value(prog).unwrap()})
}

pub fn eval_program(prog: &[E]) -> Eval {
    let mut ev = c01::eval_program(prog, &VARIANTS);
    if let Some(f) = &mut ev.fail {
        f.sig = f.sig.replace("c01:", "c02:");
    }
    ev
}

fn run_shard(ctx: &mut Ctx) {
    let n = ctx.tier.pick(8_000, 120_000);
    let post = |data: &Vec<u32>, f: &Fail| -> Option<(Value, Fail)> {
        let (prog, _) = build(data);
        reduce(&prog, f)
    };
    ctx.explore_r(
        "fn-programs",
        n,
        &gen_::choice_stream(700),
        |data| case_json(&build(data).0),
        |data| {
            let (prog, g) = build(data);
            let mut ev = eval_program(&prog);
            ev.nontrivial = nontrivial(&g);
            for (f, _) in g.features.iter() {
                ev.classes.push(f);
            }
            ev
        },
        Some(&post),
    );
}

fn reduce(prog: &Vec<E>, f: &Fail) -> Option<(Value, Fail)> {
    let class = sig_class(&f.sig).to_string();
    let mut last: Option<Fail> = None;
    let leaves = [json!("Null"), json!({"Int": 0}), json!({"Int": 1}), json!({"Bool": true})];
    let reduced = crate::shrink::reduce(
        prog,
        &leaves,
        &mut |p: &Vec<E>| match guarded(|| eval_program(p)) {
            Ok(ev) => match ev.fail {
                Some(f2) if sig_class(&f2.sig) == class => {
                    last = Some(f2);
                    true
                }
                _ => false,
            },
            Err((loc, msg)) => {
                let sig = panic_sig(&loc, &msg);
                if sig_class(&sig) == class {
                    last = Some(Fail::new(sig, format!("panic at {loc}: {msg}")));
                    true
                } else {
                    false
                }
            }
        },
        std::time::Duration::from_secs(12),
    );
    last.map(|f2| (case_json(&reduced), f2))
}

fn replay(case: &Value) -> Option<Fail> {
    let prog: Vec<E> = serde_json::from_value(case["ast"].clone()).ok()?;
    eval_program(&prog).fail
}

//! Running Koto scripts with captured output
use koto::prelude::*;
use koto_runtime::PtrMut;
use serde::{Deserialize, Serialize};
use std::time::Duration;

#[derive(Clone, Debug)]
pub struct Capture {
    out: PtrMut<String>,
    bad_utf8: PtrMut<bool>,
}
impl Default for Capture {
    fn default() -> Self {
        Capture { out: make_ptr_mut!(String::new()), bad_utf8: make_ptr_mut!(false) }
    }
}
impl Capture {
    pub fn take(&self) -> String {
        std::mem::take(&mut *self.out.borrow_mut())
    }
    pub fn get(&self) -> String {
        self.out.borrow().clone()
    }
    pub fn push_line(&self, line: &str) {
        let mut o = self.out.borrow_mut();
        o.push_str(line);
        o.push('\n');
    }
    pub fn saw_bad_utf8(&self) -> bool {
        *self.bad_utf8.borrow()
    }
}
impl KotoFile for Capture {
    fn id(&self) -> KString {
        "_capture_".into()
    }
}
impl KotoRead for Capture {}
impl KotoWrite for Capture {
    fn write(&self, bytes: &[u8]) -> koto_runtime::Result<()> {
        match std::str::from_utf8(bytes) {
            Ok(s) => self.out.borrow_mut().push_str(s),
            Err(_) => {
                *self.bad_utf8.borrow_mut() = true;
                self.out.borrow_mut().push_str(&String::from_utf8_lossy(bytes));
            }
        }
        Ok(())
    }
    fn write_line(&self, text: &str) -> koto_runtime::Result<()> {
        // re-validate: a &str built through unchecked slicing may be malformed
        let bytes = unsafe { std::slice::from_raw_parts(text.as_ptr(), text.len()) };
        match std::str::from_utf8(std::hint::black_box(bytes)) {
            Ok(s) => self.out.borrow_mut().push_str(s),
            Err(_) => {
                *self.bad_utf8.borrow_mut() = true;
                self.out.borrow_mut().push_str(&String::from_utf8_lossy(bytes));
            }
        }
        self.out.borrow_mut().push('\n');
        Ok(())
    }
    fn flush(&self) -> koto_runtime::Result<()> {
        Ok(())
    }
}

#[derive(Clone, Debug, Default)]
pub struct RunOpts {
    pub type_checks_off: bool,
    pub export_top_level: bool,
    pub limit_ms: Option<u64>,
    pub no_tests: bool,
    pub script_path: Option<String>,
    pub no_import_tests: bool,
}

#[derive(Clone, Debug, PartialEq, Eq, Serialize, Deserialize)]
pub enum Outcome {
    /// rendered result value
    Ok(String),
    /// compile error (message, is_indentation_error)
    CompileErr(String, bool),
    /// runtime error (full rendered message)
    RunErr(String),
}
impl Outcome {
    pub fn is_ok(&self) -> bool {
        matches!(self, Outcome::Ok(_))
    }
    pub fn class(&self) -> &'static str {
        match self {
            Outcome::Ok(_) => "ok",
            Outcome::CompileErr(..) => "compile-error",
            Outcome::RunErr(_) => "runtime-error",
        }
    }
    pub fn err_first_line(&self) -> Option<&str> {
        match self {
            Outcome::RunErr(m) | Outcome::CompileErr(m, _) => m.lines().next(),
            _ => None,
        }
    }
}

#[derive(Clone, Debug)]
pub struct RunOut {
    pub stdout: String,
    pub outcome: Outcome,
    pub stacks: [usize; 5],
    pub bad_utf8: bool,
}

pub fn settings(cap: &Capture, opts: &RunOpts) -> KotoSettings {
    settings_ordered(cap, opts, false)
}

/// The builder methods of KotoSettings are documented as independent: `limit_first` applies the
/// execution limit before the io redirections instead of after them
pub fn settings_ordered(cap: &Capture, opts: &RunOpts, limit_first: bool) -> KotoSettings {
    let mut s = KotoSettings::default();
    if limit_first {
        if let Some(ms) = opts.limit_ms {
            s = s.with_execution_limit(Duration::from_millis(ms));
        }
    }
    s = s.with_stdout(cap.clone()).with_stderr(cap.clone());
    if !limit_first {
        if let Some(ms) = opts.limit_ms {
            s = s.with_execution_limit(Duration::from_millis(ms));
        }
    }
    s.run_tests = !opts.no_tests;
    s.vm_settings.run_import_tests = !opts.no_import_tests;
    s
}

pub fn compile_args<'a>(src: &'a str, opts: &RunOpts) -> CompileArgs<'a> {
    let mut a = CompileArgs::new(src).enable_type_checks(!opts.type_checks_off).export_top_level_ids(opts.export_top_level);
    if let Some(p) = &opts.script_path {
        a = a.script_path(p.as_str());
    }
    a
}

/// Compile + run on a fresh runtime, render the result with value_to_string
pub fn run(src: &str, opts: &RunOpts) -> RunOut {
    let cap = Capture::default();
    let mut koto = Koto::with_settings(settings(&cap, opts));
    let outcome = run_on(&mut koto, src, opts);
    RunOut { stdout: cap.take(), outcome, stacks: koto.verif_stack_sizes(), bad_utf8: cap.saw_bad_utf8() }
}

pub fn run_on(koto: &mut Koto, src: &str, opts: &RunOpts) -> Outcome {
    let chunk = match koto.compile(compile_args(src, opts)) {
        Ok(c) => c,
        Err(e) => return Outcome::CompileErr(e.to_string(), e.is_indentation_error()),
    };
    match koto.run(chunk) {
        Ok(v) => match koto.value_to_string(v) {
            Ok(s) => Outcome::Ok(s),
            Err(e) => Outcome::RunErr(format!("<display> {e}")),
        },
        Err(e) => match &e {
            koto::Error::CompileError { error, is_indentation_error } => Outcome::CompileErr(error.clone(), *is_indentation_error),
            _ => Outcome::RunErr(e.to_string()),
        },
    }
}

pub fn run_default(src: &str) -> RunOut {
    run(src, &RunOpts::default())
}

use kv::core::{self, Tier};
use std::path::Path;

fn usage() -> ! {
    eprintln!("usage: kv check <ID> quick|thorough | kv replay <ID> <file> | kv list");
    std::process::exit(2)
}

fn main() {
    let args: Vec<String> = std::env::args().collect();
    if args.len() < 2 {
        usage();
    }
    let find = |id: &str| -> &'static core::Prop {
        kv::props::all().into_iter().find(|p| p.id == id).unwrap_or_else(|| {
            eprintln!("unknown property {id}");
            std::process::exit(2)
        })
    };
    let tier = |s: &str| match s {
        "quick" => Tier::Quick,
        "thorough" => Tier::Thorough,
        _ => usage(),
    };
    let seed: u64 = std::env::var("VERIF_SEED").ok().and_then(|s| s.parse::<i64>().ok()).map(|x| x as u64).unwrap_or(1);
    match args[1].as_str() {
        "pool" => {
            for a in kv::props::c06::POOL.iter().chain(kv::props::c06::OBJECTS.iter()).chain(kv::props::c06::RISKY.iter()) {
                let src = kv::props::c06::call_script("koto.type", &[a]);
                let r = kv::kx::run_default(&src);
                println!("{:?} => {:?}", a, r.outcome);
            }
        }
        "c19serve" => kv::props::c19::serve(),
        "fuzzseeds" => {
            // kv fuzzseeds <dir>: writes small corpus programs as seed files for the coverage-guided targets
            let dir = std::path::PathBuf::from(&args[2]);
            let _ = std::fs::create_dir_all(&dir);
            let mut n = 0;
            for (i, item) in kv::corpus::load().iter().enumerate() {
                if item.text.len() < 600 && i % 3 == 0 {
                    let _ = std::fs::write(dir.join(format!("seed{i}")), &item.text);
                    n += 1;
                }
            }
            println!("{n} seeds written to {}", dir.display());
        }
        "c07battery" => kv::props::c07::print_battery(),
        "runfile" => {
            let src = std::fs::read_to_string(&args[2]).unwrap();
            let limit = std::env::var("KV_LIMIT_MS").ok().and_then(|v| v.parse().ok()).unwrap_or(2000u64);
            let t0 = std::time::Instant::now();
            let out = kv::kx::run(&src, &kv::kx::RunOpts { limit_ms: Some(limit), ..Default::default() });
            println!("elapsed: {:?}", t0.elapsed());
            println!("stdout:\n{}outcome: {:?}\nstacks: {:?}", out.stdout, out.outcome, out.stacks);
        }
        "verify" => {
            let src = std::fs::read_to_string(&args[2]).unwrap();
            let mut koto = koto::Koto::default();
            match koto.compile(src.as_str()) {
                Ok(chunk) => {
                    let lines: Vec<&str> = src.lines().collect();
                    println!("{}", koto::prelude::Chunk::instructions_as_string(chunk.clone(), &lines));
                    match kv::props::c05::verify(&chunk) {
                        Ok(s) => println!("verifier: ok ({} instructions, {} functions, {} jumps)", s.instructions, s.functions, s.jumps),
                        Err((c, d)) => println!("verifier: {c}: {d}"),
                    }
                }
                Err(e) => println!("compile error: {e}"),
            }
        }
        "bench" => {
            kv::core::install_panic_hook();
            let t=std::time::Instant::now();
            for _ in 0..2000 { let _ = kv::props::c06::eval_call(&kv::props::c06::call_script("list.get", &["[1, 2, 3]", "1"])); }
            println!("eval_call: {:?} per call", t.elapsed()/2000);
            let t=std::time::Instant::now();
            for _ in 0..2000 { let _ = koto::Koto::default(); }
            println!("Koto::default: {:?}", t.elapsed()/2000);
            let t=std::time::Instant::now();
            for _ in 0..200 { let _ = kv::core::guarded(|| { let v: Vec<u8> = vec![]; v[1] }); }
            println!("guarded panic: {:?}", t.elapsed()/200);
            let t=std::time::Instant::now();
            for _ in 0..2000 { let _ = kv::props::c06::exercise_text("x = 1\nfor i in 0..10\n  x += i\nprint x\n", true); }
            println!("exercise_text: {:?}", t.elapsed()/2000);
        }
        "list" => {
            for p in kv::props::all() {
                println!("{}", p.id);
            }
        }
        "check" if args.len() >= 4 => {
            let p = find(&args[2]);
            std::process::exit(core::run_check(p, tier(&args[3]), seed));
        }
        "replay" if args.len() >= 4 => {
            let p = find(&args[2]);
            std::process::exit(core::replay_cmd(p, Path::new(&args[3])));
        }
        "replay-raw" if args.len() >= 5 => {
            let p = find(&args[2]);
            core::replay_raw_main(p, Path::new(&args[3]), Path::new(&args[4]));
        }
        "shard" if args.len() >= 10 => {
            let p = find(&args[2]);
            let skip: Vec<u64> = args[9].split(',').filter_map(|x| x.parse().ok()).collect();
            core::shard_main(
                p,
                tier(&args[3]),
                args[4].parse().unwrap(),
                args[5].parse().unwrap(),
                args[6].parse().unwrap(),
                Path::new(&args[7]),
                args[8] == "resume",
                skip,
            );
        }
        _ => usage(),
    }
}

//! G — grammar-based program generator over a choice stream (decoded from a proptest-generated
//! Vec<u32>, so that proptest's own shrinking of the vector shrinks the program).
use crate::lang::*;
use proptest::prelude::*;
use std::collections::BTreeMap;

pub fn choice_stream(len: usize) -> impl Strategy<Value = Vec<u32>> {
    proptest::collection::vec(any::<u32>(), len..=len)
}

pub struct Src<'a> {
    data: &'a [u32],
    pos: usize,
}
impl<'a> Src<'a> {
    pub fn new(data: &'a [u32]) -> Self {
        Src { data, pos: 0 }
    }
    fn raw(&mut self) -> u32 {
        let v = self.data.get(self.pos).copied().unwrap_or(0);
        self.pos += 1;
        v
    }
    /// monotone map of a raw choice to 0..n (so that shrinking the raw value shrinks the choice)
    pub fn below(&mut self, n: u32) -> u32 {
        if n <= 1 {
            return 0;
        }
        ((self.raw() as u64 * n as u64) >> 32) as u32
    }
    pub fn chance(&mut self, pct: u32) -> bool {
        self.below(100) >= 100 - pct.min(100)
    }
    pub fn pick<'b, T>(&mut self, xs: &'b [T]) -> &'b T {
        &xs[self.below(xs.len() as u32) as usize]
    }
    pub fn pick_name(&mut self, xs: &[String]) -> String {
        xs[self.below(xs.len() as u32) as usize].clone()
    }
    pub fn pick_str(&mut self, xs: &[&str]) -> String {
        xs[self.below(xs.len() as u32) as usize].to_string()
    }
    pub fn exhausted(&self) -> bool {
        self.pos >= self.data.len()
    }
    /// weighted choice: returns index
    pub fn weighted(&mut self, w: &[u32]) -> usize {
        let total: u32 = w.iter().sum();
        if total == 0 {
            return 0;
        }
        let mut x = self.below(total);
        for (i, wi) in w.iter().enumerate() {
            if x < *wi {
                return i;
            }
            x -= wi;
        }
        w.len() - 1
    }
}

#[derive(Clone, Copy, Debug, PartialEq, Eq)]
pub enum K {
    Num,
    Str,
    Bool,
    List,
    Tuple,
    Map,
    Range,
    Null,
    Fun,
}
pub const VALUE_KINDS: [K; 8] = [K::Num, K::Str, K::Bool, K::List, K::Tuple, K::Map, K::Range, K::Null];

#[derive(Clone, Debug)]
pub struct Var {
    pub name: String,
    pub kind: K,
    /// may be the target of assignments / mutations
    pub writable: bool,
    /// for K::Fun: number of positional args and result kind
    pub arity: usize,
    pub ret: K,
}

#[derive(Clone, Debug)]
pub struct Cfg {
    pub max_depth: u32,
    pub stmts: (u32, u32),
    pub functions: bool,
    pub confusion_pct: u32,
    pub trace: bool,
}
impl Default for Cfg {
    fn default() -> Self {
        Cfg { max_depth: 4, stmts: (5, 18), functions: false, confusion_pct: 1, trace: true }
    }
}

pub struct G<'a> {
    pub s: Src<'a>,
    pub vars: Vec<Var>,
    pub cfg: Cfg,
    counter: usize,
    loop_depth: u32,
    loop_captured: Vec<bool>,
    no_container_mutation: u32,
    block_depth: u32,
    pub excluded: BTreeMap<&'static str, u32>,
    pub features: BTreeMap<&'static str, u32>,
}

impl<'a> G<'a> {
    pub fn new(data: &'a [u32], cfg: Cfg) -> Self {
        G { s: Src::new(data), vars: vec![], cfg, counter: 0, loop_depth: 0, loop_captured: vec![], no_container_mutation: 0, block_depth: 0, excluded: BTreeMap::new(), features: BTreeMap::new() }
    }
    fn feat(&mut self, f: &'static str) {
        *self.features.entry(f).or_insert(0) += 1;
    }
    fn fresh(&mut self, prefix: &str) -> String {
        self.counter += 1;
        format!("{prefix}{}", self.counter)
    }
    fn vars_of(&self, k: K) -> Vec<&Var> {
        self.vars.iter().filter(|v| v.kind == k).collect()
    }
    fn declare(&mut self, name: &str, kind: K) {
        if !self.vars.iter().any(|v| v.name == name) {
            self.vars.push(Var { name: name.to_string(), kind, writable: true, arity: 0, ret: K::Null });
        }
    }

    // ---------------------------------------------------------------------------------------
    // expressions

    fn int_lit(&mut self) -> E {
        let c = self.s.weighted(&[50, 20, 10, 6, 4, 4, 3, 3]);
        E::Int(match c {
            0 => self.s.below(10) as i64,
            1 => self.s.below(100) as i64 - 20,
            2 => [0, 1, 2, 3, 7, 10, 63, 64, 255, 256, 1000][self.s.below(11) as usize],
            3 => i64::MAX,
            4 => i64::MAX - self.s.below(3) as i64,
            5 => -(i64::MAX),
            6 => (1i64 << 53) - self.s.below(3) as i64,
            _ => (1i64 << 31) + self.s.below(3) as i64 - 1,
        })
    }
    fn float_lit(&mut self) -> E {
        let c = self.s.below(8);
        E::Float(match c {
            0 => 0.5,
            1 => 1.0,
            2 => 2.5,
            3 => -1.5,
            4 => 0.1,
            5 => 100.0,
            6 => 1e10,
            _ => self.s.below(1000) as f64 / 8.0,
        })
    }
    fn str_lit(&mut self) -> E {
        let words = ["", "a", "b", "ab", "abc", "x y", "Hello", "z", "it's", "q\"q", "{}", "a\\b", "new\nline", "tab\tx"];
        lit_str(&self.s.pick_str(&words))
    }

    fn traced(&mut self, e: E) -> E {
        if self.cfg.trace && self.s.chance(7) {
            self.feat("traced-operand");
            E::Call(bx(id("tr")), vec![(e, false)])
        } else {
            e
        }
    }

    pub fn expr(&mut self, k: K, depth: u32) -> E {
        // deliberate kind confusion (oracle = the model's error)
        if depth > 0 && self.s.chance(self.cfg.confusion_pct) {
            self.feat("kind-confusion");
            let k2 = *self.s.pick(&VALUE_KINDS);
            return self.expr_of(k2, depth.saturating_sub(1));
        }
        let e = self.expr_of(k, depth);
        if depth > 0 && self.s.chance(4) {
            self.feat("redundant-parens");
            return E::Paren(bx(e));
        }
        e
    }

    fn leaf(&mut self, k: K) -> E {
        let vs: Vec<String> = self.vars_of(k).iter().map(|v| v.name.clone()).collect();
        if !vs.is_empty() && self.s.chance(60) {
            return id(&self.s.pick_name(&vs));
        }
        match k {
            K::Num => {
                if self.s.chance(75) {
                    self.int_lit()
                } else {
                    self.float_lit()
                }
            }
            K::Str => self.str_lit(),
            K::Bool => E::Bool(self.s.chance(50)),
            K::Null => E::Null,
            K::List => {
                let n = self.s.below(4);
                E::List((0..n).map(|_| self.leaf_scalar()).collect())
            }
            K::Tuple => {
                let n = self.s.below(4);
                E::Tuple((0..n).map(|_| self.leaf_scalar()).collect())
            }
            K::Map => {
                let n = self.s.below(3);
                let keys = ["a", "b", "c"];
                E::Map((0..n as usize).map(|i| (keys[i].to_string(), self.leaf_scalar())).collect())
            }
            K::Range => {
                let a = self.s.below(4) as i64;
                let b = a + self.s.below(5) as i64 - 1;
                E::Range(Some(bx(E::Int(a))), Some(bx(E::Int(b))), self.s.chance(30))
            }
            K::Fun => E::Null,
        }
    }
    fn leaf_scalar(&mut self) -> E {
        match self.s.below(6) {
            0 | 1 | 2 => self.int_lit(),
            3 => self.str_lit(),
            4 => self.float_lit(),
            _ => E::Null,
        }
    }

    fn small_index(&mut self) -> E {
        // index in and just out of bounds of typical containers
        let c = self.s.weighted(&[82, 12, 4, 2]);
        match c {
            0 => E::Int(self.s.below(2) as i64),
            1 => {
                let vs: Vec<String> = self.vars_of(K::Num).iter().map(|v| v.name.clone()).collect();
                if vs.is_empty() { E::Int(0) } else { id(&self.s.pick_name(&vs)) }
            }
            2 => E::Int(self.s.below(6) as i64),
            _ => E::Int(-1),
        }
    }
    fn slice_range(&mut self) -> E {
        let a = self.s.below(4) as i64;
        let b = self.s.below(6) as i64;
        match self.s.below(5) {
            0 => E::Range(Some(bx(E::Int(a))), Some(bx(E::Int(b))), false),
            1 => E::Range(Some(bx(E::Int(a))), Some(bx(E::Int(b))), true),
            2 => E::Range(Some(bx(E::Int(a))), None, false),
            3 => E::Range(None, Some(bx(E::Int(b))), false),
            _ => E::Range(None, Some(bx(E::Int(b))), true),
        }
    }

    /// a list/tuple/range expression whose elements are numbers, and its length
    fn container_of_nums(&mut self, depth: u32) -> (E, usize) {
        match self.s.below(3) {
            0 => {
                let a = self.s.below(4) as i64;
                let n = 1 + self.s.below(3) as i64;
                (E::Range(Some(bx(E::Int(a))), Some(bx(E::Int(a + n))), false), n as usize)
            }
            1 => {
                let n = 1 + self.s.below(3);
                (E::List((0..n).map(|_| self.expr(K::Num, depth.saturating_sub(1))).collect()), n as usize)
            }
            _ => {
                let n = 1 + self.s.below(3);
                (E::Tuple((0..n).map(|_| self.expr(K::Num, depth.saturating_sub(1))).collect()), n as usize)
            }
        }
    }

    fn expr_of(&mut self, k: K, depth: u32) -> E {
        if depth == 0 || self.s.exhausted() {
            return self.leaf(k);
        }
        let d = depth - 1;
        match k {
            K::Num => {
                let c = self.s.weighted(&[22, 40, 5, 5, 6, 5, 5, 4, 4]);
                match c {
                    0 => self.leaf(k),
                    1 => {
                        self.feat("arith");
                        let op = *self.s.pick(&Op::ARITH);
                        let l = self.expr(K::Num, d);
                        let l = self.traced(l);
                        let mut r = self.expr(K::Num, d);
                        if op == Op::Pow {
                            // keep exponents small: the result must stay a documented quantity
                            r = E::Int(self.s.below(5) as i64 - 1);
                        }
                        let r = self.traced(r);
                        E::Bin(op, bx(l), bx(r))
                    }
                    2 => {
                        self.feat("neg");
                        E::Neg(bx(self.expr(K::Num, d)))
                    }
                    3 => {
                        // index into a list/tuple of numbers
                        self.feat("index");
                        let (c, len) = self.container_of_nums(d);
                        let c = if matches!(c, E::Range(..)) { E::Paren(bx(c)) } else { c };
                        let idx = if self.s.chance(92) { E::Int(self.s.below(len as u32) as i64) } else { self.small_index() };
                        E::Index(bx(c), bx(idx))
                    }
                    4 => {
                        self.feat("size");
                        let kk = *self.s.pick(&[K::List, K::Tuple, K::Str, K::Map, K::Range]);
                        E::Call(bx(id("size")), vec![(self.expr(kk, d), false)])
                    }
                    5 => {
                        self.feat("inline-if");
                        let c = self.expr(K::Bool, d);
                        let a = self.expr(K::Num, d);
                        let b = self.expr(K::Num, d);
                        E::Paren(bx(E::If(vec![(c, vec![a])], Some(vec![b]))))
                    }
                    6 => {
                        // and/or yield operands
                        self.feat("logic-operand");
                        let op = if self.s.chance(50) { Op::And } else { Op::Or };
                        let lk = *self.s.pick(&[K::Num, K::Null, K::Bool, K::Num]);
                        let l = self.expr(lk, d);
                        let l = self.traced(l);
                        let r = self.expr(K::Num, d);
                        let r = self.traced(r);
                        E::Paren(bx(E::Bin(op, bx(l), bx(r))))
                    }
                    7 => {
                        // field of a map literal / variable
                        self.feat("map-access");
                        let vs: Vec<String> = self.vars_of(K::Map).iter().map(|v| v.name.clone()).collect();
                        if !vs.is_empty() && self.s.chance(50) {
                            E::Dot(bx(id(&self.s.pick_name(&vs))), self.s.pick_str(&["a", "b", "c"]))
                        } else {
                            let v = self.expr(K::Num, d);
                            E::Dot(bx(E::Map(vec![("a".into(), v), ("b".into(), E::Int(2))])), self.s.pick_str(&["a", "b"]))
                        }
                    }
                    _ => {
                        let vs: Vec<(String, usize)> = self.vars.iter().filter(|v| v.kind == K::Fun && v.ret == K::Num).map(|v| (v.name.clone(), v.arity)).collect();
                        if vs.is_empty() {
                            return self.leaf(k);
                        }
                        self.feat("call");
                        let (f, ar) = self.s.pick(&vs).clone();
                        E::Call(bx(id(&f)), (0..ar).map(|_| (self.expr(K::Num, d), false)).collect())
                    }
                }
            }
            K::Bool => {
                let c = self.s.weighted(&[15, 35, 10, 12, 12, 10, 6]);
                match c {
                    0 => self.leaf(k),
                    1 => {
                        self.feat("comparison");
                        let op = *self.s.pick(&Op::CMP);
                        let kk = if self.s.chance(75) { K::Num } else { K::Str };
                        let l = self.expr(kk, d);
                        let l = self.traced(l);
                        let r = self.expr(kk, d);
                        let r = self.traced(r);
                        E::Bin(op, bx(l), bx(r))
                    }
                    2 => {
                        // comparison chain a < b <= c (right-nested, unparenthesised)
                        self.feat("comparison-chain");
                        let a = self.expr(K::Num, d);
                        let a = self.traced(a);
                        let b = self.expr(K::Num, d);
                        let b = self.traced(b);
                        let c3 = self.expr(K::Num, d);
                        let c3 = self.traced(c3);
                        let ord = [Op::Lt, Op::Le, Op::Gt, Op::Ge];
                        let op1 = *self.s.pick(&Op::CMP);
                        let op2 = if matches!(op1, Op::Eq | Op::Ne) { *self.s.pick(&Op::CMP) } else { *self.s.pick(&ord) };
                        let chain = E::Bin(op1, bx(a), bx(E::Bin(op2, bx(b), bx(c3))));
                        if self.s.chance(25) {
                            let e4 = self.expr(K::Num, d);
                            // extend on the right: a op b op c op d
                            if let E::Bin(o1, a, bc) = chain {
                                if let E::Bin(o2, b, c3) = *bc {
                                    let op3 = if matches!(o2, Op::Eq | Op::Ne) { *self.s.pick(&Op::CMP) } else { *self.s.pick(&ord) };
                                    return E::Bin(o1, a, bx(E::Bin(o2, b, bx(E::Bin(op3, c3, bx(e4))))));
                                }
                            }
                            unreachable!()
                        }
                        chain
                    }
                    3 => {
                        self.feat("logic");
                        let op = if self.s.chance(50) { Op::And } else { Op::Or };
                        let l = self.expr(K::Bool, d);
                        let r = self.expr(K::Bool, d);
                        E::Bin(op, bx(l), bx(r))
                    }
                    4 => {
                        self.feat("not");
                        let kk = *self.s.pick(&[K::Bool, K::Bool, K::Num, K::Null, K::Str]);
                        E::Paren(bx(E::Not(bx(self.expr(kk, d)))))
                    }
                    5 => {
                        // equality across kinds
                        self.feat("equality");
                        let op = if self.s.chance(70) { Op::Eq } else { Op::Ne };
                        let k1 = *self.s.pick(&VALUE_KINDS);
                        let k2 = if self.s.chance(70) { k1 } else { *self.s.pick(&VALUE_KINDS) };
                        let l = self.expr(k1, d);
                        let r = self.expr(k2, d);
                        let wrap = |e: E| if matches!(e, E::Range(..)) { E::Paren(bx(e)) } else { e };
                        E::Bin(op, bx(wrap(l)), bx(wrap(r)))
                    }
                    _ => {
                        // comparison result compared with a bool: (a < b) == c
                        self.feat("comparison-of-comparison");
                        let a = self.expr(K::Num, d);
                        let b = self.expr(K::Num, d);
                        let c3 = self.expr(K::Bool, d);
                        let op = *self.s.pick(&[Op::Lt, Op::Le, Op::Gt, Op::Ge]);
                        E::Bin(Op::Eq, bx(E::Bin(op, bx(a), bx(b))), bx(c3))
                    }
                }
            }
            K::Str => {
                let c = self.s.weighted(&[25, 25, 35, 8, 7]);
                match c {
                    0 => self.leaf(k),
                    1 => {
                        self.feat("str-concat");
                        let l = self.expr(K::Str, d);
                        let r = self.expr(K::Str, d);
                        E::Bin(Op::Add, bx(l), bx(r))
                    }
                    2 => {
                        self.feat("interpolation");
                        let n = 1 + self.s.below(3);
                        let mut parts = vec![];
                        for _ in 0..n {
                            if self.s.chance(50) {
                                parts.push(SPart::Lit(self.s.pick_str(&["", " ", "v=", ", ", "<", ">"])));
                            }
                            let kk = *self.s.pick(&VALUE_KINDS);
                            let mut e = self.expr(kk, d);
                            if Self::map_inside_template_risk(&e) {
                                // lexer limitation: braces nested inside a template expression's inline map
                                *self.excluded.entry("nested-braces-in-template").or_insert(0) += 1;
                                e = self.leaf(K::Num);
                            }
                            let e = if matches!(e, E::Range(..)) { E::Paren(bx(e)) } else { e };
                            parts.push(SPart::Expr(e, None));
                        }
                        E::Str(parts)
                    }
                    3 => {
                        self.feat("str-index");
                        let base = self.leaf(K::Str);
                        E::Index(bx(base), bx(self.small_index()))
                    }
                    _ => {
                        self.feat("str-slice");
                        let base = self.leaf(K::Str);
                        E::Index(bx(base), bx(self.slice_range()))
                    }
                }
            }
            K::List => {
                let c = self.s.weighted(&[25, 35, 20, 20]);
                match c {
                    0 => self.leaf(k),
                    1 => {
                        self.feat("list-literal");
                        let n = self.s.below(4);
                        E::List(
                            (0..n)
                                .map(|_| {
                                    let kk = *self.s.pick(&[K::Num, K::Num, K::Num, K::Str, K::Null, K::List, K::Tuple]);
                                    let e = self.expr(kk, d);
                                    self.traced(e)
                                })
                                .collect(),
                        )
                    }
                    2 => {
                        self.feat("list-concat");
                        let l = self.expr(K::List, d);
                        let r = self.expr(K::List, d);
                        E::Bin(Op::Add, bx(l), bx(r))
                    }
                    _ => {
                        self.feat("list-slice");
                        let base = self.expr(K::List, d);
                        E::Index(bx(base), bx(self.slice_range()))
                    }
                }
            }
            K::Tuple => {
                let c = self.s.weighted(&[25, 35, 20, 20]);
                match c {
                    0 => self.leaf(k),
                    1 => {
                        self.feat("tuple-literal");
                        let n = self.s.below(4);
                        E::Tuple(
                            (0..n)
                                .map(|_| {
                                    let kk = *self.s.pick(&[K::Num, K::Num, K::Str, K::Bool, K::Tuple, K::List]);
                                    let e = self.expr(kk, d);
                                    self.traced(e)
                                })
                                .collect(),
                        )
                    }
                    2 => {
                        self.feat("tuple-concat");
                        let l = self.expr(K::Tuple, d);
                        let r = self.expr(K::Tuple, d);
                        E::Bin(Op::Add, bx(l), bx(r))
                    }
                    _ => {
                        self.feat("tuple-slice");
                        let base = self.expr(K::Tuple, d);
                        E::Index(bx(base), bx(self.slice_range()))
                    }
                }
            }
            K::Map => {
                let c = self.s.weighted(&[30, 50, 20]);
                match c {
                    0 => self.leaf(k),
                    1 => {
                        self.feat("map-literal");
                        let n = self.s.below(4) as usize;
                        let keys = ["a", "b", "c", "a"];
                        let mut seen = vec![];
                        let mut es = vec![];
                        for i in 0..n {
                            let key = keys[i];
                            if seen.contains(&key) {
                                continue;
                            }
                            seen.push(key);
                            let kk = *self.s.pick(&[K::Num, K::Num, K::Str, K::List, K::Map, K::Null]);
                            let e = self.expr(kk, d);
                            es.push((key.to_string(), self.traced(e)));
                        }
                        E::Map(es)
                    }
                    _ => {
                        self.feat("map-add");
                        let l = self.expr(K::Map, d);
                        let r = self.expr(K::Map, d);
                        E::Bin(Op::Add, bx(l), bx(r))
                    }
                }
            }
            K::Range => {
                let mut a = self.s.below(4) as i64 - 1;
                let mut b = self.s.below(6) as i64 - 1;
                let inc = self.s.chance(30);
                if self.s.chance(12) {
                    // bounds around and beyond 32 bits (koto stores such ranges differently)
                    self.feat("range-wide-bounds");
                    let base = *self.s.pick(&[2147483646i64, 3000000000, -2147483650]);
                    a = base + self.s.below(3) as i64;
                    b = a + self.s.below(4) as i64 - 1;
                }
                let wrap = |g: &mut Self, n: i64| -> E {
                    if n < 0 {
                        E::Paren(bx(E::Int(n)))
                    } else if g.s.chance(20) {
                        let vs: Vec<String> = g.vars_of(K::Num).iter().map(|v| v.name.clone()).collect();
                        if vs.is_empty() || true { E::Int(n) } else { id(&g.s.pick_name(&vs)) }
                    } else {
                        E::Int(n)
                    }
                };
                let ae = wrap(self, a);
                let be = wrap(self, b);
                E::Range(Some(bx(ae)), Some(bx(be)), inc)
            }
            K::Null => {
                if self.s.chance(50) {
                    E::Null
                } else {
                    // an if without else whose condition fails yields null
                    self.feat("if-without-else-value");
                    let c = self.expr(K::Bool, d);
                    E::Paren(bx(E::If(vec![(c, vec![E::Int(1)])], None)))
                }
            }
            K::Fun => E::Null,
        }
    }

    // ---------------------------------------------------------------------------------------
    // statements

    /// a map literal that contains another map literal or an interpolated string
    pub fn map_inside_template_risk(e: &E) -> bool {
        let mut risk = false;
        e.visit(&mut |x| {
            if let E::Map(entries) = x {
                for (_, v) in entries {
                    v.visit(&mut |y| {
                        if matches!(y, E::Map(_)) || matches!(y, E::Str(p) if p.iter().any(|q| matches!(q, SPart::Expr(..)) || matches!(q, SPart::Lit(l) if l.contains('{') || l.contains('}')))) {
                            risk = true
                        }
                    });
                }
            }
        });
        risk
    }

    fn mentions(e: &E, name: &str) -> bool {
        let mut m = false;
        e.visit(&mut |x| {
            if matches!(x, E::Id(n) if n == name) {
                m = true
            }
        });
        m
    }

    /// F25 shapes: `x = E` for an already assigned x where E reads x in a position to which the
    /// compiler forwards the assignment's result register. Safe tops: arithmetic, negation,
    /// indexing, calls (operands are evaluated into temporaries first).
    pub fn f25_shape(target: &str, value: &E) -> bool {
        if !Self::mentions(value, target) {
            return false;
        }
        match value {
            E::Bin(op, l, r) if op.is_arith() => {
                // operands that are bare ids or nested safe expressions are fine; a forwarded
                // construct directly as operand is compiled into a temporary
                let _ = (l, r);
                false
            }
            E::Neg(_) | E::Index(..) | E::Call(..) | E::Dot(..) | E::Fn(..) => false,
            _ => true,
        }
    }

    fn print_stmt(&mut self) -> E {
        // observability: print a live variable or an interpolated summary
        let names: Vec<String> = self.vars.iter().filter(|v| v.kind != K::Fun || v.arity == usize::MAX).map(|v| v.name.clone()).collect();
        if names.is_empty() || self.s.chance(30) {
            let k = *self.s.pick(&VALUE_KINDS);
            let e = self.expr(k, 2);
            let e = if matches!(e, E::Range(..)) { E::Paren(bx(e)) } else { e };
            return E::Print(vec![e]);
        }
        if self.s.chance(50) {
            E::Print(vec![id(&self.s.pick_name(&names))])
        } else {
            let n = 1 + self.s.below(3);
            let mut parts = vec![];
            for i in 0..n {
                if i > 0 {
                    parts.push(SPart::Lit(" ".into()));
                }
                parts.push(SPart::Expr(id(&self.s.pick_name(&names)), None));
            }
            E::Print(vec![E::Str(parts)])
        }
    }

    fn assign_stmt(&mut self) -> E {
        let depth = 1 + self.s.below(self.cfg.max_depth);
        let writable: Vec<(String, K)> = self.vars.iter().filter(|v| v.writable && v.kind != K::Fun).map(|v| (v.name.clone(), v.kind)).collect();
        let c = self.s.weighted(&[30, 30, 15, 10, 8, 7]);
        match c {
            0 => {
                // new variable
                let k = *self.s.pick(&VALUE_KINDS);
                let name = self.fresh("v");
                let e = self.expr(k, depth);
                self.declare(&name, k);
                self.feat("assign-new");
                E::Assign(bx(id(&name)), None, bx(e))
            }
            1 if !writable.is_empty() => {
                // reassign (same kind)
                let (name, k) = self.s.pick(&writable).clone();
                let mut e = self.expr(k, depth);
                if Self::f25_shape(&name, &e) {
                    *self.excluded.entry("F25").or_insert(0) += 1;
                    // rebuild the value through a temporary-producing top node
                    e = match k {
                        K::Num => E::Bin(Op::Add, bx(e), bx(E::Int(0))),
                        _ => self.leaf_not(k, &name),
                    };
                    if Self::f25_shape(&name, &e) {
                        e = self.leaf_not(k, &name);
                    }
                }
                self.feat("assign-existing");
                E::Assign(bx(id(&name)), None, bx(e))
            }
            2 => {
                let nums: Vec<String> = self.vars.iter().filter(|v| v.writable && v.kind == K::Num).map(|v| v.name.clone()).collect();
                if nums.is_empty() {
                    return self.print_stmt();
                }
                let name = self.s.pick(&nums).clone();
                let op = *self.s.pick(&[Op::Add, Op::Sub, Op::Mul, Op::Div, Op::Rem, Op::Add]);
                let e = self.expr(K::Num, depth.min(2));
                self.feat("compound-assign");
                E::Assign(bx(id(&name)), Some(op), bx(e))
            }
            3 | 4 if self.no_container_mutation > 0 => self.print_stmt(),
            3 => {
                // list element assignment
                let lists: Vec<String> = self.vars.iter().filter(|v| v.writable && v.kind == K::List).map(|v| v.name.clone()).collect();
                if lists.is_empty() {
                    return self.print_stmt();
                }
                let name = self.s.pick(&lists).clone();
                let idx = self.small_index();
                let e = self.expr(K::Num, depth.min(2));
                self.feat("index-assign");
                E::Assign(bx(E::Index(bx(id(&name)), bx(idx))), None, bx(e))
            }
            4 => {
                let maps: Vec<String> = self.vars.iter().filter(|v| v.writable && v.kind == K::Map).map(|v| v.name.clone()).collect();
                if maps.is_empty() {
                    return self.print_stmt();
                }
                let name = self.s.pick(&maps).clone();
                let key = self.s.pick_str(&["a", "b", "c", "d"]);
                let e = self.expr(K::Num, depth.min(2));
                self.feat("field-assign");
                E::Assign(bx(E::Dot(bx(id(&name)), key)), None, bx(e))
            }
            _ => {
                // multi-assignment
                let n = 2 + self.s.below(2) as usize;
                let names: Vec<String> = (0..n).map(|_| self.fresh("m")).collect();
                let m = self.s.below(5) as usize;
                let vals: Vec<E> = (0..m).map(|_| self.expr(K::Num, 1)).collect();
                let rhs = match self.s.below(3) {
                    0 => E::Tuple(vals),
                    1 => E::List(vals),
                    _ => E::Range(Some(bx(E::Int(0))), Some(bx(E::Int(m as i64))), false),
                };
                for nm in &names {
                    // element kinds are not tracked: only printable
                    self.declare(nm, K::Null);
                }
                // multi-assigned names hold unknown kinds: mark as read-only K::Null-ish (printing only)
                for v in self.vars.iter_mut() {
                    if names.contains(&v.name) {
                        v.writable = false;
                        v.kind = K::Fun; // excluded from typed reads
                        v.ret = K::Null;
                        v.arity = usize::MAX;
                    }
                }
                self.feat("multi-assign");
                let mut out = E::MultiAssign(names.iter().map(|n| id(n)).collect(), bx(rhs));
                if self.s.chance(30) {
                    // hole
                    if let E::MultiAssign(ts, _) = &mut out {
                        ts[0] = id("_");
                    }
                }
                if self.s.chance(35) {
                    // one of the targets is an element of an existing list or an entry of an existing map
                    let lists: Vec<String> = self.vars.iter().filter(|v| v.writable && v.kind == K::List).map(|v| v.name.clone()).collect();
                    let maps: Vec<String> = self.vars.iter().filter(|v| v.writable && v.kind == K::Map).map(|v| v.name.clone()).collect();
                    let target = if !maps.is_empty() && (lists.is_empty() || self.s.chance(50)) {
                        let key = self.s.pick_str(&["a", "b", "c"]);
                        Some(E::Dot(bx(id(&self.s.pick(&maps).clone())), key))
                    } else if !lists.is_empty() {
                        Some(E::Index(bx(id(&self.s.pick(&lists).clone())), bx(E::Int(0))))
                    } else {
                        None
                    };
                    if let (Some(t), E::MultiAssign(ts, rhs)) = (target, &mut out) {
                        self.feat("multi-assign-chain-target");
                        let k = self.s.below(ts.len() as u32) as usize;
                        ts[k] = t;
                        // simple values, so that the paren-free spelling of the tuple is available
                        if self.s.chance(70) {
                            let n = ts.len() + self.s.below(2) as usize;
                            **rhs = E::Tuple((0..n).map(|i| E::Int(10 * (i as i64 + 1) + self.s.below(5) as i64)).collect());
                        }
                    }
                }
                out
            }
        }
    }

    fn leaf_not(&mut self, k: K, name: &str) -> E {
        for _ in 0..6 {
            let e = self.leaf(k);
            if !Self::mentions(&e, name) {
                return e;
            }
        }
        match k {
            K::Num => E::Int(1),
            K::Str => lit_str("s"),
            K::Bool => E::Bool(true),
            K::List => E::List(vec![]),
            K::Tuple => E::Tuple(vec![E::Int(1)]),
            K::Map => E::Map(vec![]),
            K::Range => E::Range(Some(bx(E::Int(0))), Some(bx(E::Int(2))), false),
            _ => E::Null,
        }
    }

    fn body(&mut self, max: u32) -> Vec<E> {
        self.block_depth += 1;
        let n = 1 + self.s.below(max);
        let mut out = vec![];
        let scope_mark = self.vars.len();
        for _ in 0..n {
            out.push(self.stmt());
        }
        // variables first assigned inside a conditional block are not definitely assigned afterwards
        self.vars.truncate(scope_mark);
        self.block_depth -= 1;
        out
    }

    /// A block whose last expression has kind `k` (used as a value)
    fn value_body(&mut self, k: K) -> Vec<E> {
        let mut b = if self.s.chance(40) { self.body(2) } else { vec![] };
        b.push(self.expr(k, 2));
        b
    }

    pub fn stmt(&mut self) -> E {
        if self.s.exhausted() {
            return self.print_stmt();
        }
        let deep = self.block_depth >= 3;
        let w_ctrl = if deep { 0 } else { 8 };
        let in_loop = self.loop_depth > 0;
        let c = self.s.weighted(&[30, 22, w_ctrl, w_ctrl / 2, w_ctrl, w_ctrl, w_ctrl / 2, w_ctrl, if in_loop { 4 } else { 0 }, 6]);
        match c {
            0 => self.assign_stmt(),
            1 => self.print_stmt(),
            2 => {
                self.feat("if");
                let n_arms = 1 + self.s.weighted(&[60, 30, 10]);
                let mut arms = vec![];
                for _ in 0..n_arms {
                    let ck = *self.s.pick(&[K::Bool, K::Bool, K::Bool, K::Num, K::Null]);
                    let c = self.expr(ck, 2);
                    arms.push((c, self.body(3)));
                }
                let els = if self.s.chance(50) { Some(self.body(3)) } else { None };
                E::If(arms, els)
            }
            3 => {
                self.feat("switch");
                let n = 1 + self.s.below(3);
                let mut arms = vec![];
                for _ in 0..n {
                    let c = self.expr(K::Bool, 2);
                    arms.push((Some(c), self.body(2)));
                }
                if self.s.chance(50) {
                    arms.push((None, self.body(2)));
                }
                E::Switch(arms)
            }
            4 => {
                // counter-guarded while/until; optionally captures the loop's value
                self.feat("while");
                let cn = self.fresh("c");
                let limit = self.s.below(4) as i64;
                let until = self.s.chance(30);
                let cond = if until { E::Bin(Op::Ge, bx(id(&cn)), bx(E::Int(limit))) } else { E::Bin(Op::Lt, bx(id(&cn)), bx(E::Int(limit))) };
                let cap = self.s.chance(45);
                self.loop_depth += 1;
                self.loop_captured.push(cap);
                let mut b = vec![E::Assign(bx(id(&cn)), Some(Op::Add), bx(E::Int(1)))];
                b.extend(self.body(3));
                self.loop_captured.pop();
                self.loop_depth -= 1;
                let lp = E::While(until, bx(cond), b);
                let init = E::Assign(bx(id(&cn)), None, bx(E::Int(0)));
                let target = self.fresh("w");
                let lp = self.capture_or_plain(lp, &target, cap);
                self.pack(vec![init, lp])
            }
            5 => {
                self.feat("for");
                let it = match self.s.below(5) {
                    0 => self.expr(K::Range, 1),
                    1 => self.expr(K::List, 1),
                    2 => self.expr(K::Tuple, 1),
                    3 => self.leaf(K::Str),
                    _ => self.expr(K::Map, 1),
                };
                let is_map = matches!(it, E::Map(_)) || matches!(&it, E::Id(n) if self.vars.iter().any(|v| &v.name == n && v.kind == K::Map));
                let x = self.fresh("i");
                let scope_mark = self.vars.len();
                let pats = if is_map && self.s.chance(60) {
                    let y = self.fresh("j");
                    self.declare_opaque(&y);
                    vec![Pat::Id(x.clone(), None), Pat::Id(y, None)]
                } else {
                    vec![Pat::Id(x.clone(), None)]
                };
                self.declare_opaque(&x);
                // freeze the iterated variable
                let frozen = if let E::Id(n) = &it { Some(n.clone()) } else { None };
                if let Some(f) = &frozen {
                    for v in self.vars.iter_mut() {
                        if &v.name == f {
                            v.writable = false;
                        }
                    }
                }
                let cap = self.s.chance(45);
                let mut named = false;
                it.visit(&mut |y| {
                    if matches!(y, E::Id(_)) {
                        named = true
                    }
                });
                self.loop_depth += 1;
                self.loop_captured.push(cap);
                if named {
                    self.no_container_mutation += 1;
                }
                let b = self.body(3);
                if named {
                    self.no_container_mutation -= 1;
                }
                self.loop_captured.pop();
                self.loop_depth -= 1;
                if let Some(f) = &frozen {
                    for v in self.vars.iter_mut() {
                        if &v.name == f {
                            v.writable = true;
                        }
                    }
                }
                // the loop variables are not read after the loop (their final value is not documented)
                self.vars.truncate(scope_mark);
                let lp = E::For(pats, bx(it), b);
                let target = self.fresh("w");
                self.capture_or_plain(lp, &target, cap)
            }
            6 => {
                self.feat("loop");
                let cn = self.fresh("c");
                let limit = self.s.below(4) as i64;
                let cap = self.s.chance(45);
                let brk = if cap && self.s.chance(60) { E::Break(Some(bx(self.expr(K::Num, 1)))) } else { E::Break(None) };
                self.loop_depth += 1;
                self.loop_captured.push(cap);
                let mut b = vec![E::Assign(bx(id(&cn)), Some(Op::Add), bx(E::Int(1))), E::If(vec![(E::Bin(Op::Gt, bx(id(&cn)), bx(E::Int(limit))), vec![brk])], None)];
                b.extend(self.body(2));
                self.loop_captured.pop();
                self.loop_depth -= 1;
                let init = E::Assign(bx(id(&cn)), None, bx(E::Int(0)));
                let target = self.fresh("w");
                let lp = E::Loop(b);
                let lp = self.capture_or_plain(lp, &target, cap);
                self.pack(vec![init, lp])
            }
            7 => {
                // value of an if / switch assigned
                self.feat("if-value");
                let k = *self.s.pick(&[K::Num, K::Str, K::Bool]);
                let target = self.fresh("w");
                let n_arms = 1 + self.s.below(2);
                let mut arms = vec![];
                for _ in 0..n_arms {
                    let c = self.expr(K::Bool, 2);
                    arms.push((c, self.value_body(k)));
                }
                let els = if self.s.chance(60) { Some(self.value_body(k)) } else { None };
                let value = if self.s.chance(30) {
                    let mut sw: Vec<(Option<E>, Vec<E>)> = arms.into_iter().map(|(c, b)| (Some(c), b)).collect();
                    if let Some(e) = els {
                        sw.push((None, e));
                    }
                    E::Switch(sw)
                } else {
                    E::If(arms, els)
                };
                let target = self.stale_target(&value).unwrap_or(target);
                self.declare_opaque(&target);
                self.pack(vec![E::Assign(bx(id(&target)), None, bx(value)), E::Print(vec![id(&target)])])
            }
            8 => {
                // break / continue inside a loop body (always conditional so that the loop goes on)
                self.feat("break-continue");
                let c = self.expr(K::Bool, 2);
                let cap = self.loop_captured.last().copied().unwrap_or(false);
                let act = match self.s.below(3) {
                    0 => E::Continue,
                    1 => E::Break(None),
                    _ if cap => E::Break(Some(bx(self.expr(K::Num, 1)))),
                    _ => E::Break(None),
                };
                E::If(vec![(c, vec![act])], None)
            }
            _ => {
                // ignored expression statement (result register mode: none). Pure operators whose
                // result is unused are compiled for side effects only, so the statement is a traced
                // call: calls always run.
                let nums: Vec<String> = self.vars.iter().filter(|v| v.writable && v.kind == K::Num).map(|v| v.name.clone()).collect();
                if !nums.is_empty() && self.s.chance(40) {
                    // `and` / `or` in statement position: the value is discarded, the right operand
                    // (an assignment or a traced call) must still be guarded by the left one
                    self.feat("logic-statement");
                    let name = self.s.pick(&nums).clone();
                    let cond = self.expr(K::Bool, 2);
                    let op = if self.s.chance(50) { Op::And } else { Op::Or };
                    let rhs = match self.s.below(3) {
                        0 => E::Paren(bx(E::Assign(bx(id(&name)), Some(Op::Add), bx(E::Int(10))))),
                        1 => E::Paren(bx(E::Assign(bx(id(&name)), None, bx(E::Int(7))))),
                        _ => E::Call(bx(id("tr")), vec![(E::Int(99), false)]),
                    };
                    return self.pack(vec![E::Bin(op, bx(cond), bx(rhs)), E::Print(vec![id(&name)])]);
                }
                self.feat("ignored-expression");
                let k = *self.s.pick(&VALUE_KINDS);
                let e = self.expr(k, 3);
                let e = if matches!(e, E::Range(..)) { E::Paren(bx(e)) } else { e };
                E::Call(bx(id("tr")), vec![(e, false)])
            }
        }
    }

    fn starts_with_neg(e: &E) -> bool {
        match e {
            E::Bin(_, l, _) => Self::starts_with_neg(l),
            E::Neg(_) | E::Not(_) | E::Paren(_) | E::Tuple(_) | E::List(_) | E::Map(_) | E::Range(..) => true,
            E::Int(n) => *n < 0,
            E::Float(x) => *x < 0.0,
            E::Index(a, _) | E::Dot(a, _) => Self::starts_with_neg(a),
            E::Call(c, _) => Self::starts_with_neg(c),
            _ => false,
        }
    }

    fn declare_opaque(&mut self, name: &str) {
        self.declare(name, K::Fun);
        self.mark_opaque(name);
    }
    fn mark_opaque(&mut self, name: &str) {
        for v in self.vars.iter_mut() {
            if v.name == name {
                v.kind = K::Fun;
                v.writable = false;
                v.arity = usize::MAX;
                v.ret = K::Null;
            }
        }
    }

    /// loops either stand alone or have their value captured (`w = for ...`) and printed
    /// an existing variable (holding a stale value) as capture target, if one is available that the
    /// captured expression does not mention
    fn stale_target(&mut self, value: &E) -> Option<String> {
        if !self.s.chance(50) {
            return None;
        }
        let cands: Vec<String> = self.vars.iter().filter(|v| v.writable && v.kind != K::Fun && !Self::mentions(value, &v.name)).map(|v| v.name.clone()).collect();
        if cands.is_empty() {
            return None;
        }
        self.feat("capture-into-existing-variable");
        Some(self.s.pick_name(&cands))
    }

    fn capture_or_plain(&mut self, lp: E, target: &str, cap: bool) -> E {
        if cap {
            self.feat("loop-value-captured");
            let target = &self.stale_target(&lp).unwrap_or_else(|| target.to_string());
            self.declare_opaque(target);
            self.pack(vec![E::Assign(bx(id(target)), None, bx(lp)), E::Print(vec![id(target)])])
        } else {
            lp
        }
    }

    /// several statements in the place of one: wrapped in `if true` blocks would change meaning,
    /// so we use a marker node that the program builder flattens
    fn pack(&mut self, v: Vec<E>) -> E {
        E::Switch(vec![(Some(E::Id("\u{0}pack".into())), v)])
    }

    pub fn program(&mut self) -> Vec<E> {
        let mut prog = vec![];
        // header: a few variables of each kind
        let header: Vec<(&str, K)> = vec![("n1", K::Num), ("n2", K::Num), ("s1", K::Str), ("b1", K::Bool), ("l1", K::List), ("t1", K::Tuple), ("m1", K::Map), ("r1", K::Range)];
        for (name, k) in header {
            if self.s.chance(80) {
                let e = match k {
                    K::List => E::List(vec![E::Int(1), E::Int(2), E::Int(3)]),
                    K::Tuple => E::Tuple(vec![E::Int(4), E::Int(5)]),
                    K::Map => E::Map(vec![("a".into(), E::Int(1)), ("b".into(), E::Int(2))]),
                    _ => self.leaf(k),
                };
                prog.push(E::Assign(bx(id(name)), None, bx(e)));
                self.declare(name, k);
            }
        }
        let (lo, hi) = self.cfg.stmts;
        let n = lo + self.s.below(hi - lo + 1);
        for _ in 0..n {
            let st = self.stmt();
            prog.push(st);
        }
        // final observed expression
        let k = *self.s.pick(&VALUE_KINDS);
        let e = self.expr(k, self.cfg.max_depth);
        let e = if matches!(e, E::Range(..)) || Self::starts_with_neg(&e) { E::Paren(bx(e)) } else { e };
        prog.push(e);
        flatten(prog)
    }
}

/// Flatten `pack` marker nodes produced by the generator
pub fn flatten(b: Vec<E>) -> Vec<E> {
    let mut out = vec![];
    for e in b {
        match e {
            E::Switch(arms) if arms.len() == 1 && matches!(&arms[0].0, Some(E::Id(n)) if n == "\u{0}pack") => {
                out.extend(flatten(arms.into_iter().next().unwrap().1));
            }
            other => out.push(flatten_in(other)),
        }
    }
    out
}

fn flatten_in(e: E) -> E {
    match e {
        E::If(arms, els) => E::If(arms.into_iter().map(|(c, b)| (c, flatten(b))).collect(), els.map(flatten)),
        E::Switch(arms) => E::Switch(arms.into_iter().map(|(c, b)| (c, flatten(b))).collect()),
        E::While(u, c, b) => E::While(u, c, flatten(b)),
        E::For(p, it, b) => E::For(p, it, flatten(b)),
        E::Loop(b) => E::Loop(flatten(b)),
        E::Fn(a, r, b) => E::Fn(a, r, flatten(b)),
        E::Try(b, cs, f) => E::Try(flatten(b), cs.into_iter().map(|c| Catch { name: c.name, ty: c.ty, body: flatten(c.body) }).collect(), f.map(flatten)),
        E::Assign(t, op, v) => E::Assign(t, op, bx(flatten_in(*v))),
        E::Match(s, arms, els) => E::Match(s, arms.into_iter().map(|a| Arm { alts: a.alts, guard: a.guard, body: flatten(a.body) }).collect(), els.map(flatten)),
        other => other,
    }
}

/// The standard header defining the tracing helper
pub fn header() -> Vec<E> {
    vec![E::Assign(
        bx(id("tr")),
        None,
        bx(E::Fn(
            vec![FnArg { pat: Pat::Id("x".into(), None), default: None, variadic: false }],
            None,
            vec![E::Print(vec![E::Str(vec![SPart::Lit("tr ".into()), SPart::Expr(id("x"), None)])]), id("x")],
        )),
    )]
}

/// The generator's domain restrictions as a validity predicate over ASTs. Used to keep reduced
/// programs inside the domain the oracle is sound for, and as a self-check on generated programs.
pub fn domain_ok(prog: &[E]) -> Result<(), &'static str> {
    let count_id = |root: &[E], name: &str| -> usize {
        let mut n = 0;
        for e in root {
            e.visit(&mut |x| {
                if matches!(x, E::Id(i) if i == name) {
                    n += 1
                }
            });
        }
        n
    };
    let mut problem: Option<&'static str> = None;
    for e in prog {
        crate::model::visit_no_nested_fn(e, &mut |x| {
            if matches!(x, E::Yield(_) | E::Return(_)) {
                problem = Some("yield/return outside of a function");
            }
        });
    }
    // bare function literals as statements
    let mut check_block = |b: &[E]| {
        for st in b.iter().take(b.len().saturating_sub(1)) {
            if matches!(st, E::Fn(..)) {
                problem = Some("function literal as a statement");
            }
        }
    };
    check_block(prog);
    for e in prog {
        e.visit(&mut |x| match x {
            E::Fn(_, _, b) | E::Loop(b) | E::While(_, _, b) | E::For(_, _, b) => check_block(b),
            E::If(arms, els) => {
                for (_, b) in arms {
                    check_block(b)
                }
                if let Some(b) = els {
                    check_block(b)
                }
            }
            _ => {}
        });
    }
    for e in prog {
        e.visit(&mut |x| {
            match x {
                E::For(pats, it, body) => {
                    if pats.is_empty() || body.is_empty() {
                        problem = Some("for without arguments or body");
                    }
                    // loop variables are not read outside the loop
                    for p in pats {
                        if let Pat::Id(n, _) = p {
                            let inside = count_id(body, n);
                            if count_id(prog, n) != inside {
                                problem = Some("loop variable read outside its loop");
                            }
                        }
                    }
                    // no container mutation while iterating over a named container
                    let mut names_in_iter = false;
                    it.visit(&mut |y| {
                        if matches!(y, E::Id(_)) {
                            names_in_iter = true
                        }
                    });
                    if names_in_iter {
                        for b in body {
                            b.visit(&mut |y| {
                                if let E::Assign(t, _, _) = y {
                                    if matches!(**t, E::Index(..) | E::Dot(..)) {
                                        problem = Some("container mutated while a named container is iterated");
                                    }
                                }
                            });
                        }
                    }
                }
                E::Str(parts) => {
                    for p in parts {
                        if let SPart::Expr(e, _) = p {
                            if G::map_inside_template_risk(e) {
                                problem = Some("nested braces inside a template expression");
                            }
                        }
                    }
                }
                E::Assign(t, None, v) => {
                    if let E::Id(n) = &**t {
                        if G::f25_shape(n, v) {
                            problem = Some("F25 shape");
                        }
                    }
                }
                E::MultiAssign(ts, _) => {
                    if ts.len() < 2 {
                        problem = Some("multi-assign with fewer than two targets");
                    }
                }
                E::Fn(_, _, b) | E::Loop(b) | E::While(_, _, b) => {
                    if b.is_empty() {
                        problem = Some("empty block");
                    }
                }
                E::If(arms, els) => {
                    if arms.is_empty() || arms.iter().any(|(_, b)| b.is_empty()) || els.as_ref().map(|b| b.is_empty()).unwrap_or(false) {
                        problem = Some("empty block");
                    }
                }
                E::Switch(arms) => {
                    if arms.is_empty() || arms.iter().any(|(_, b)| b.is_empty()) {
                        problem = Some("empty block");
                    }
                }
                E::Try(b, cs, f) => {
                    if b.is_empty() || cs.is_empty() || cs.iter().any(|c| c.body.is_empty()) || f.as_ref().map(|b| b.is_empty()).unwrap_or(false) {
                        problem = Some("empty block");
                    }
                }
                E::Match(s, arms, els) => {
                    if s.is_empty() || arms.is_empty() || arms.iter().any(|a| a.body.is_empty() || a.alts.is_empty() || a.alts.iter().any(|x| x.is_empty())) || els.as_ref().map(|b| b.is_empty()).unwrap_or(false) {
                        problem = Some("empty block");
                    }
                }
                E::Tuple(_) | E::List(_) => {}
                _ => {}
            }
        });
    }
    match problem {
        Some(p) => Err(p),
        None => Ok(()),
    }
}

// =================================================================================================
// profile "functions" (C02)

#[derive(Clone, Debug, PartialEq)]
pub enum Param {
    Plain,
    Default,
    Variadic,
    /// nested unpack: number of fixed elements, rest position (None / Some(true)=leading / Some(false)=trailing), rest named
    Unpack(usize, Option<bool>, bool),
    /// `(rest..., (a, b), last)` / `(rest..., {x, y}, last)`: a nested pattern after a leading ellipsis;
    /// Some((k1, k2)) = map pattern with these keys, bool = the rest is named
    UnpackNested(Option<(String, String)>, bool),
    Ignored,
}

#[derive(Clone, Debug)]
pub struct FnSig {
    pub name: String,
    pub params: Vec<Param>,
    pub is_gen: bool,
}

impl<'a> G<'a> {
    fn num(&mut self, depth: u32) -> E {
        self.expr(K::Num, depth)
    }

    fn gen_sig(&mut self, name: &str, is_gen: bool) -> FnSig {
        let mut params = vec![];
        let n_plain = self.s.below(3);
        for _ in 0..n_plain {
            let c = self.s.weighted(&[66, 18, 8, 8]);
            params.push(match c {
                0 => Param::Plain,
                3 => {
                    let keys = if self.s.chance(50) { Some((self.fresh("kx"), self.fresh("ky"))) } else { None };
                    Param::UnpackNested(keys, self.s.chance(50))
                }
                1 => {
                    let n = 1 + self.s.below(3) as usize;
                    let rest = match self.s.below(4) {
                        0 => Some(true),
                        1 => Some(false),
                        _ => None,
                    };
                    Param::Unpack(n, rest, self.s.chance(60))
                }
                _ => Param::Ignored,
            });
        }
        let n_def = self.s.weighted(&[50, 30, 20]);
        for _ in 0..n_def {
            params.push(Param::Default);
        }
        if self.s.chance(35) {
            params.push(Param::Variadic);
        }
        FnSig { name: name.to_string(), params, is_gen }
    }

    /// Builds the FnArg list and the (name, kind) list of variables the parameters bind
    fn build_params(&mut self, sig: &FnSig) -> (Vec<FnArg>, Vec<(String, K)>) {
        let mut args = vec![];
        let mut binds = vec![];
        for p in &sig.params {
            match p {
                Param::Plain => {
                    let n = self.fresh("a");
                    binds.push((n.clone(), K::Num));
                    args.push(FnArg { pat: Pat::Id(n, None), default: None, variadic: false });
                }
                Param::Ignored => {
                    let named = self.s.chance(50);
                    let n = if named { Some(self.fresh("ig")) } else { None };
                    args.push(FnArg { pat: Pat::Wild(n, None), default: None, variadic: false });
                }
                Param::Default => {
                    let n = self.fresh("d");
                    // defaults read outer variables: evaluated once, at creation
                    let d = self.num(1);
                    binds.push((n.clone(), K::Num));
                    args.push(FnArg { pat: Pat::Id(n, None), default: Some(d), variadic: false });
                }
                Param::Variadic => {
                    let n = self.fresh("vs");
                    binds.push((n.clone(), K::Tuple));
                    args.push(FnArg { pat: Pat::Id(n, None), default: None, variadic: true });
                }
                Param::UnpackNested(keys, named) => {
                    self.feat("unpack-nested-after-rest");
                    let mut ps = vec![];
                    if *named {
                        let n = self.fresh("ur");
                        binds.push((n.clone(), K::Tuple));
                        ps.push(Pat::Rest(Some(n)));
                    } else {
                        ps.push(Pat::Rest(None));
                    }
                    match keys {
                        Some((k1, k2)) => {
                            binds.push((k1.clone(), K::Num));
                            binds.push((k2.clone(), K::Num));
                            ps.push(Pat::Map(vec![(k1.clone(), None), (k2.clone(), None)]));
                        }
                        None => {
                            let (a, b) = (self.fresh("u"), self.fresh("u"));
                            binds.push((a.clone(), K::Num));
                            binds.push((b.clone(), K::Num));
                            ps.push(Pat::Seq(vec![Pat::Id(a, None), Pat::Id(b, None)], false));
                        }
                    }
                    let last = self.fresh("u");
                    binds.push((last.clone(), K::Num));
                    ps.push(Pat::Id(last, None));
                    args.push(FnArg { pat: Pat::Seq(ps, false), default: None, variadic: false });
                }
                Param::Unpack(k, rest, named) => {
                    let mut ps = vec![];
                    let mut elems = vec![];
                    for _ in 0..*k {
                        let n = self.fresh("u");
                        binds.push((n.clone(), K::Num));
                        elems.push(Pat::Id(n, None));
                    }
                    let restp = |g: &mut Self, binds: &mut Vec<(String, K)>| {
                        if *named {
                            let n = g.fresh("ur");
                            binds.push((n.clone(), K::Tuple));
                            Pat::Rest(Some(n))
                        } else {
                            Pat::Rest(None)
                        }
                    };
                    match rest {
                        Some(true) => {
                            ps.push(restp(self, &mut binds));
                            ps.extend(elems);
                        }
                        Some(false) => {
                            ps.extend(elems);
                            ps.push(restp(self, &mut binds));
                        }
                        None => ps.extend(elems),
                    }
                    args.push(FnArg { pat: Pat::Seq(ps, false), default: None, variadic: false });
                }
            }
        }
        (args, binds)
    }

    /// enter a function body scope: outer variables become read-only captures
    fn enter_fn(&mut self, binds: &[(String, K)]) -> Vec<Var> {
        let saved = self.vars.clone();
        for v in self.vars.iter_mut() {
            v.writable = false;
        }
        for (n, k) in binds {
            self.vars.push(Var { name: n.clone(), kind: *k, writable: false, arity: 0, ret: K::Null });
        }
        saved
    }

    fn summary_print(&mut self, tag: &str, binds: &[(String, K)]) -> E {
        let mut parts = vec![SPart::Lit(tag.to_string())];
        for (n, _) in binds {
            parts.push(SPart::Lit(" ".into()));
            parts.push(SPart::Expr(id(n), None));
        }
        E::Print(vec![E::Str(parts)])
    }

    fn fn_def(&mut self, is_gen: bool) -> (E, FnSig) {
        let name = self.fresh("f");
        let sig = self.gen_sig(&name, is_gen);
        let (args, binds) = self.build_params(&sig);
        let saved = self.enter_fn(&binds);
        let saved_loops = (self.loop_depth, std::mem::take(&mut self.loop_captured));
        self.loop_depth = 0;
        let mut body = vec![self.summary_print(&name, &binds)];
        if self.s.chance(40) {
            body.extend(self.body(2));
        }
        if is_gen {
            self.feat("generator-def");
            // yields inside for / while / if, optional early return
            let k = 1 + self.s.below(3) as i64;
            let iv = self.fresh("gi");
            let mut lb = vec![];
            if self.s.chance(60) {
                lb.push(E::Print(vec![E::Str(vec![SPart::Lit(format!("{name} before yield ")), SPart::Expr(id(&iv), None)])]));
            }
            self.vars.push(Var { name: iv.clone(), kind: K::Num, writable: false, arity: 0, ret: K::Null });
            let y = self.num(2);
            if self.s.chance(30) {
                let c = self.expr(K::Bool, 1);
                lb.push(E::If(vec![(c, vec![E::Yield(bx(y))])], None));
            } else {
                lb.push(E::Yield(bx(y)));
            }
            if self.s.chance(25) {
                let c = self.expr(K::Bool, 1);
                lb.push(E::If(vec![(c, vec![E::Return(None)])], None));
            }
            if self.s.chance(40) {
                lb.push(E::Print(vec![E::Str(vec![SPart::Lit(format!("{name} after yield ")), SPart::Expr(id(&iv), None)])]));
            }
            self.vars.pop();
            body.push(E::For(vec![Pat::Id(iv, None)], bx(E::Range(Some(bx(E::Int(0))), Some(bx(E::Int(k))), false)), lb));
            if self.s.chance(50) {
                body.push(E::Yield(bx(self.num(1))));
            }
            if self.s.chance(30) {
                body.push(E::Print(vec![lit_str(&format!("{name} finished"))]));
            }
        } else {
            self.feat("function-def");
            if self.s.chance(20) {
                // early return
                let c = self.expr(K::Bool, 1);
                let r = self.num(1);
                body.push(E::If(vec![(c, vec![E::Return(Some(bx(r)))])], None));
                self.feat("early-return");
            }
            if self.s.chance(25) {
                // nested closure capturing the function's own arguments
                self.feat("nested-closure");
                let inner = self.fresh("g");
                let p = self.fresh("a");
                self.vars.push(Var { name: p.clone(), kind: K::Num, writable: false, arity: 0, ret: K::Null });
                let ib = self.num(2);
                self.vars.pop();
                body.push(E::Assign(bx(id(&inner)), None, bx(E::Fn(vec![FnArg { pat: Pat::Id(p, None), default: None, variadic: false }], None, vec![ib]))));
                let arg = self.num(1);
                body.push(E::Call(bx(id(&inner)), vec![(arg, false)]));
            } else {
                body.push(self.num(3));
            }
        }
        self.vars = saved;
        self.loop_depth = saved_loops.0;
        self.loop_captured = saved_loops.1;
        (E::Assign(bx(id(&name)), None, bx(E::Fn(args, None, flatten(body)))), sig)
    }

    fn seq_of(&mut self, n: usize) -> E {
        let items: Vec<E> = (0..n).map(|_| self.num(1)).collect();
        match self.s.below(3) {
            0 => E::List(items),
            _ => E::Tuple(items),
        }
    }

    /// arguments for a call of `sig`: (args, is_well_formed)
    fn call_args(&mut self, sig: &FnSig) -> Vec<(E, bool)> {
        let mut args: Vec<(E, bool)> = vec![];
        let n_def = sig.params.iter().filter(|p| **p == Param::Default).count();
        let supply_defaults = self.s.below(n_def as u32 + 1) as usize;
        let mut defaults_seen = 0;
        for p in &sig.params {
            match p {
                Param::Plain | Param::Ignored => args.push((self.num(2), false)),
                Param::Default => {
                    if defaults_seen < supply_defaults {
                        args.push((self.num(1), false));
                    }
                    defaults_seen += 1;
                }
                Param::Variadic => {
                    if supply_defaults == n_def {
                        let extra = self.s.below(4);
                        for _ in 0..extra {
                            args.push((self.num(1), false));
                        }
                    }
                }
                Param::UnpackNested(keys, _) => {
                    // more elements than the pattern lists: the nested pattern counts from the end
                    let extra = self.s.below(3) as usize;
                    let mut items: Vec<E> = (0..extra).map(|_| self.num(1)).collect();
                    let (v1, v2) = (self.num(1), self.num(1));
                    items.push(match keys {
                        Some((k1, k2)) => E::Map(vec![(k1.clone(), v1), (k2.clone(), v2)]),
                        None => E::Tuple(vec![v1, v2]),
                    });
                    items.push(self.num(1));
                    args.push((E::Tuple(items), false));
                }
                Param::Unpack(k, rest, _) => {
                    let n = match rest {
                        None => {
                            if self.s.chance(3) {
                                self.feat("unpack-size-mismatch");
                                *k + 1
                            } else {
                                *k
                            }
                        }
                        Some(_) => *k + self.s.below(3) as usize,
                    };
                    let mut seq = self.seq_of(n);
                    if let (E::List(items), Param::Unpack(_, Some(_), true)) = (&seq, p) {
                        // the rest of a list is a list, the guide only documents tuples
                        seq = E::Tuple(items.clone());
                    }
                    args.push((seq, false));
                }
            }
        }
        // arity errors on purpose
        if self.s.chance(2) {
            self.feat("arity-too-few");
            args.pop();
        } else if self.s.chance(2) {
            self.feat("arity-too-many");
            for _ in 0..3 {
                args.push((E::Int(7), false));
            }
        }
        // packed form: splice a run of plain arguments into `(a, b)...`
        if args.len() >= 2 && self.s.chance(25) {
            self.feat("packed-args");
            let start = self.s.below(args.len() as u32 - 1) as usize;
            let len = 1 + self.s.below((args.len() - start) as u32) as usize;
            let run: Vec<E> = args[start..start + len].iter().map(|a| a.0.clone()).collect();
            let packed = match self.s.below(3) {
                0 => E::List(run),
                _ => E::Tuple(run),
            };
            args.splice(start..start + len, vec![(packed, true)]);
        } else if self.s.chance(5) {
            self.feat("packed-empty");
            args.push((E::Tuple(vec![]), true));
        }
        args
    }

    fn call_of(&mut self, sig: &FnSig) -> E {
        let args = self.call_args(sig);
        E::Call(bx(id(&sig.name)), args)
    }

    pub fn fn_scenario(&mut self, fns: &mut Vec<FnSig>) -> Vec<E> {
        let c = self.s.weighted(&[30, 8, 14, 10, 18, 8, 8, 14]);
        let mut out = vec![];
        match c {
            0 => {
                let (def, sig) = self.fn_def(false);
                out.push(def);
                let n = 1 + self.s.below(3);
                for _ in 0..n {
                    let call = self.call_of(&sig);
                    out.push(E::Print(vec![call]));
                }
                fns.push(sig);
            }
            1 => {
                self.feat("recursion");
                let name = self.fresh("rec");
                let n = self.fresh("a");
                let body = E::If(
                    vec![(E::Bin(Op::Le, bx(id(&n)), bx(E::Int(0))), vec![E::Int(0)])],
                    Some(vec![E::Bin(Op::Add, bx(id(&n)), bx(E::Call(bx(id(&name)), vec![(E::Bin(Op::Sub, bx(id(&n)), bx(E::Int(1))), false)])))]),
                );
                out.push(E::Assign(bx(id(&name)), None, bx(E::Fn(vec![FnArg { pat: Pat::Id(n, None), default: None, variadic: false }], None, vec![body]))));
                out.push(E::Print(vec![E::Call(bx(id(&name)), vec![(E::Int(self.s.below(6) as i64), false)])]));
                if self.s.chance(60) {
                    // recursion combined with optional arguments and a captured value: the function's
                    // reference to itself, its defaults and its captures share one capture list
                    self.feat("recursion-with-defaults");
                    let name = self.fresh("rec");
                    let (n, acc, step) = (self.fresh("a"), self.fresh("a"), self.fresh("a"));
                    let k = self.fresh("k");
                    let with_capture = self.s.chance(50);
                    let two_defaults = self.s.chance(50);
                    if with_capture {
                        out.push(E::Assign(bx(id(&k)), None, bx(E::Int(1 + self.s.below(3) as i64))));
                    }
                    let dec = if with_capture { id(&k) } else { E::Int(1) };
                    let mut args = vec![(E::Bin(Op::Sub, bx(id(&n)), bx(dec)), false), (E::Bin(Op::Add, bx(id(&acc)), bx(id(&n))), false)];
                    let mut params = vec![FnArg { pat: Pat::Id(n.clone(), None), default: None, variadic: false }, FnArg { pat: Pat::Id(acc.clone(), None), default: Some(E::Int(self.s.below(4) as i64 * 100)), variadic: false }];
                    let mut tail = id(&acc);
                    if two_defaults {
                        params.push(FnArg { pat: Pat::Id(step.clone(), None), default: Some(E::Int(1 + self.s.below(3) as i64)), variadic: false });
                        args.push((id(&step), false));
                        tail = E::Bin(Op::Mul, bx(id(&acc)), bx(id(&step)));
                    }
                    let body = E::If(vec![(E::Bin(Op::Le, bx(id(&n)), bx(E::Int(0))), vec![tail])], Some(vec![E::Call(bx(id(&name)), args)]));
                    out.push(E::Assign(bx(id(&name)), None, bx(E::Fn(params, None, vec![body]))));
                    out.push(E::Print(vec![E::Call(bx(id(&name)), vec![(E::Int(0), false)])]));
                    out.push(E::Print(vec![E::Call(bx(id(&name)), vec![(E::Int(1 + self.s.below(4) as i64), false)])]));
                    out.push(E::Print(vec![E::Call(bx(id(&name)), vec![(E::Int(1 + self.s.below(4) as i64), false), (E::Int(7), false)])]));
                }
            }
            2 => {
                // capture by copy: reassign after capture; shared list through capture
                self.feat("capture-scenario");
                let k = self.fresh("k");
                let l = self.fresh("cl");
                let f = self.fresh("f");
                let a = self.fresh("a");
                let e1 = self.num(1);
                out.push(E::Assign(bx(id(&k)), None, bx(e1)));
                out.push(E::Assign(bx(id(&l)), None, bx(E::List(vec![E::Int(1), E::Int(2)]))));
                let body = vec![
                    E::Assign(bx(E::Index(bx(id(&l)), bx(E::Int(self.s.below(2) as i64)))), None, bx(E::Bin(Op::Add, bx(id(&k)), bx(id(&a))))),
                    E::Bin(Op::Add, bx(id(&k)), bx(id(&a))),
                ];
                out.push(E::Assign(bx(id(&f)), None, bx(E::Fn(vec![FnArg { pat: Pat::Id(a, None), default: None, variadic: false }], None, body))));
                let e2 = self.num(1);
                out.push(E::Assign(bx(id(&k)), None, bx(e2)));
                if self.s.chance(50) {
                    out.push(E::Assign(bx(id(&l)), None, bx(E::List(vec![E::Int(7)]))));
                }
                let arg = self.num(1);
                out.push(E::Print(vec![E::Call(bx(id(&f)), vec![(arg, false)])]));
                out.push(E::Print(vec![E::Str(vec![SPart::Expr(id(&k), None), SPart::Lit(" ".into()), SPart::Expr(id(&l), None)])]));
            }
            3 => {
                // object with methods using self
                self.feat("methods");
                let o = self.fresh("o");
                let a = self.fresh("a");
                let v0 = self.num(1);
                let get_body = self.s.chance(50);
                let m = E::Map(vec![
                    ("v".into(), v0),
                    ("get".into(), E::Fn(vec![FnArg { pat: Pat::Id(a.clone(), None), default: None, variadic: false }], None, vec![if get_body { E::Bin(Op::Add, bx(E::Dot(bx(id("self")), "v".into())), bx(id(&a))) } else { E::Bin(Op::Mul, bx(id(&a)), bx(E::Dot(bx(id("self")), "v".into()))) }])),
                    ("bump".into(), E::Fn(vec![FnArg { pat: Pat::Id(a.clone(), None), default: None, variadic: false }], None, vec![E::Assign(bx(E::Dot(bx(id("self")), "v".into())), Some(Op::Add), bx(id(&a))), E::Dot(bx(id("self")), "v".into())])),
                ]);
                out.push(E::Assign(bx(id(&o)), None, bx(m)));
                let n = 1 + self.s.below(3);
                for _ in 0..n {
                    let arg = self.num(1);
                    let meth = if self.s.chance(50) { "get" } else { "bump" };
                    out.push(E::Print(vec![E::Call(bx(E::Dot(bx(id(&o)), meth.into())), vec![(arg, false)])]));
                }
                out.push(E::Print(vec![E::Dot(bx(id(&o)), "v".into())]));
            }
            4 if self.s.chance(30) => {
                // a generator that ends early with `return <value>`: the value ends the generator and is
                // not one of its outputs
                self.feat("generator-return-value");
                let g = self.fresh("g");
                let (xs, lim, x) = (self.fresh("a"), self.fresh("a"), self.fresh("x"));
                let body = vec![E::For(
                    vec![Pat::Id(x.clone(), None)],
                    bx(id(&xs)),
                    vec![E::If(vec![(E::Bin(Op::Ge, bx(id(&x)), bx(id(&lim))), vec![E::Return(Some(bx(id(&x))))])], None), E::Yield(bx(id(&x)))],
                )];
                out.push(E::Assign(
                    bx(id(&g)),
                    None,
                    bx(E::Fn(vec![FnArg { pat: Pat::Id(xs.clone(), None), default: None, variadic: false }, FnArg { pat: Pat::Id(lim.clone(), None), default: None, variadic: false }], None, body)),
                ));
                let items: Vec<E> = (0..2 + self.s.below(4)).map(|_| E::Int(self.s.below(9) as i64)).collect();
                let limit = E::Int(self.s.below(9) as i64);
                let call = E::Call(bx(id(&g)), vec![(E::Tuple(items), false), (limit, false)]);
                out.push(E::Print(vec![E::Call(bx(E::Dot(bx(call.clone()), "to_tuple".into())), vec![])]));
                let v = self.fresh("x");
                out.push(E::For(vec![Pat::Id(v.clone(), None)], bx(call), vec![E::Print(vec![E::Str(vec![SPart::Lit("got ".into()), SPart::Expr(id(&v), None)])])]));
            }
            4 => {
                // generator definition and consumption
                let (def, sig) = self.fn_def(true);
                out.push(def);
                let call = self.call_of(&sig);
                match self.s.below(5) {
                    0 => {
                        self.feat("generator-for");
                        let x = self.fresh("x");
                        out.push(E::For(vec![Pat::Id(x.clone(), None)], bx(call), vec![E::Print(vec![E::Str(vec![SPart::Lit("got ".into()), SPart::Expr(id(&x), None)])])]));
                    }
                    1 => {
                        self.feat("generator-unpack");
                        let names: Vec<String> = (0..2 + self.s.below(2)).map(|_| self.fresh("m")).collect();
                        out.push(E::MultiAssign(names.iter().map(|n| id(n)).collect(), bx(call)));
                        let mut parts = vec![];
                        for n in &names {
                            parts.push(SPart::Expr(id(n), None));
                            parts.push(SPart::Lit(" ".into()));
                        }
                        out.push(E::Print(vec![E::Str(parts)]));
                    }
                    2 => {
                        self.feat("generator-to-tuple");
                        let m = if self.s.chance(50) { "to_tuple" } else { "to_list" };
                        out.push(E::Print(vec![E::Call(bx(E::Dot(bx(call), m.into())), vec![])]));
                    }
                    3 => {
                        // pause and resume: break out of a for loop, continue with a second loop
                        self.feat("generator-pause-resume");
                        let it = self.fresh("it");
                        let x = self.fresh("x");
                        let y = self.fresh("y");
                        out.push(E::Assign(bx(id(&it)), None, bx(call)));
                        out.push(E::For(vec![Pat::Id(x.clone(), None)], bx(id(&it)), vec![E::Print(vec![E::Str(vec![SPart::Lit("first ".into()), SPart::Expr(id(&x), None)])]), E::Break(None)]));
                        out.push(E::Print(vec![lit_str("between")]));
                        out.push(E::For(vec![Pat::Id(y.clone(), None)], bx(id(&it)), vec![E::Print(vec![E::Str(vec![SPart::Lit("second ".into()), SPart::Expr(id(&y), None)])])]));
                    }
                    _ => {
                        // generator output forwarded as packed arguments to a variadic function
                        self.feat("generator-packed");
                        let f = self.fresh("f");
                        let vs = self.fresh("vs");
                        out.push(E::Assign(bx(id(&f)), None, bx(E::Fn(vec![FnArg { pat: Pat::Id(vs.clone(), None), default: None, variadic: true }], None, vec![id(&vs)]))));
                        out.push(E::Print(vec![E::Call(bx(id(&f)), vec![(E::Int(0), false), (call, true)])]));
                    }
                }
                fns.push(sig);
            }
            5 => {
                // piped call: a -> f b  ==  f(a, b)
                self.feat("piped-call");
                let f = self.fresh("f");
                let (a, b) = (self.fresh("a"), self.fresh("a"));
                out.push(E::Assign(
                    bx(id(&f)),
                    None,
                    bx(E::Fn(
                        vec![FnArg { pat: Pat::Id(a.clone(), None), default: None, variadic: false }, FnArg { pat: Pat::Id(b.clone(), None), default: Some(E::Int(1)), variadic: false }],
                        None,
                        vec![E::Bin(Op::Sub, bx(E::Bin(Op::Mul, bx(id(&a)), bx(E::Int(10)))), bx(id(&b)))],
                    )),
                ));
                let r = self.fresh("p");
                let x = self.num(1);
                let x = if matches!(x, E::Bin(..)) { E::Paren(bx(x)) } else { x };
                let piped = if self.s.chance(50) {
                    let y = self.num(1);
                    let y = if Self::starts_with_neg(&y) { E::Int(3) } else { y };
                    E::Pipe(bx(x), bx(E::Call(bx(id(&f)), vec![(y, false)])))
                } else {
                    E::Pipe(bx(x), bx(id(&f)))
                };
                let piped = if self.s.chance(30) { E::Pipe(bx(piped), bx(id(&f))) } else { piped };
                out.push(E::Assign(bx(id(&r)), None, bx(piped)));
                out.push(E::Print(vec![id(&r)]));
                if self.s.chance(60) {
                    // piping into a function reached through `.`: the container must arrive as `self`
                    self.feat("piped-method-call");
                    let o = self.fresh("o");
                    let (a, b) = (self.fresh("a"), self.fresh("a"));
                    let total = self.num(1);
                    let m = E::Map(vec![
                        ("total".into(), total),
                        (
                            "add".into(),
                            E::Fn(
                                vec![FnArg { pat: Pat::Id(a.clone(), None), default: None, variadic: false }, FnArg { pat: Pat::Id(b.clone(), None), default: Some(E::Int(0)), variadic: false }],
                                None,
                                vec![E::Bin(Op::Add, bx(E::Bin(Op::Add, bx(E::Dot(bx(id("self")), "total".into())), bx(id(&a)))), bx(id(&b)))],
                            ),
                        ),
                    ]);
                    out.push(E::Assign(bx(id(&o)), None, bx(m)));
                    let x = E::Int(self.s.below(9) as i64);
                    let target = E::Dot(bx(id(&o)), "add".into());
                    let piped = if self.s.chance(50) { E::Pipe(bx(x), bx(E::Call(bx(target), vec![(E::Int(1 + self.s.below(5) as i64), false)]))) } else { E::Pipe(bx(x), bx(target)) };
                    let r2 = self.fresh("p");
                    out.push(E::Assign(bx(id(&r2)), None, bx(piped)));
                    out.push(E::Print(vec![id(&r2)]));
                }
            }
            6 if self.s.chance(45) => {
                // several packed arguments in one call, each expanding to 0..3 values, mixed with plain ones
                self.feat("multi-packed-args");
                let vf = self.fresh("f");
                let a = self.fresh("a");
                out.push(E::Assign(bx(id(&vf)), None, bx(E::Fn(vec![FnArg { pat: Pat::Id(a.clone(), None), default: None, variadic: true }], None, vec![id(&a)]))));
                let n_packed = 2 + self.s.below(3) as usize;
                let mut args = vec![];
                let mut total = 0i64;
                for k in 0..n_packed {
                    let len = self.s.below(4) as usize;
                    let items: Vec<E> = (0..len).map(|j| E::Int((k * 10 + j) as i64)).collect();
                    total += len as i64;
                    let seq = match self.s.below(3) {
                        0 => E::List(items),
                        1 => E::Tuple(items),
                        _ => {
                            let name = self.fresh("pk");
                            out.push(E::Assign(bx(id(&name)), None, bx(E::Tuple(items))));
                            id(&name)
                        }
                    };
                    args.push((seq, true));
                    if self.s.chance(30) {
                        args.push((E::Int(100 + k as i64), false));
                        total += 1;
                    }
                }
                out.push(E::Print(vec![E::Call(bx(id(&vf)), args.clone())]));
                // the same arguments bound to fixed parameters (arity must come out right)
                if total >= 1 && total <= 6 {
                    let ff = self.fresh("f");
                    let ps: Vec<String> = (0..total).map(|_| self.fresh("a")).collect();
                    let sum = ps.iter().skip(1).fold(id(&ps[0]), |acc, p| E::Bin(Op::Add, bx(E::Bin(Op::Mul, bx(acc), bx(E::Int(2)))), bx(id(p))));
                    out.push(E::Assign(bx(id(&ff)), None, bx(E::Fn(ps.iter().map(|p| FnArg { pat: Pat::Id(p.clone(), None), default: None, variadic: false }).collect(), None, vec![sum]))));
                    out.push(E::Print(vec![E::Call(bx(id(&ff)), args)]));
                }
            }
            6 => {
                // closure factory
                self.feat("closure-factory");
                let mk = self.fresh("mk");
                let (a, b) = (self.fresh("a"), self.fresh("a"));
                let add = self.fresh("f");
                let inner = E::Fn(vec![FnArg { pat: Pat::Id(b.clone(), None), default: None, variadic: false }], None, vec![E::Bin(Op::Sub, bx(id(&a)), bx(id(&b)))]);
                out.push(E::Assign(bx(id(&mk)), None, bx(E::Fn(vec![FnArg { pat: Pat::Id(a.clone(), None), default: None, variadic: false }], None, vec![inner]))));
                let x = self.num(1);
                out.push(E::Assign(bx(id(&add)), None, bx(E::Call(bx(id(&mk)), vec![(x, false)]))));
                let y = self.num(1);
                out.push(E::Print(vec![E::Call(bx(id(&add)), vec![(y, false)])]));
                let z = self.num(1);
                out.push(E::Print(vec![E::Call(bx(E::Call(bx(id(&mk)), vec![(z, false)])), vec![(E::Int(1), false)])]));
            }
            _ => {
                // call an earlier function again, or a core statement
                if !fns.is_empty() && self.s.chance(60) {
                    let sig = fns[self.s.below(fns.len() as u32) as usize].clone();
                    if sig.is_gen {
                        let call = self.call_of(&sig);
                        out.push(E::Print(vec![E::Call(bx(E::Dot(bx(call), "to_tuple".into())), vec![])]));
                    } else {
                        let call = self.call_of(&sig);
                        out.push(E::Print(vec![call]));
                    }
                } else {
                    out.push(self.stmt());
                }
            }
        }
        out
    }

    pub fn fn_program(&mut self) -> Vec<E> {
        let mut prog = vec![];
        for (name, k) in [("n1", K::Num), ("n2", K::Num), ("s1", K::Str), ("b1", K::Bool), ("l1", K::List), ("t1", K::Tuple)] {
            let e = match k {
                K::List => E::List(vec![E::Int(1), E::Int(2), E::Int(3)]),
                K::Tuple => E::Tuple(vec![E::Int(4), E::Int(5)]),
                _ => self.leaf(k),
            };
            prog.push(E::Assign(bx(id(name)), None, bx(e)));
            self.declare(name, k);
        }
        let mut fns = vec![];
        let n = 2 + self.s.below(6);
        for _ in 0..n {
            let sc = self.fn_scenario(&mut fns);
            prog.extend(sc);
        }
        prog.push(self.num(2));
        flatten(prog)
    }
}

//! M — reference interpreter for the modelled Koto subset, written from the language guide.
//! Shares no code with Koto. Where the guide is silent M raises `Unjudged` and the case is dropped.
use crate::lang::*;
use std::collections::HashMap;
use std::sync::{Arc, Mutex};

#[derive(Clone, Debug)]
pub enum V {
    Null,
    Bool(bool),
    Int(i64),
    Float(f64),
    Str(Arc<str>),
    List(Arc<Mutex<Vec<V>>>),
    Tuple(Arc<Vec<V>>),
    Map(Arc<Mutex<MapData>>),
    Range(Option<i64>, Option<i64>, bool),
    Fn(Arc<Closure>),
    Builtin(&'static str),
    Gen(Arc<Mutex<GenState>>),
    /// lazy adaptor over an iterable: (kind, source, function)
    Adapt(Arc<(String, V, V)>),
}

#[derive(Debug, Default, Clone)]
pub struct MapData {
    pub entries: Vec<(V, V)>,
    pub type_name: Option<String>,
    /// metakey entries other than @type ("@+", "@display", ...)
    pub meta: Vec<(String, V)>,
}

impl MapData {
    pub fn meta_get(&self, key: &str) -> Option<V> {
        self.meta.iter().find(|(k, _)| k == key).map(|(_, v)| v.clone())
    }
}

#[derive(Debug)]
pub struct Closure {
    pub args: Vec<FnArg>,
    pub ret: Option<String>,
    pub body: Vec<E>,
    pub captures: Mutex<HashMap<String, V>>,
    /// default values, evaluated once at creation
    pub defaults: Vec<Option<V>>,
    pub is_generator: bool,
}

/// A generator instance: the body is run to completion lazily by re-executing on a helper thread
pub struct GenState {
    pub chan: Option<crate::modelgen::GenHandle>,
    pub done: bool,
}
impl std::fmt::Debug for GenState {
    fn fmt(&self, f: &mut std::fmt::Formatter<'_>) -> std::fmt::Result {
        write!(f, "GenState(done={})", self.done)
    }
}

#[derive(Clone, Debug)]
pub enum Ctl {
    Break(Option<V>),
    Continue,
    Return(V),
    /// runtime error or thrown value: (thrown value if any, message)
    Err(Option<V>, String),
    /// semantics the guide does not define: drop the case
    Unjudged(String),
    /// the generator consumer went away
    Abort,
}

pub type R = Result<V, Ctl>;

fn err<T>(msg: impl Into<String>) -> Result<T, Ctl> {
    Err(Ctl::Err(None, msg.into()))
}
fn unjudged<T>(msg: impl Into<String>) -> Result<T, Ctl> {
    Err(Ctl::Unjudged(msg.into()))
}

pub fn vstr(s: &str) -> V {
    V::Str(Arc::from(s))
}
pub fn vlist(v: Vec<V>) -> V {
    V::List(Arc::new(Mutex::new(v)))
}
pub fn vtuple(v: Vec<V>) -> V {
    V::Tuple(Arc::new(v))
}
pub fn vmap(entries: Vec<(V, V)>) -> V {
    V::Map(Arc::new(Mutex::new(MapData { entries, type_name: None, meta: vec![] })))
}

impl V {
    pub fn truthy(&self) -> bool {
        !matches!(self, V::Null | V::Bool(false))
    }
    pub fn type_name(&self) -> String {
        match self {
            V::Null => "Null".into(),
            V::Bool(_) => "Bool".into(),
            V::Int(_) | V::Float(_) => "Number".into(),
            V::Str(_) => "String".into(),
            V::List(_) => "List".into(),
            V::Tuple(_) => "Tuple".into(),
            V::Map(m) => m.lock().unwrap().type_name.clone().unwrap_or_else(|| "Map".into()),
            V::Range(..) => "Range".into(),
            V::Fn(c) => if c.is_generator { "Generator".into() } else { "Function".into() },
            V::Builtin(_) => "Function".into(),
            V::Gen(_) | V::Adapt(_) => "Iterator".into(),
        }
    }
}

pub fn fmt_num_f(x: f64) -> String {
    if x.fract() == 0.0 { format!("{x:.1}") } else { format!("{x}") }
}

pub fn display(v: &V, contained: bool) -> String {
    match v {
        V::Null => "null".into(),
        V::Bool(b) => b.to_string(),
        V::Int(n) => n.to_string(),
        V::Float(x) => fmt_num_f(*x),
        V::Str(s) => {
            if contained {
                format!("'{s}'")
            } else {
                s.to_string()
            }
        }
        V::List(l) => {
            let l = l.lock().unwrap().clone();
            format!("[{}]", l.iter().map(|x| display(x, true)).collect::<Vec<_>>().join(", "))
        }
        V::Tuple(t) => format!("({})", t.iter().map(|x| display(x, true)).collect::<Vec<_>>().join(", ")),
        V::Map(m) => {
            let m = m.lock().unwrap().clone();
            if m.entries.is_empty() {
                "{}".into()
            } else {
                format!("{{{}}}", m.entries.iter().map(|(k, x)| format!("{}: {}", display(k, false), display(x, true))).collect::<Vec<_>>().join(", "))
            }
        }
        V::Range(a, b, inc) => {
            format!("{}{}{}", a.map(|x| x.to_string()).unwrap_or_default(), if *inc { "..=" } else { ".." }, b.map(|x| x.to_string()).unwrap_or_default())
        }
        V::Fn(_) | V::Builtin(_) => "||".into(),
        V::Gen(_) | V::Adapt(_) => "Iterator".into(),
    }
}

const TWO53: i64 = 1 << 53;

fn num_pair(a: &V, b: &V) -> Option<(f64, f64)> {
    let f = |v: &V| match v {
        V::Int(n) => Some(*n as f64),
        V::Float(x) => Some(*x),
        _ => None,
    };
    Some((f(a)?, f(b)?))
}

fn mixed_precise(a: &V, b: &V) -> bool {
    // mixed int/float comparisons are only defined by the guide as numeric comparison; beyond 2^53
    // the integer is not representable and conventions differ
    match (a, b) {
        (V::Int(n), V::Float(_)) | (V::Float(_), V::Int(n)) => n.unsigned_abs() <= TWO53 as u64,
        _ => true,
    }
}

pub fn values_equal(a: &V, b: &V) -> Result<bool, Ctl> {
    Ok(match (a, b) {
        (V::Null, V::Null) => true,
        (V::Bool(x), V::Bool(y)) => x == y,
        (V::Int(x), V::Int(y)) => x == y,
        (V::Int(_) | V::Float(_), V::Int(_) | V::Float(_)) => {
            if !mixed_precise(a, b) {
                return unjudged("int/float equality beyond 2^53");
            }
            let (x, y) = num_pair(a, b).unwrap();
            x == y
        }
        (V::Str(x), V::Str(y)) => x == y,
        (V::List(x), V::List(y)) => {
            if Arc::ptr_eq(x, y) {
                // same instance: element-wise comparison of a list with itself
                let l = x.lock().unwrap().clone();
                for e in &l {
                    if !values_equal(e, e)? {
                        return Ok(false);
                    }
                }
                return Ok(true);
            }
            let (x, y) = (x.lock().unwrap().clone(), y.lock().unwrap().clone());
            if x.len() != y.len() {
                return Ok(false);
            }
            for (p, q) in x.iter().zip(y.iter()) {
                if !values_equal(p, q)? {
                    return Ok(false);
                }
            }
            true
        }
        (V::Tuple(x), V::Tuple(y)) => {
            if x.len() != y.len() {
                return Ok(false);
            }
            for (p, q) in x.iter().zip(y.iter()) {
                if !values_equal(p, q)? {
                    return Ok(false);
                }
            }
            true
        }
        (V::Map(x), V::Map(y)) => {
            if !x.lock().unwrap().meta.is_empty() || !y.lock().unwrap().meta.is_empty() {
                return unjudged("equality on maps with metakeys");
            }
            let (x, y) = if Arc::ptr_eq(x, y) { let d = x.lock().unwrap().clone(); (d.clone(), d) } else { (x.lock().unwrap().clone(), y.lock().unwrap().clone()) };
            if x.entries.len() != y.entries.len() {
                return Ok(false);
            }
            for (k, v) in &x.entries {
                let mut found = None;
                for (k2, v2) in &y.entries {
                    if key_equal(k, k2) {
                        found = Some(v2.clone());
                        break;
                    }
                }
                match found {
                    Some(v2) => {
                        if !values_equal(v, &v2)? {
                            return Ok(false);
                        }
                    }
                    None => return Ok(false),
                }
            }
            true
        }
        (V::Range(a1, b1, i1), V::Range(a2, b2, i2)) => {
            // compare as (start, exclusive end)
            let norm = |a: &Option<i64>, b: &Option<i64>, inc: bool| (a.clone(), b.map(|e| if inc { e.wrapping_add(1) } else { e }));
            if i1 != i2 {
                return unjudged("equality of an inclusive and an exclusive range");
            }
            norm(a1, b1, *i1) == norm(a2, b2, *i2)
        }
        (V::Fn(_) | V::Builtin(_) | V::Gen(_) | V::Adapt(_), _) | (_, V::Fn(_) | V::Builtin(_) | V::Gen(_) | V::Adapt(_)) => return unjudged("equality on functions/iterators"),
        _ => false,
    })
}

/// key identity for string/number keys used by the modelled subset
pub fn key_equal(a: &V, b: &V) -> bool {
    match (a, b) {
        (V::Str(x), V::Str(y)) => x == y,
        (V::Int(x), V::Int(y)) => x == y,
        (V::Bool(x), V::Bool(y)) => x == y,
        (V::Null, V::Null) => true,
        (V::Float(x), V::Float(y)) => x == y,
        (V::Tuple(x), V::Tuple(y)) => x.len() == y.len() && x.iter().zip(y.iter()).all(|(p, q)| key_equal(p, q)),
        _ => false,
    }
}

pub fn arith(op: Op, a: &V, b: &V) -> R {
    use V::*;
    Ok(match (op, a, b) {
        (Op::Add, Int(x), Int(y)) => Int(x.wrapping_add(*y)),
        (Op::Sub, Int(x), Int(y)) => Int(x.wrapping_sub(*y)),
        (Op::Mul, Int(x), Int(y)) => Int(x.wrapping_mul(*y)),
        (Op::Div, Int(x), Int(y)) => Float(*x as f64 / *y as f64),
        (Op::Rem, Int(_) | Float(_), Int(0)) => Float(f64::NAN),
        (Op::Rem, Int(x), Int(y)) => Int(x.wrapping_rem(*y)),
        (Op::Pow, Int(x), Int(y)) => {
            if *y < 0 {
                Float((*x as f64).powf(*y as f64))
            } else if *y > u32::MAX as i64 {
                return unjudged("integer exponent beyond u32");
            } else {
                Int(x.wrapping_pow(*y as u32))
            }
        }
        (_, Int(_) | Float(_), Int(_) | Float(_)) => {
            let (x, y) = num_pair(a, b).unwrap();
            Float(match op {
                Op::Add => x + y,
                Op::Sub => x - y,
                Op::Mul => x * y,
                Op::Div => x / y,
                Op::Rem => x % y,
                Op::Pow => x.powf(y),
                _ => unreachable!(),
            })
        }
        (Op::Add, Str(x), Str(y)) => {
            if x.len() + y.len() > 20_000 {
                return unjudged("string grows beyond the model's size bound");
            }
            vstr(&format!("{x}{y}"))
        }
        (Op::Add, List(x), List(y)) => {
            let mut v = x.lock().unwrap().clone();
            let y = y.lock().unwrap().clone();
            if v.len() + y.len() > 2_000 {
                return unjudged("list grows beyond the model's size bound");
            }
            v.extend(y);
            vlist(v)
        }
        (Op::Add, Tuple(x), Tuple(y)) => {
            if x.len() + y.len() > 2_000 {
                return unjudged("tuple grows beyond the model's size bound");
            }
            let mut v = (**x).clone();
            v.extend(y.iter().cloned());
            vtuple(v)
        }
        (Op::Add, Map(x), Map(y)) => {
            let mut d = x.lock().unwrap().clone();
            let y = y.lock().unwrap().clone();
            if d.type_name.is_some() || y.type_name.is_some() || !d.meta.is_empty() || !y.meta.is_empty() {
                return unjudged("adding maps with metamaps");
            }
            for (k, v) in y.entries {
                match d.entries.iter_mut().find(|(k2, _)| key_equal(&k, k2)) {
                    Some(e) => e.1 = v,
                    None => d.entries.push((k, v)),
                }
            }
            V::Map(Arc::new(Mutex::new(d)))
        }
        _ => return err(format!("unable to perform operation '{}' with '{}' and '{}'", op.text(), a.type_name(), b.type_name())),
    })
}

pub fn compare(op: Op, a: &V, b: &V) -> Result<bool, Ctl> {
    match op {
        Op::Eq => values_equal(a, b),
        Op::Ne => Ok(!values_equal(a, b)?),
        _ => {
            let ord = match (a, b) {
                (V::Int(x), V::Int(y)) => x.partial_cmp(y),
                (V::Int(_) | V::Float(_), V::Int(_) | V::Float(_)) => {
                    if !mixed_precise(a, b) {
                        return unjudged("int/float ordering beyond 2^53");
                    }
                    let (x, y) = num_pair(a, b).unwrap();
                    if x.is_nan() || y.is_nan() {
                        return unjudged("ordering with NaN");
                    }
                    x.partial_cmp(&y)
                }
                (V::Str(x), V::Str(y)) => x.as_bytes().partial_cmp(y.as_bytes()),
                _ => return err(format!("unable to perform operation '{}' with '{}' and '{}'", op.text(), a.type_name(), b.type_name())),
            };
            let ord = ord.unwrap();
            Ok(match op {
                Op::Lt => ord.is_lt(),
                Op::Le => ord.is_le(),
                Op::Gt => ord.is_gt(),
                Op::Ge => ord.is_ge(),
                _ => unreachable!(),
            })
        }
    }
}

#[derive(Default)]
pub struct Frame {
    pub vars: HashMap<String, V>,
    pub self_val: Option<V>,
    pub in_generator: bool,
}

pub struct Interp {
    /// stdout, shared with generator coroutines
    pub out: Arc<Mutex<String>>,
    pub frames: Vec<Frame>,
    pub exports: Arc<Mutex<Vec<(String, V)>>>,
    pub fuel: Arc<std::sync::atomic::AtomicU64>,
    pub type_checks: bool,
    pub yield_sink: Option<crate::modelgen::YieldSink>,
    pub depth: usize,
    /// is the value of the expression being evaluated consumed?
    pub used: bool,
}

pub struct ModelOut {
    pub stdout: String,
    /// Ok(rendered) / Err(message) ; None = unjudged
    pub result: Option<Result<String, String>>,
    pub unjudged: Option<String>,
    /// thrown message if uncaught error came from `throw` with a string / displayable
    pub thrown: Option<String>,
}

pub fn run_program(prog: &[E], type_checks: bool) -> ModelOut {
    let mut it = Interp {
        out: Arc::new(Mutex::new(String::new())),
        frames: vec![Frame::default()],
        exports: Arc::new(Mutex::new(vec![])),
        fuel: Arc::new(std::sync::atomic::AtomicU64::new(2_000_000)),
        type_checks,
        yield_sink: None,
        depth: 0,
        used: true,
    };
    let r = it.block(prog);
    let (result, unj, thrown) = match r {
        Ok(v) => (Some(Ok(display(&v, false))), None, None),
        Err(Ctl::Err(t, m)) => {
            let thrown = t.as_ref().map(|_| m.clone());
            (Some(Err(m)), None, thrown)
        }
        Err(Ctl::Unjudged(m)) => (None, Some(m), None),
        Err(Ctl::Return(v)) => (Some(Ok(display(&v, false))), None, None),
        Err(Ctl::Break(_)) | Err(Ctl::Continue) => (None, Some("break/continue outside of a loop".into()), None),
        Err(Ctl::Abort) => (None, Some("abort".into()), None),
    };
    let stdout = it.out.lock().unwrap().clone();
    ModelOut { stdout, result, unjudged: unj, thrown }
}

impl Interp {
    fn frame(&mut self) -> &mut Frame {
        self.frames.last_mut().unwrap()
    }

    fn tick(&mut self) -> Result<(), Ctl> {
        use std::sync::atomic::Ordering;
        if self.fuel.load(Ordering::Relaxed) == 0 {
            return unjudged("model fuel exhausted");
        }
        self.fuel.fetch_sub(1, Ordering::Relaxed);
        Ok(())
    }

    pub fn block(&mut self, b: &[E]) -> R {
        self.block_u(b, true)
    }

    /// `used`: whether the block's value is consumed. Pure operators whose result is unused are
    /// compiled "for side effects only" (the operation itself is skipped), which the guide does not
    /// describe: an error raised by such a statement is reported as unjudged.
    pub fn block_u(&mut self, b: &[E], used: bool) -> R {
        let mut last = V::Null;
        let n = b.len();
        for (i, e) in b.iter().enumerate() {
            let u = used && i + 1 == n;
            let prev = std::mem::replace(&mut self.used, u);
            let r = self.eval(e);
            self.used = prev;
            match r {
                Err(Ctl::Err(..)) if !u && is_pure_top(e) => return unjudged("error in an expression whose result is unused"),
                Err(e) => return Err(e),
                Ok(v) => last = v,
            }
        }
        Ok(last)
    }

    fn lookup(&mut self, name: &str) -> R {
        if let Some(v) = self.frame().vars.get(name) {
            return Ok(v.clone());
        }
        if let Some((_, v)) = self.exports.lock().unwrap().iter().rev().find(|(n, _)| n == name) {
            return Ok(v.clone());
        }
        match name {
            "print" => Ok(V::Builtin("print")),
            "size" => Ok(V::Builtin("size")),
            "type" => Ok(V::Builtin("type")),
            "copy" => Ok(V::Builtin("copy")),
            "assert" => Ok(V::Builtin("assert")),
            _ => err(format!("'{name}' not found")),
        }
    }

    fn eval_str(&mut self, parts: &[SPart]) -> R {
        let mut s = String::new();
        for p in parts {
            match p {
                SPart::Lit(l) => s.push_str(l),
                SPart::Expr(e, spec) => {
                    let v = self.eval(e)?;
                    if spec.is_some() {
                        return unjudged("format spec in the core model");
                    }
                    let shown = self.show(&v, false)?;
                    s.push_str(&shown);
                }
            }
        }
        Ok(vstr(&s))
    }

    /// display with @display support
    pub fn show(&mut self, v: &V, contained: bool) -> Result<String, Ctl> {
        Ok(match v {
            V::Map(m) => {
                let (disp, entries) = {
                    let d = m.lock().unwrap();
                    (d.meta_get("@display"), d.entries.clone())
                };
                if let Some(f) = disp {
                    match self.call(&f, vec![], Some(v.clone()))? {
                        V::Str(s) => s.to_string(),
                        other => return err(format!("expected String from @display, found {}", other.type_name())),
                    }
                } else if entries.is_empty() {
                    "{}".into()
                } else {
                    let mut parts = vec![];
                    for (k, x) in &entries {
                        parts.push(format!("{}: {}", display(k, false), self.show(x, true)?));
                    }
                    format!("{{{}}}", parts.join(", "))
                }
            }
            V::List(l) => {
                let l = l.lock().unwrap().clone();
                let mut parts = vec![];
                for x in &l {
                    parts.push(self.show(x, true)?);
                }
                format!("[{}]", parts.join(", "))
            }
            V::Tuple(t) => {
                let mut parts = vec![];
                for x in t.iter() {
                    parts.push(self.show(x, true)?);
                }
                format!("({})", parts.join(", "))
            }
            other => display(other, contained),
        })
    }

    pub fn as_index(v: &V) -> Result<i64, Ctl> {
        match v {
            V::Int(n) => Ok(*n),
            V::Float(_) => unjudged("float index"),
            other => err(format!("expected a Number index, found {}", other.type_name())),
        }
    }

    fn index(&mut self, c: &V, i: &V) -> R {
        // range index -> slice
        if let V::Range(a, b, inc) = i {
            let len = match c {
                V::List(l) => l.lock().unwrap().len(),
                V::Tuple(t) => t.len(),
                V::Str(s) => s.len(),
                _ => return err(format!("unable to slice a {}", c.type_name())),
            } as i64;
            if a.map(|x| x < 0).unwrap_or(false) || b.map(|x| x < 0).unwrap_or(false) {
                return unjudged("negative slice bound");
            }
            let start = a.unwrap_or(0).min(len);
            let end = match b {
                Some(e) => {
                    if *inc { e.saturating_add(1) } else { *e }
                }
                None => len,
            }
            .min(len)
            .max(start);
            let (s, e) = (start as usize, end as usize);
            return Ok(match c {
                V::List(l) => vlist(l.lock().unwrap()[s..e].to_vec()),
                V::Tuple(t) => vtuple(t[s..e].to_vec()),
                V::Str(st) => {
                    if !st.is_ascii() {
                        return unjudged("slicing a non-ASCII string in the core model");
                    }
                    vstr(&st[s..e])
                }
                _ => unreachable!(),
            });
        }
        let idx = Self::as_index(i)?;
        let oob = |n: usize| -> R { err(format!("index out of bounds - index: {idx}, size: {n}")) };
        match c {
            V::List(l) => {
                let l = l.lock().unwrap();
                if idx < 0 || idx as usize >= l.len() { oob(l.len()) } else { Ok(l[idx as usize].clone()) }
            }
            V::Tuple(t) => {
                if idx < 0 || idx as usize >= t.len() { oob(t.len()) } else { Ok(t[idx as usize].clone()) }
            }
            V::Str(s) => {
                if !s.is_ascii() {
                    return unjudged("indexing a non-ASCII string in the core model");
                }
                if idx < 0 || idx as usize >= s.len() { oob(s.len()) } else { Ok(vstr(&s[idx as usize..idx as usize + 1])) }
            }
            V::Range(Some(a), Some(b), inc) => {
                let n = range_len(*a, *b, *inc);
                if idx < 0 || idx >= n { oob(n as usize) } else { Ok(V::Int(a + idx)) }
            }
            V::Map(_) => unjudged("indexing a map by position in the core model"),
            other => err(format!("unable to index a {}", other.type_name())),
        }
    }

    fn access(&mut self, c: &V, key: &str) -> R {
        match c {
            V::Map(m) => {
                let d = m.lock().unwrap();
                match d.entries.iter().find(|(k, _)| matches!(k, V::Str(s) if &**s == key)) {
                    Some((_, v)) => Ok(v.clone()),
                    None => {
                        drop(d);
                        const MAP_FNS: [&str; 22] = ["clear", "contains_key", "extend", "get", "get_index", "get_meta", "insert", "is_empty", "keys", "remove", "sort", "update", "values", "with_meta", "size", "iter", "each", "keep", "fold", "to_tuple", "to_list", "count"];
                        if MAP_FNS.contains(&key) || key.len() > 3 {
                            unjudged(format!("'{key}' not found in map (core-library fallback not modelled)"))
                        } else {
                            err(format!("'{key}' not found in map"))
                        }
                    }
                }
            }
            V::Null | V::Bool(_) => err(format!("expected a value that supports '.' access, found {}", c.type_name())),
            _ => unjudged("access on a non-map (core-library lookup not modelled)"),
        }
    }

    fn assign_to(&mut self, target: &E, v: V) -> Result<(), Ctl> {
        match target {
            E::Id(n) => {
                if n != "_" && !n.starts_with('_') {
                    self.frame().vars.insert(n.clone(), v);
                }
                Ok(())
            }
            E::Index(c, i) => {
                let cv = self.eval(c)?;
                let iv = self.eval(i)?;
                let cv2 = cv.clone();
                if let (V::List(l), V::Range(a, b, inc)) = (&cv, &iv) {
                    // slice assignment fills the (clamped) range with the value
                    let mut g = l.lock().unwrap();
                    let len = g.len() as i64;
                    if a.map(|x| x < 0).unwrap_or(false) || b.map(|x| x < 0).unwrap_or(false) {
                        return unjudged("negative slice bound");
                    }
                    let start = a.unwrap_or(0);
                    let end = match b {
                        Some(e) => if *inc { e.saturating_add(1) } else { *e },
                        None => len,
                    };
                    if start > len || end > len || end < start {
                        return unjudged("slice assignment beyond the list or with reversed bounds");
                    }
                    for i in start..end {
                        g[i as usize] = v.clone();
                    }
                    drop(g);
                    if nesting_depth(&cv2, 0) > 40 {
                        return unjudged("deeply nested or cyclic container");
                    }
                    return Ok(());
                }
                match cv {
                    V::List(l) => {
                        let idx = Self::as_index(&iv)?;
                        let mut l = l.lock().unwrap();
                        if idx < 0 || idx as usize >= l.len() {
                            return err(format!("index out of bounds - index: {idx}, size: {}", l.len()));
                        }
                        l[idx as usize] = v;
                        drop(l);
                        if nesting_depth(&cv2, 0) > 40 {
                            return unjudged("deeply nested or cyclic container");
                        }
                        Ok(())
                    }
                    V::Map(_) => unjudged("map index assignment in the core model"),
                    other => err(format!("unable to index-assign a {}", other.type_name())),
                }
            }
            E::Dot(c, k) => {
                let cv = self.eval(c)?;
                let cv2 = cv.clone();
                match cv {
                    V::Map(m) => {
                        let mut d = m.lock().unwrap();
                        match d.entries.iter_mut().find(|(k2, _)| matches!(k2, V::Str(s) if &**s == k.as_str())) {
                            Some(e) => e.1 = v,
                            None => d.entries.push((vstr(k), v)),
                        }
                        drop(d);
                        if nesting_depth(&cv2, 0) > 40 {
                            return unjudged("deeply nested or cyclic container");
                        }
                        Ok(())
                    }
                    other => err(format!("unable to assign to a field of {}", other.type_name())),
                }
            }
            _ => unjudged("unsupported assignment target"),
        }
    }

    /// iterate a value into a vector (finite iterables only)
    pub fn iterate(&mut self, v: &V) -> Result<Vec<V>, Ctl> {
        Ok(match v {
            V::List(l) => l.lock().unwrap().clone(),
            V::Tuple(t) => (**t).clone(),
            V::Range(Some(a), Some(b), inc) => {
                let n = range_len(*a, *b, *inc);
                if n > 100_000 {
                    return unjudged("huge range");
                }
                (0..n).map(|i| V::Int(a + i)).collect()
            }
            V::Range(..) => return unjudged("unbounded range iteration"),
            V::Str(s) => {
                if !s.is_ascii() {
                    return unjudged("iterating a non-ASCII string in the core model");
                }
                s.chars().map(|c| vstr(&c.to_string())).collect()
            }
            V::Map(m) => m.lock().unwrap().entries.iter().map(|(k, v)| vtuple(vec![k.clone(), v.clone()])).collect(),
            V::Gen(g) => {
                let mut out = vec![];
                loop {
                    match crate::modelgen::gen_next(self, g)? {
                        Some(v) => out.push(v),
                        None => break,
                    }
                    if out.len() > 100_000 {
                        return unjudged("endless generator");
                    }
                }
                out
            }
            V::Adapt(a) => {
                let (kind, src, f) = (&a.0, &a.1, &a.2);
                let mut out = vec![];
                // the source is pulled one element at a time, the function runs per element
                let lazy_src = matches!(src, V::Gen(_));
                let items = if lazy_src { vec![] } else { self.iterate(src)? };
                let mut i = 0;
                loop {
                    let item = if let V::Gen(g) = src {
                        match crate::modelgen::gen_next(self, g)? {
                            Some(v) => v,
                            None => break,
                        }
                    } else {
                        if i >= items.len() {
                            break;
                        }
                        i += 1;
                        items[i - 1].clone()
                    };
                    if kind == "iter" {
                        out.push(item);
                        continue;
                    }
                    let r = self.call(f, vec![item.clone()], None)?;
                    match kind.as_str() {
                        "each" => out.push(r),
                        _ => match r {
                            V::Bool(true) => out.push(item),
                            V::Bool(false) => {}
                            other => return err(format!("expected a Bool from the keep predicate, found {}", other.type_name())),
                        },
                    }
                }
                out
            }
            V::Null | V::Bool(_) | V::Int(_) | V::Float(_) => return unjudged("iterating a scalar (once-iterator behaviour is not documented)"),
            other => return err(format!("expected an iterable value, found {}", other.type_name())),
        })
    }

    pub fn check_type(&mut self, v: &V, ty: &str) -> Result<bool, Ctl> {
        let (ty, opt) = match ty.strip_suffix('?') {
            Some(t) => (t, true),
            None => (ty, false),
        };
        if opt && matches!(v, V::Null) {
            return Ok(true);
        }
        Ok(match ty {
            "Any" => true,
            "Callable" => match v {
                V::Fn(c) => {
                    if c.is_generator {
                        return unjudged("generator function x Callable");
                    }
                    true
                }
                V::Builtin(_) => true,
                _ => false,
            },
            "Indexable" => matches!(v, V::List(_) | V::Tuple(_) | V::Str(_) | V::Map(_)) || if matches!(v, V::Range(..)) { return unjudged("range x Indexable (the guide is silent)") } else { false },
            "Iterable" => matches!(v, V::List(_) | V::Tuple(_) | V::Str(_) | V::Map(_) | V::Range(..) | V::Gen(_)),
            "Iterator" => matches!(v, V::Gen(_)),
            t => v.type_name() == t,
        })
    }

    /// Bind a pattern in non-match positions (function args, for, multi-assign): never "fails",
    /// missing elements become null. Type hints are assertions.
    pub fn bind_pat(&mut self, p: &Pat, v: V) -> Result<(), Ctl> {
        match p {
            Pat::Id(n, ty) => {
                if let Some(t) = ty {
                    if self.type_checks && !self.check_type(&v, t)? {
                        return err(format!("expected {t}, found {}", v.type_name()));
                    }
                }
                self.frame().vars.insert(n.clone(), v);
                Ok(())
            }
            Pat::Wild(_, ty) => {
                if let Some(t) = ty {
                    if self.type_checks && !self.check_type(&v, t)? {
                        return err(format!("expected {t}, found {}", v.type_name()));
                    }
                }
                Ok(())
            }
            Pat::Seq(ps, _) => {
                // unpacking of a nested argument: indexable containers
                if matches!(v, V::List(_)) && ps.iter().any(|p| matches!(p, Pat::Rest(Some(_)))) {
                    return unjudged("named rest of a list (the guide documents tuples)");
                }
                let items = match &v {
                    V::List(_) | V::Tuple(_) => self.iterate(&v)?,
                    V::Range(Some(_), Some(_), _) => self.iterate(&v)?,
                    V::Str(_) => return unjudged("string destructuring"),
                    V::Map(_) => return unjudged("map destructured by a sequence pattern"),
                    other => return err(format!("expected an indexable value, found {}", other.type_name())),
                };
                self.bind_seq(ps, &items)
            }
            Pat::Map(es) => {
                match &v {
                    V::Map(m) => {
                        let d = m.lock().unwrap().clone();
                        for (k, rename) in es {
                            let val = d.entries.iter().find(|(k2, _)| matches!(k2, V::Str(s) if &**s == k.as_str())).map(|e| e.1.clone());
                            let Some(val) = val else { return unjudged("map unpack with a missing key") };
                            self.frame().vars.insert(rename.clone().unwrap_or(k.clone()), val);
                        }
                        Ok(())
                    }
                    _ => unjudged("map unpack of a non-map"),
                }
            }
            Pat::Rest(_) | Pat::Lit(_) => unjudged("unsupported binding pattern"),
        }
    }

    fn bind_seq(&mut self, ps: &[Pat], items: &[V]) -> Result<(), Ctl> {
        let rest_pos = ps.iter().position(|p| matches!(p, Pat::Rest(_)));
        match rest_pos {
            None => {
                // "If the number of elements doesn't match then an error will be thrown"
                if items.len() != ps.len() {
                    return err(format!("the container has a size of '{}', expected '{}'", items.len(), ps.len()));
                }
                for (i, p) in ps.iter().enumerate() {
                    self.bind_pat(p, items[i].clone())?;
                }
            }
            Some(rp) => {
                let before = &ps[..rp];
                let after = &ps[rp + 1..];
                if items.len() < before.len() + after.len() {
                    return err(format!("the container has a size of '{}', expected at least '{}'", items.len(), before.len() + after.len()));
                }
                for (i, p) in before.iter().enumerate() {
                    self.bind_pat(p, items[i].clone())?;
                }
                let rest_end = items.len() - after.len();
                if let Pat::Rest(Some(n)) = &ps[rp] {
                    let rest = vtuple(items[before.len()..rest_end].to_vec());
                    self.frame().vars.insert(n.clone(), rest);
                }
                for (i, p) in after.iter().enumerate() {
                    self.bind_pat(p, items[rest_end + i].clone())?;
                }
            }
        }
        Ok(())
    }

    /// Match a pattern (match arms): Ok(true) if it matches; bindings are applied on success
    pub fn match_pat(&mut self, p: &Pat, v: &V, binds: &mut Vec<(String, V)>) -> Result<bool, Ctl> {
        Ok(match p {
            Pat::Lit(e) => {
                let lv = self.eval(e)?;
                values_equal(v, &lv)?
            }
            Pat::Id(n, ty) => {
                if let Some(t) = ty {
                    if !self.check_type(v, t)? {
                        return Ok(false);
                    }
                }
                binds.push((n.clone(), v.clone()));
                true
            }
            Pat::Wild(_, ty) => {
                if let Some(t) = ty {
                    if !self.check_type(v, t)? {
                        return Ok(false);
                    }
                }
                true
            }
            Pat::Rest(_) => return unjudged("rest pattern outside a sequence"),
            Pat::Seq(ps, is_list) => {
                let items: Vec<V> = match v {
                    V::List(l) => l.lock().unwrap().clone(),
                    V::Tuple(t) => (**t).clone(),
                    V::Str(_) | V::Range(..) | V::Map(_) => return unjudged("sequence pattern against string/range/map"),
                    _ => {
                        if ps.iter().any(|p| matches!(p, Pat::Rest(_))) {
                            return unjudged("C03-size-null: ellipsis pattern against a value without a size");
                        }
                        return Ok(false);
                    }
                };
                let _ = is_list;
                if matches!(v, V::List(_)) && ps.iter().any(|p| matches!(p, Pat::Rest(Some(_)))) {
                    return unjudged("named rest of a list (the guide documents tuples)");
                }
                let rest_pos = ps.iter().position(|p| matches!(p, Pat::Rest(_)));
                match rest_pos {
                    None => {
                        if items.len() != ps.len() {
                            return Ok(false);
                        }
                        for (p, it) in ps.iter().zip(items.iter()) {
                            if !self.match_pat(p, it, binds)? {
                                return Ok(false);
                            }
                        }
                        true
                    }
                    Some(rp) => {
                        let before = &ps[..rp];
                        let after = &ps[rp + 1..];
                        if items.len() < before.len() + after.len() {
                            return Ok(false);
                        }
                        for (p, it) in before.iter().zip(items.iter()) {
                            if !self.match_pat(p, it, binds)? {
                                return Ok(false);
                            }
                        }
                        let rest_end = items.len() - after.len();
                        if let Pat::Rest(Some(n)) = &ps[rp] {
                            binds.push((n.clone(), vtuple(items[before.len()..rest_end].to_vec())));
                        }
                        for (p, it) in after.iter().zip(items[rest_end..].iter()) {
                            if !self.match_pat(p, it, binds)? {
                                return Ok(false);
                            }
                        }
                        true
                    }
                }
            }
            Pat::Map(es) => match v {
                V::Map(m) => {
                    let d = m.lock().unwrap().clone();
                    for (k, rename) in es {
                        match d.entries.iter().find(|(k2, _)| matches!(k2, V::Str(s) if &**s == k.as_str())) {
                            Some((_, val)) => binds.push((rename.clone().unwrap_or(k.clone()), val.clone())),
                            None => return Ok(false),
                        }
                    }
                    true
                }
                V::Null | V::Bool(_) => return unjudged("C03-map-null: map pattern against null/bool raises instead of falling through"),
                _ => false,
            },
        })
    }

    pub fn call(&mut self, f: &V, args: Vec<V>, self_val: Option<V>) -> R {
        self.tick()?;
        match f {
            V::Builtin(name) => self.call_builtin(name, args),
            V::Fn(c) => {
                if c.is_generator {
                    return crate::modelgen::make_generator(self, c.clone(), args, self_val);
                }
                self.call_closure(c, args, self_val)
            }
            other => err(format!("expected a callable value, found {}", other.type_name())),
        }
    }

    /// Bind call arguments into a fresh frame (pushed); the caller pops it
    pub fn bind_args(&mut self, c: &Arc<Closure>, args: Vec<V>, self_val: Option<V>) -> Result<(), Ctl> {
        let n_fixed = c.args.iter().filter(|a| !a.variadic).count();
        let n_required = c.args.iter().filter(|a| !a.variadic && a.default.is_none()).count();
        let has_variadic = c.args.iter().any(|a| a.variadic);
        if args.len() < n_required {
            return err(format!("insufficient arguments ({}, expected {})", args.len(), n_required));
        }
        if !has_variadic && args.len() > n_fixed {
            return err(format!("too many arguments ({}, expected {})", args.len(), n_fixed));
        }
        let frame = Frame { vars: c.captures.lock().unwrap().clone(), self_val, in_generator: c.is_generator };
        self.frames.push(frame);
        let mut ai = 0;
        for (i, a) in c.args.iter().enumerate() {
            if a.variadic {
                let rest: Vec<V> = args[ai.min(args.len())..].to_vec();
                ai = args.len();
                self.bind_pat(&a.pat, vtuple(rest))?;
            } else {
                let v = if ai < args.len() {
                    let v = args[ai].clone();
                    ai += 1;
                    v
                } else {
                    c.defaults[i].clone().unwrap_or(V::Null)
                };
                self.bind_pat(&a.pat, v)?;
            }
        }
        Ok(())
    }

    fn call_closure(&mut self, c: &Arc<Closure>, args: Vec<V>, self_val: Option<V>) -> R {
        if self.depth > 150 {
            return unjudged("model recursion depth");
        }
        let bound = self.bind_args(c, args, self_val);
        if let Err(e) = bound {
            // bind_args pushes the frame before binding patterns; arity errors happen before the push
            if self.frames.len() > 1 && !matches!(e, Ctl::Err(_, ref m) if m.starts_with("insufficient arguments") || m.starts_with("too many arguments")) {
                self.frames.pop();
            }
            return Err(e);
        }
        self.depth += 1;
        let r = self.block(&c.body);
        self.depth -= 1;
        self.frames.pop();
        let v = match r {
            Ok(v) => v,
            Err(Ctl::Return(v)) => v,
            Err(Ctl::Break(_)) | Err(Ctl::Continue) => return unjudged("break/continue escaping a function"),
            Err(e) => return Err(e),
        };
        if let Some(t) = &c.ret {
            if self.type_checks && !self.check_type(&v, t)? {
                return err(format!("expected {t}, found {}", v.type_name()));
            }
        }
        Ok(v)
    }

    fn call_builtin(&mut self, name: &str, args: Vec<V>) -> R {
        match (name, args.as_slice()) {
            ("print", [v]) => {
                let s = self.show(v, false)?;
                self.print_line(&s);
                Ok(V::Null)
            }
            ("print", _) => unjudged("print with several arguments"),
            ("size", [v]) => Ok(V::Int(match v {
                V::List(l) => l.lock().unwrap().len() as i64,
                V::Tuple(t) => t.len() as i64,
                V::Str(s) => {
                    if !s.is_ascii() {
                        return unjudged("size of non-ASCII string");
                    }
                    s.len() as i64
                }
                V::Map(m) => m.lock().unwrap().entries.len() as i64,
                V::Range(Some(a), Some(b), inc) => range_len(*a, *b, *inc),
                _ => return unjudged("size of other values"),
            })),
            ("type", [v]) => Ok(vstr(&v.type_name())),
            ("assert", [v]) => match v {
                V::Bool(true) => Ok(V::Null),
                V::Bool(false) => err("Assertion failed"),
                _ => unjudged("assert with a non-bool"),
            },
            ("copy", [v]) => Ok(match v {
                V::List(l) => vlist(l.lock().unwrap().clone()),
                V::Map(m) => V::Map(Arc::new(Mutex::new(m.lock().unwrap().clone()))),
                V::Gen(_) => return unjudged("copy of a generator"),
                other => other.clone(),
            }),
            _ => unjudged(format!("builtin {name} with {} args", args.len())),
        }
    }

    fn make_closure(&mut self, args: &[FnArg], ret: &Option<String>, body: &[E]) -> R {
        // free variables: captured by copy if they exist in the enclosing frame now
        let mut caps = HashMap::new();
        let mut names = vec![];
        for a in args {
            if let Some(d) = &a.default {
                d.visit(&mut |x| {
                    if let E::Id(n) = x {
                        names.push(n.clone())
                    }
                });
            }
        }
        for e in body {
            e.visit(&mut |x| {
                if let E::Id(n) = x {
                    names.push(n.clone())
                }
            });
        }
        for n in names {
            if let Some(v) = self.frame().vars.get(&n) {
                caps.insert(n.clone(), v.clone());
            }
        }
        let mut defaults = vec![];
        for a in args {
            defaults.push(match &a.default {
                Some(d) => Some(self.eval(d)?),
                None => None,
            });
        }
        let mut is_gen = false;
        for e in body {
            visit_no_nested_fn(e, &mut |x| {
                if matches!(x, E::Yield(_)) {
                    is_gen = true
                }
            });
        }
        Ok(V::Fn(Arc::new(Closure { args: args.to_vec(), ret: ret.clone(), body: body.to_vec(), captures: Mutex::new(caps), defaults, is_generator: is_gen })))
    }

    pub fn eval(&mut self, e: &E) -> R {
        self.tick()?;
        // usage flag of this node; sub-expressions are "used" unless a block says otherwise
        let used = std::mem::replace(&mut self.used, true);
        let r = self.eval_inner(e, used);
        self.used = used;
        r
    }

    fn eval_inner(&mut self, e: &E, used: bool) -> R {
        match e {
            E::Null => Ok(V::Null),
            E::Bool(b) => Ok(V::Bool(*b)),
            E::Int(n) => Ok(V::Int(*n)),
            E::Float(x) => Ok(V::Float(*x)),
            E::Str(parts) => self.eval_str(parts),
            E::Id(n) => {
                if n == "self" {
                    return match self.frame().self_val.clone() {
                        Some(v) => Ok(v),
                        None => unjudged("self outside of an instance call"),
                    };
                }
                self.lookup(n)
            }
            E::List(v) => {
                let mut out = vec![];
                for x in v {
                    out.push(self.eval(x)?);
                }
                Ok(vlist(out))
            }
            E::Tuple(v) => {
                let mut out = vec![];
                for x in v {
                    out.push(self.eval(x)?);
                }
                Ok(vtuple(out))
            }
            E::Map(v) => {
                let mut d = MapData::default();
                for (k, x) in v {
                    let val = self.eval(x)?;
                    if k == "@type" {
                        if let V::Str(s) = &val {
                            d.type_name = Some(s.to_string());
                            continue;
                        }
                    }
                    if k.starts_with('@') {
                        d.meta.push((k.clone(), val));
                        continue;
                    }
                    match d.entries.iter_mut().find(|(k2, _)| matches!(k2, V::Str(s) if &**s == k.as_str())) {
                        Some(e) => e.1 = val,
                        None => d.entries.push((vstr(k), val)),
                    }
                }
                Ok(V::Map(Arc::new(Mutex::new(d))))
            }
            E::Range(a, b, inc) => {
                let mut bound = |me: &mut Self, x: &Option<Box<E>>| -> Result<Option<i64>, Ctl> {
                    match x {
                        None => Ok(None),
                        Some(x) => match me.eval(x)? {
                            V::Int(n) => Ok(Some(n)),
                            V::Float(_) => unjudged("float range bound"),
                            other => err(format!("expected Number for range bound, found {}", other.type_name())),
                        },
                    }
                };
                let a = bound(self, a)?;
                let b = bound(self, b)?;
                Ok(V::Range(a, b, *inc))
            }
            E::Neg(x) => match self.eval(x)? {
                V::Int(n) => Ok(V::Int(n.wrapping_neg())),
                V::Float(f) => Ok(V::Float(-f)),
                other => err(format!("unable to negate a {}", other.type_name())),
            },
            E::Not(x) => {
                let v = self.eval(x)?;
                Ok(V::Bool(!v.truthy()))
            }
            E::Paren(x) => self.eval(x),
            E::Bin(op, l, r) => self.eval_bin(*op, l, r),
            E::Index(c, i) => {
                let cv = self.eval(c)?;
                let iv = self.eval(i)?;
                self.index(&cv, &iv)
            }
            E::Dot(c, k) => {
                let cv = self.eval(c)?;
                self.access(&cv, k)
            }
            E::Call(callee, args) => {
                // koto.deep_copy(x) / koto.copy(x)
                if let E::Dot(c, k) = &**callee {
                    if matches!(&**c, E::Id(n) if n == "koto") && args.len() == 1 && !args[0].1 {
                        let v = self.eval(&args[0].0)?;
                        match k.as_str() {
                            "deep_copy" => return deep_copy(&v),
                            "copy" => return self.call_builtin("copy", vec![v]),
                            _ => return unjudged("koto module function"),
                        }
                    }
                }
                // instance call: m.f(args) passes m as self
                let (f, self_val) = match &**callee {
                    E::Dot(c, k) => {
                        let cv = self.eval(c)?;
                        let is_data_key = matches!(&cv, V::Map(m) if m.lock().unwrap().entries.iter().any(|(k2, _)| matches!(k2, V::Str(s) if &**s == k.as_str())));
                        if !is_data_key && matches!(cv, V::List(_) | V::Tuple(_) | V::Map(_)) && container_method(&cv, k) {
                            let mut argv = vec![];
                            for (a, packed) in args {
                                if *packed {
                                    return unjudged("packed arguments to a core-library method");
                                }
                                argv.push(self.eval(a)?);
                            }
                            return self.call_container_method(&cv, k, argv);
                        }
                        if !matches!(cv, V::Map(_)) && args.is_empty() {
                            match k.as_str() {
                                "to_tuple" => return Ok(vtuple(self.iterate(&cv)?)),
                                "to_list" => return Ok(vlist(self.iterate(&cv)?)),
                                "count" => return Ok(V::Int(self.iterate(&cv)?.len() as i64)),
                                "consume" => {
                                    self.iterate(&cv)?;
                                    return Ok(V::Null);
                                }
                                _ => {}
                            }
                        }
                        if !matches!(cv, V::Map(_)) && matches!(k.as_str(), "each" | "keep") && args.len() == 1 {
                            let f = self.eval(&args[0].0)?;
                            return Ok(V::Adapt(Arc::new((k.clone(), cv, f))));
                        }
                        if !matches!(cv, V::Map(_)) && k == "zip" && args.len() == 1 {
                            // pairs up the two sequences; the receiver is pulled first in every step. Only
                            // judged when at most one side can have effects (the other is a plain container),
                            // where pulling order between the sides cannot be observed
                            let other = self.eval(&args[0].0)?;
                            let plain = |v: &V| matches!(v, V::List(_) | V::Tuple(_) | V::Range(..) | V::Str(_));
                            if !plain(&cv) && !plain(&other) {
                                return unjudged("zip of two effectful iterators");
                            }
                            if plain(&cv) {
                                let xs = self.iterate(&cv)?;
                                // the right side is only pulled while the left one has elements
                                let ys = self.iterate(&other)?;
                                if ys.len() > xs.len() {
                                    return unjudged("zip with a longer effectful right side");
                                }
                                return Ok(vtuple(xs.into_iter().zip(ys).map(|(a, b)| vtuple(vec![a, b])).collect()));
                            }
                            let ys = self.iterate(&other)?;
                            let xs = self.iterate(&cv)?;
                            if xs.len() > ys.len() + 1 {
                                return unjudged("zip with a much longer effectful left side");
                            }
                            return Ok(vtuple(xs.into_iter().zip(ys).map(|(a, b)| vtuple(vec![a, b])).collect()));
                        }
                        if !matches!(cv, V::Map(_)) && k == "fold" && args.len() == 2 {
                            let mut acc = self.eval(&args[0].0)?;
                            let f = self.eval(&args[1].0)?;
                            for item in self.iterate(&cv)? {
                                acc = self.call(&f, vec![acc, item], None)?;
                            }
                            return Ok(acc);
                        }
                        let f = self.access(&cv, k)?;
                        (f, Some(cv))
                    }
                    other => (self.eval(other)?, None),
                };
                let mut argv = vec![];
                for (a, packed) in args {
                    let v = self.eval(a)?;
                    if *packed {
                        match &v {
                            V::List(_) | V::Tuple(_) | V::Range(Some(_), Some(_), _) | V::Gen(_) => argv.extend(self.iterate(&v)?),
                            _ => return unjudged("packed argument of another kind"),
                        }
                    } else {
                        argv.push(v);
                    }
                }
                self.call(&f, argv, self_val)
            }
            E::Pipe(a, f) => {
                // a -> f b  ==  f(a, b)?  guide: the piped value is passed as the first argument
                let av = self.eval(a)?;
                match &**f {
                    E::Call(callee, args) => {
                        let (fv, self_val) = match &**callee {
                            E::Dot(c, k) => {
                                let cv = self.eval(c)?;
                                let fv = self.access(&cv, k)?;
                                (fv, Some(cv))
                            }
                            other => (self.eval(other)?, None),
                        };
                        let mut argv = vec![av];
                        for (a, packed) in args {
                            if *packed {
                                return unjudged("packed args in piped call");
                            }
                            argv.push(self.eval(a)?);
                        }
                        self.call(&fv, argv, self_val)
                    }
                    other => {
                        let fv = self.eval(other)?;
                        self.call(&fv, vec![av], None)
                    }
                }
            }
            E::If(arms, els) => {
                for (c, b) in arms {
                    if self.eval(c)?.truthy() {
                        return self.block_u(b, used);
                    }
                }
                match els {
                    Some(b) => self.block_u(b, used),
                    None => Ok(V::Null),
                }
            }
            E::Switch(arms) => {
                for (c, b) in arms {
                    let take = match c {
                        Some(c) => self.eval(c)?.truthy(),
                        None => true,
                    };
                    if take {
                        return self.block_u(b, used);
                    }
                }
                Ok(V::Null)
            }
            E::Match(subj, arms, els) => {
                let mut sv = vec![];
                for s in subj {
                    sv.push(self.eval(s)?);
                }
                for arm in arms {
                    for alt in &arm.alts {
                        let mut binds = vec![];
                        let ok = if alt.len() == sv.len() {
                            let mut ok = true;
                            for (p, v) in alt.iter().zip(sv.iter()) {
                                if !self.match_pat(p, v, &mut binds)? {
                                    ok = false;
                                    break;
                                }
                            }
                            ok
                        } else if sv.len() == 1 && alt.len() > 1 {
                            // `match x` with arm `a, b`: matches against the elements of x
                            self.match_pat(&Pat::Seq(alt.clone(), false), &sv[0], &mut binds)?
                        } else {
                            return unjudged("pattern count differs from subject count");
                        };
                        if ok {
                            for (n, v) in binds {
                                self.frame().vars.insert(n, v);
                            }
                            let guard_ok = match &arm.guard {
                                Some(g) => self.eval(g)?.truthy(),
                                None => true,
                            };
                            if guard_ok {
                                return self.block_u(&arm.body, used);
                            }
                        }
                    }
                }
                match els {
                    Some(b) => self.block_u(b, used),
                    None => Ok(V::Null),
                }
            }
            E::While(until, c, b) => {
                let mut last = V::Null;
                loop {
                    self.tick()?;
                    let cv = self.eval(c)?.truthy();
                    if cv == *until {
                        break;
                    }
                    match self.block_u(b, used) {
                        Ok(v) => last = v,
                        Err(Ctl::Break(v)) => return Ok(v.unwrap_or(V::Null)),
                        Err(Ctl::Continue) => last = V::Null,
                        Err(e) => return Err(e),
                    }
                }
                Ok(last)
            }
            E::Loop(b) => loop {
                self.tick()?;
                match self.block_u(b, used) {
                    Ok(_) => {}
                    Err(Ctl::Break(v)) => return Ok(v.unwrap_or(V::Null)),
                    Err(Ctl::Continue) => {}
                    Err(e) => return Err(e),
                }
            },
            E::For(pats, it, b) => {
                let itv = self.eval(it)?;
                let mut last = V::Null;
                // generators are consumed lazily so that side effects interleave
                let lazy = matches!(itv, V::Gen(_));
                let items = if lazy { vec![] } else { self.iterate(&itv)? };
                let mut i = 0;
                loop {
                    let item = if lazy {
                        let V::Gen(g) = &itv else { unreachable!() };
                        match crate::modelgen::gen_next(self, g)? {
                            Some(v) => v,
                            None => break,
                        }
                    } else {
                        if i >= items.len() {
                            break;
                        }
                        i += 1;
                        items[i - 1].clone()
                    };
                    self.tick()?;
                    if pats.len() == 1 {
                        self.bind_pat(&pats[0], item)?;
                    } else {
                        // several loop arguments unpack each element
                        let elems = match &item {
                            V::List(_) | V::Tuple(_) => self.iterate(&item)?,
                            V::Range(..) | V::Str(_) | V::Map(_) => return unjudged("for-arg unpack of range/string/map element"),
                            other => vec![other.clone()],
                        };
                        for (pi, p) in pats.iter().enumerate() {
                            self.bind_pat(p, elems.get(pi).cloned().unwrap_or(V::Null))?;
                        }
                    }
                    match self.block_u(b, used) {
                        Ok(v) => last = v,
                        Err(Ctl::Break(v)) => return Ok(v.unwrap_or(V::Null)),
                        Err(Ctl::Continue) => last = V::Null,
                        Err(e) => return Err(e),
                    }
                }
                Ok(last)
            }
            E::Break(v) => {
                let v = match v {
                    Some(x) => Some(self.eval(x)?),
                    None => None,
                };
                Err(Ctl::Break(v))
            }
            E::Continue => Err(Ctl::Continue),
            E::Return(v) => {
                let v = match v {
                    Some(x) => self.eval(x)?,
                    None => V::Null,
                };
                Err(Ctl::Return(v))
            }
            E::Yield(v) => {
                let val = self.eval(v)?;
                crate::modelgen::do_yield(self, val)
            }
            E::Throw(v) => {
                let val = self.eval(v)?;
                match &val {
                    // a rethrown runtime error keeps its (unprescribed) text
                    V::Str(s) if s.contains('\u{1}') => Err(Ctl::Err(None, "rethrown runtime error".into())),
                    V::Str(s) => Err(Ctl::Err(Some(val.clone()), s.to_string())),
                    V::Map(m) => {
                        if m.lock().unwrap().meta_get("@display").is_none() {
                            return unjudged("throwing a map without @display");
                        }
                        let shown = self.show(&val, false)?;
                        Err(Ctl::Err(Some(val.clone()), shown))
                    }
                    V::Int(_) | V::Float(_) => Err(Ctl::Err(Some(val.clone()), display(&val, false))),
                    _ => unjudged("throwing a value that is neither a string nor a map"),
                }
            }
            E::Assign(t, op, v) => {
                match op {
                    None => {
                        let val = self.eval(v)?;
                        // deferred self capture: `f = |n| ... f ...`
                        if let (E::Id(n), V::Fn(c)) = (&**t, &val) {
                            let mentions = {
                                let mut m = false;
                                for e in &c.body {
                                    e.visit(&mut |x| {
                                        if matches!(x, E::Id(x) if x == n) {
                                            m = true
                                        }
                                    });
                                }
                                m
                            };
                            if mentions && matches!(&**v, E::Fn(..)) {
                                c.captures.lock().unwrap().insert(n.clone(), val.clone());
                            }
                        }
                        self.assign_to(t, val.clone())?;
                        Ok(val)
                    }
                    Some(op) => {
                        let cur = self.eval(t)?;
                        let rhs = self.eval(v)?;
                        if !matches!(cur, V::Int(_) | V::Float(_)) || !matches!(rhs, V::Int(_) | V::Float(_)) {
                            return unjudged("compound assignment on non-numbers");
                        }
                        let val = arith(*op, &cur, &rhs)?;
                        self.assign_to(t, val.clone())?;
                        Ok(val)
                    }
                }
            }
            E::MultiAssign(ts, v) => {
                let val = self.eval(v)?;
                let items = match &val {
                    V::Gen(g) => {
                        // only as many elements as there are targets are pulled
                        let mut out = vec![];
                        for _ in 0..ts.len() {
                            match crate::modelgen::gen_next(self, g)? {
                                Some(v) => out.push(v),
                                None => break,
                            }
                        }
                        out
                    }
                    V::List(_) | V::Tuple(_) | V::Range(Some(_), Some(_), _) | V::Str(_) => self.iterate(&val)?,
                    V::Map(_) | V::Range(..) => return unjudged("multi-assign from map/unbounded range"),
                    other => vec![other.clone()],
                };
                for (i, t) in ts.iter().enumerate() {
                    self.assign_to(t, items.get(i).cloned().unwrap_or(V::Null))?;
                }
                Ok(val)
            }
            E::Let(names, v) => {
                let val = self.eval(v)?;
                if names.len() == 1 {
                    let (n, t) = &names[0];
                    if let Some(t) = t {
                        if self.type_checks && !self.check_type(&val, t)? {
                            return err(format!("expected {t}, found {}", val.type_name()));
                        }
                    }
                    self.frame().vars.insert(n.clone(), val.clone());
                } else {
                    let items = match &val {
                        V::List(_) | V::Tuple(_) => self.iterate(&val)?,
                        _ => return unjudged("multi-let from a non-sequence"),
                    };
                    for (i, (n, t)) in names.iter().enumerate() {
                        let x = items.get(i).cloned().unwrap_or(V::Null);
                        if let Some(t) = t {
                            if self.type_checks && !self.check_type(&x, t)? {
                                return err(format!("expected {t}, found {}", x.type_name()));
                            }
                        }
                        self.frame().vars.insert(n.clone(), x);
                    }
                }
                Ok(val)
            }
            E::Export(n, v) => {
                let val = self.eval(v)?;
                self.exports.lock().unwrap().push((n.clone(), val.clone()));
                self.frame().vars.insert(n.clone(), val.clone());
                Ok(val)
            }
            E::Fn(args, ret, body) => self.make_closure(args, ret, body),
            E::Try(body, catches, fin) => {
                let r = self.block_u(body, used);
                let r = match r {
                    Err(Ctl::Err(thrown, msg)) => {
                        // typed catches in order
                        let mut handled = None;
                        for c in catches {
                            let val = thrown.clone().unwrap_or_else(|| vstr(&msg));
                            let ok = match &c.ty {
                                None => true,
                                Some(t) => self.check_type(&val, t)?,
                            };
                            if ok {
                                if !c.name.starts_with('_') {
                                    if thrown.is_none() {
                                        // runtime error texts are not prescribed: poison the binding
                                        self.frame().vars.insert(c.name.clone(), vstr("\u{1}runtime-error-text"));
                                    } else {
                                        self.frame().vars.insert(c.name.clone(), val);
                                    }
                                }
                                handled = Some(self.block_u(&c.body, used));
                                break;
                            }
                        }
                        match handled {
                            Some(r) => r,
                            None => Err(Ctl::Err(thrown, msg)),
                        }
                    }
                    other => other,
                };
                match fin {
                    Some(f) => {
                        if matches!(r, Err(Ctl::Return(_)) | Err(Ctl::Break(_)) | Err(Ctl::Continue)) {
                            return unjudged("F28: finally with return/break/continue");
                        }
                        if let Err(Ctl::Err(..)) = r {
                            return unjudged("F28: finally with an error leaving the try expression");
                        }
                        if let Err(e) = r {
                            return Err(e);
                        }
                        let fv = self.block(f)?;
                        Ok(fv)
                    }
                    None => r,
                }
            }
            E::Print(args) => {
                if args.len() != 1 {
                    return unjudged("print with several arguments");
                }
                let v = self.eval(&args[0])?;
                // a poisoned runtime error text must not be printed
                if let V::Str(s) = &v {
                    if s.contains('\u{1}') {
                        return unjudged("printing the text of a runtime error");
                    }
                }
                let s = self.show(&v, false)?;
                if s.contains('\u{1}') {
                    return unjudged("printing the text of a runtime error");
                }
                self.print_line(&s);
                Ok(V::Null)
            }
        }
    }

    pub fn print_line(&mut self, s: &str) {
        let mut o = self.out.lock().unwrap();
        if o.len() + s.len() > 300_000 {
            // the model's output bound: burn the fuel so that the case ends as unjudged
            self.fuel.store(0, std::sync::atomic::Ordering::Relaxed);
            return;
        }
        o.push_str(s);
        o.push('\n');
    }

    /// Comparison with an object on the left: the explicit metakey, otherwise the derivations the
    /// guide describes (`!=` from `@==`; `<=`, `>`, `>=` from `@<` and `@==`), evaluated in the order
    /// less-then-equal. Anything else is left to C17.
    fn object_compare(&mut self, op: Op, lv: &V, rv: &V) -> R {
        let V::Map(m) = lv else { return unjudged("object comparison") };
        let get = |k: &str| m.lock().unwrap().meta_get(k);
        if matches!(rv, V::Null) && matches!(op, Op::Eq | Op::Ne) {
            return unjudged("== / != against null is decided without calling @==");
        }
        if let Some(f) = get(&format!("@{}", op.text())) {
            return self.call(&f, vec![rv.clone()], Some(lv.clone()));
        }
        let as_bool = |v: V| -> Result<bool, Ctl> {
            match v {
                V::Bool(b) => Ok(b),
                _ => Err(Ctl::Unjudged("comparison metakey returning a non-Bool".into())),
            }
        };
        match op {
            Op::Ne => {
                let Some(eq) = get("@==") else { return unjudged("structural comparison of objects") };
                let e = self.call(&eq, vec![rv.clone()], Some(lv.clone()))?;
                Ok(V::Bool(!as_bool(e)?))
            }
            Op::Le | Op::Gt => {
                let (Some(lt), Some(eq)) = (get("@<"), get("@==")) else { return unjudged("derived comparison without both @< and @==") };
                let l = self.call(&lt, vec![rv.clone()], Some(lv.clone()))?;
                let l = as_bool(l)?;
                let le = if l {
                    true
                } else {
                    let e = self.call(&eq, vec![rv.clone()], Some(lv.clone()))?;
                    as_bool(e)?
                };
                Ok(V::Bool(if op == Op::Le { le } else { !le }))
            }
            Op::Ge => {
                let (Some(lt), Some(_)) = (get("@<"), get("@==")) else { return unjudged("derived comparison without both @< and @==") };
                let l = self.call(&lt, vec![rv.clone()], Some(lv.clone()))?;
                Ok(V::Bool(!as_bool(l)?))
            }
            _ => unjudged("comparison on an object without the metakey"),
        }
    }

    fn eval_bin(&mut self, op: Op, l: &E, r: &E) -> R {
        match op {
            Op::And => {
                let lv = self.eval(l)?;
                if !lv.truthy() {
                    return Ok(lv);
                }
                self.eval(r)
            }
            Op::Or => {
                let lv = self.eval(l)?;
                if lv.truthy() {
                    return Ok(lv);
                }
                self.eval(r)
            }
            o if o.is_cmp() => {
                // comparison chain: an unparenthesised comparison on the right continues the chain
                let mut lv = self.eval(l)?;
                let mut op = op;
                let mut rhs = r;
                loop {
                    match rhs {
                        E::Bin(op2, rl, rr) if op2.is_cmp() && !child_needs_parens(op, rhs, true) => {
                            let mid = self.eval(rl)?;
                            if !compare(op, &lv, &mid)? {
                                return Ok(V::Bool(false));
                            }
                            lv = mid;
                            op = *op2;
                            rhs = rr;
                        }
                        _ => {
                            let rv = self.eval(rhs)?;
                            if let V::Map(m) = &lv {
                                if !m.lock().unwrap().meta.is_empty() {
                                    return self.object_compare(op, &lv, &rv);
                                }
                            }
                            return Ok(V::Bool(compare(op, &lv, &rv)?));
                        }
                    }
                }
            }
            _ => {
                let lv = self.eval(l)?;
                let rv = self.eval(r)?;
                if let V::Map(m) = &lv {
                    let f = m.lock().unwrap().meta_get(&format!("@{}", op.text()));
                    if let Some(f) = f {
                        return self.call(&f, vec![rv], Some(lv.clone()));
                    }
                    if !m.lock().unwrap().meta.is_empty() {
                        return unjudged("operator fallback on objects is judged by C17");
                    }
                }
                if let V::Map(m) = &rv {
                    if !m.lock().unwrap().meta.is_empty() {
                        return unjudged("right-operand overloads are judged by C17");
                    }
                }
                arith(op, &lv, &rv)
            }
        }
    }
}

/// "Descending ranges are considered to be empty" (core library docs)
pub fn deep_copy(v: &V) -> R {
    if nesting_depth(v, 0) > 40 {
        return Err(Ctl::Unjudged("deep copy of a cyclic container".into()));
    }
    Ok(match v {
        V::List(l) => {
            let items = l.lock().unwrap().clone();
            let mut out = vec![];
            for x in &items {
                out.push(deep_copy(x)?);
            }
            vlist(out)
        }
        V::Tuple(t) => {
            let mut out = vec![];
            for x in t.iter() {
                out.push(deep_copy(x)?);
            }
            vtuple(out)
        }
        V::Map(m) => {
            let d = m.lock().unwrap().clone();
            let mut e = vec![];
            for (k, x) in &d.entries {
                e.push((k.clone(), deep_copy(x)?));
            }
            V::Map(Arc::new(Mutex::new(MapData { entries: e, type_name: d.type_name.clone(), meta: d.meta.clone() })))
        }
        V::Gen(_) | V::Adapt(_) => return Err(Ctl::Unjudged("deep copy of an iterator".into())),
        other => other.clone(),
    })
}

const LIST_METHODS: [&str; 21] = ["push", "pop", "insert", "remove", "clear", "extend", "fill", "resize", "retain", "reverse", "sort", "swap", "transform", "first", "last", "get", "contains", "is_empty", "to_tuple", "to_list", "size"];
const MAP_METHODS: [&str; 14] = ["insert", "remove", "clear", "extend", "sort", "get", "keys", "values", "get_index", "contains_key", "is_empty", "update", "size", "to_tuple"];
const TUPLE_METHODS: [&str; 8] = ["first", "last", "get", "contains", "to_list", "to_tuple", "is_empty", "size"];

pub fn container_method(recv: &V, name: &str) -> bool {
    match recv {
        V::List(_) => LIST_METHODS.contains(&name),
        V::Map(_) => MAP_METHODS.contains(&name),
        V::Tuple(_) => TUPLE_METHODS.contains(&name),
        _ => false,
    }
}

fn key_ok(k: &V) -> bool {
    match k {
        V::Str(_) | V::Int(_) | V::Bool(_) | V::Null => true,
        V::Float(_) => false, // equal-valued int/float keys: known finding C14-key-hash
        V::Tuple(t) => t.iter().all(key_ok),
        V::Range(..) => false,
        _ => false,
    }
}

fn cmp_for_sort(a: &V, b: &V) -> Result<std::cmp::Ordering, Ctl> {
    // sorting incomparable elements raises an error part-way: the resulting order is not defined
    let same_kind = matches!((a, b), (V::Int(_) | V::Float(_), V::Int(_) | V::Float(_)) | (V::Str(_), V::Str(_)));
    if !same_kind {
        return Err(Ctl::Unjudged("sorting elements that have no common order".into()));
    }
    if compare(Op::Lt, a, b)? {
        Ok(std::cmp::Ordering::Less)
    } else if compare(Op::Gt, a, b)? {
        Ok(std::cmp::Ordering::Greater)
    } else {
        Ok(std::cmp::Ordering::Equal)
    }
}

fn stable_sort(items: &mut Vec<V>) -> Result<(), Ctl> {
    // insertion sort: stable, and every comparison goes through the model's `compare`
    for i in 1..items.len() {
        let mut j = i;
        while j > 0 && cmp_for_sort(&items[j - 1], &items[j])? == std::cmp::Ordering::Greater {
            items.swap(j - 1, j);
            j -= 1;
        }
    }
    Ok(())
}

impl Interp {
    pub fn call_container_method(&mut self, recv: &V, name: &str, args: Vec<V>) -> R {
        let arity = |n: usize| -> Result<(), Ctl> {
            if args.len() == n { Ok(()) } else { Err(Ctl::Err(None, format!("unexpected arguments for {name}"))) }
        };
        let uint = |v: &V| -> Result<usize, Ctl> {
            match v {
                V::Int(n) if *n >= 0 => Ok(*n as usize),
                V::Int(_) => Err(Ctl::Err(None, "negative index".into())),
                V::Float(_) => Err(Ctl::Unjudged("float index argument".into())),
                _ => Err(Ctl::Err(None, "expected a number".into())),
            }
        };
        match recv {
            V::List(l) => {
                match name {
                    "push" => {
                        arity(1)?;
                        l.lock().unwrap().push(args[0].clone());
                        if nesting_depth(recv, 0) > 40 {
                            return unjudged("cyclic container");
                        }
                        Ok(recv.clone())
                    }
                    "pop" => {
                        arity(0)?;
                        Ok(l.lock().unwrap().pop().unwrap_or(V::Null))
                    }
                    "insert" => {
                        arity(2)?;
                        let i = uint(&args[0])?;
                        let mut g = l.lock().unwrap();
                        if i > g.len() {
                            return err("index out of bounds");
                        }
                        g.insert(i, args[1].clone());
                        drop(g);
                        if nesting_depth(recv, 0) > 40 {
                            return unjudged("cyclic container");
                        }
                        Ok(recv.clone())
                    }
                    "remove" => {
                        arity(1)?;
                        let i = uint(&args[0])?;
                        let mut g = l.lock().unwrap();
                        if i >= g.len() {
                            return err("index out of bounds");
                        }
                        Ok(g.remove(i))
                    }
                    "clear" => {
                        arity(0)?;
                        l.lock().unwrap().clear();
                        Ok(recv.clone())
                    }
                    "extend" => {
                        arity(1)?;
                        if let V::List(o) = &args[0] {
                            if Arc::ptr_eq(o, l) {
                                return unjudged("l.extend l (known finding C06-extend-self)");
                            }
                        }
                        let items = self.iterate(&args[0])?;
                        l.lock().unwrap().extend(items);
                        if nesting_depth(recv, 0) > 40 {
                            return unjudged("cyclic container");
                        }
                        Ok(recv.clone())
                    }
                    "fill" => {
                        arity(1)?;
                        for x in l.lock().unwrap().iter_mut() {
                            *x = args[0].clone();
                        }
                        if nesting_depth(recv, 0) > 40 {
                            return unjudged("cyclic container");
                        }
                        Ok(recv.clone())
                    }
                    "resize" => {
                        if args.is_empty() || args.len() > 2 {
                            return err("unexpected arguments for resize");
                        }
                        let n = uint(&args[0])?;
                        if n > 10_000 {
                            return unjudged("huge resize");
                        }
                        let fill = args.get(1).cloned().unwrap_or(V::Null);
                        l.lock().unwrap().resize(n, fill);
                        if nesting_depth(recv, 0) > 40 {
                            return unjudged("cyclic container");
                        }
                        Ok(recv.clone())
                    }
                    "retain" => {
                        arity(1)?;
                        let items = l.lock().unwrap().clone();
                        let mut kept = vec![];
                        for x in items {
                            let keep = if matches!(args[0], V::Fn(_) | V::Builtin(_)) {
                                match self.call(&args[0], vec![x.clone()], None)? {
                                    V::Bool(b) => b,
                                    other => return err(format!("expected Bool from the retain predicate, found {}", other.type_name())),
                                }
                            } else {
                                values_equal(&x, &args[0])?
                            };
                            if keep {
                                kept.push(x);
                            }
                        }
                        *l.lock().unwrap() = kept;
                        Ok(recv.clone())
                    }
                    "reverse" => {
                        arity(0)?;
                        l.lock().unwrap().reverse();
                        Ok(recv.clone())
                    }
                    "sort" => {
                        if !args.is_empty() {
                            return unjudged("sort with a key function (judged by the sorting laws)");
                        }
                        let mut items = l.lock().unwrap().clone();
                        stable_sort(&mut items)?;
                        *l.lock().unwrap() = items;
                        Ok(recv.clone())
                    }
                    "swap" => {
                        arity(1)?;
                        match &args[0] {
                            V::List(o) => {
                                if Arc::ptr_eq(o, l) {
                                    return unjudged("swap with itself");
                                }
                                let a = l.lock().unwrap().clone();
                                let b = o.lock().unwrap().clone();
                                *l.lock().unwrap() = b;
                                *o.lock().unwrap() = a;
                                if nesting_depth(recv, 0) > 40 || nesting_depth(&args[0], 0) > 40 {
                                    return unjudged("cyclic container");
                                }
                                Ok(V::Null)
                            }
                            _ => err("expected a list"),
                        }
                    }
                    "transform" => {
                        arity(1)?;
                        let items = l.lock().unwrap().clone();
                        let mut out = vec![];
                        for x in items {
                            out.push(self.call(&args[0], vec![x], None)?);
                        }
                        *l.lock().unwrap() = out;
                        if nesting_depth(recv, 0) > 40 {
                            return unjudged("cyclic container");
                        }
                        Ok(recv.clone())
                    }
                    _ => self.seq_read_method(recv, name, &args),
                }
            }
            V::Tuple(_) => self.seq_read_method(recv, name, &args),
            V::Map(m) => {
                if !m.lock().unwrap().meta.is_empty() {
                    return unjudged("core map functions on an object");
                }
                match name {
                    "insert" => {
                        if args.is_empty() || args.len() > 2 {
                            return err("unexpected arguments for insert");
                        }
                        if !key_ok(&args[0]) {
                            return unjudged("map key outside the modelled key kinds");
                        }
                        let val = args.get(1).cloned().unwrap_or(V::Null);
                        let mut d = m.lock().unwrap();
                        let r = match d.entries.iter_mut().find(|(k, _)| key_equal(k, &args[0])) {
                            Some(e) => std::mem::replace(&mut e.1, val),
                            None => {
                                d.entries.push((args[0].clone(), val));
                                V::Null
                            }
                        };
                        drop(d);
                        if nesting_depth(recv, 0) > 40 {
                            return unjudged("cyclic container");
                        }
                        Ok(r)
                    }
                    "remove" => {
                        arity(1)?;
                        if !key_ok(&args[0]) {
                            return unjudged("map key outside the modelled key kinds");
                        }
                        let mut d = m.lock().unwrap();
                        // order-preserving removal
                        match d.entries.iter().position(|(k, _)| key_equal(k, &args[0])) {
                            Some(p) => Ok(d.entries.remove(p).1),
                            None => Ok(V::Null),
                        }
                    }
                    "clear" => {
                        arity(0)?;
                        m.lock().unwrap().entries.clear();
                        Ok(recv.clone())
                    }
                    "extend" => {
                        arity(1)?;
                        let pairs: Vec<(V, V)> = match &args[0] {
                            V::Map(o) => {
                                if Arc::ptr_eq(o, m) {
                                    return unjudged("m.extend m");
                                }
                                o.lock().unwrap().entries.clone()
                            }
                            other => {
                                let mut out = vec![];
                                for it in self.iterate(other)? {
                                    match it {
                                        V::Tuple(t) if t.len() == 2 => out.push((t[0].clone(), t[1].clone())),
                                        _ => return unjudged("map.extend with non-pair elements"),
                                    }
                                }
                                out
                            }
                        };
                        let mut d = m.lock().unwrap();
                        for (k, v) in pairs {
                            if !key_ok(&k) {
                                return unjudged("map key outside the modelled key kinds");
                            }
                            match d.entries.iter_mut().find(|(k2, _)| key_equal(k2, &k)) {
                                Some(e) => e.1 = v,
                                None => d.entries.push((k, v)),
                            }
                        }
                        drop(d);
                        if nesting_depth(recv, 0) > 40 {
                            return unjudged("cyclic container");
                        }
                        Ok(recv.clone())
                    }
                    "sort" => {
                        if !args.is_empty() {
                            return unjudged("map.sort with a key function (judged by the sorting laws)");
                        }
                        let mut entries = m.lock().unwrap().entries.clone();
                        // sort by key, stable
                        for i in 1..entries.len() {
                            let mut j = i;
                            while j > 0 && cmp_for_sort(&entries[j - 1].0, &entries[j].0)? == std::cmp::Ordering::Greater {
                                entries.swap(j - 1, j);
                                j -= 1;
                            }
                        }
                        m.lock().unwrap().entries = entries;
                        Ok(recv.clone())
                    }
                    "get" => {
                        if args.is_empty() || args.len() > 2 {
                            return err("unexpected arguments for get");
                        }
                        if !key_ok(&args[0]) {
                            return unjudged("map key outside the modelled key kinds");
                        }
                        let d = m.lock().unwrap();
                        Ok(d.entries.iter().find(|(k, _)| key_equal(k, &args[0])).map(|e| e.1.clone()).unwrap_or_else(|| args.get(1).cloned().unwrap_or(V::Null)))
                    }
                    "keys" => {
                        arity(0)?;
                        Ok(vtuple_iter(m.lock().unwrap().entries.iter().map(|e| e.0.clone()).collect()))
                    }
                    "values" => {
                        arity(0)?;
                        Ok(vtuple_iter(m.lock().unwrap().entries.iter().map(|e| e.1.clone()).collect()))
                    }
                    "get_index" => {
                        if args.is_empty() || args.len() > 2 {
                            return err("unexpected arguments for get_index");
                        }
                        let i = match &args[0] {
                            V::Int(n) => *n,
                            _ => return err("expected a number"),
                        };
                        let d = m.lock().unwrap();
                        if i < 0 {
                            return unjudged("negative get_index");
                        }
                        Ok(d.entries.get(i as usize).map(|(k, v)| vtuple(vec![k.clone(), v.clone()])).unwrap_or_else(|| args.get(1).cloned().unwrap_or(V::Null)))
                    }
                    "contains_key" => {
                        arity(1)?;
                        if !key_ok(&args[0]) {
                            return unjudged("map key outside the modelled key kinds");
                        }
                        Ok(V::Bool(m.lock().unwrap().entries.iter().any(|(k, _)| key_equal(k, &args[0]))))
                    }
                    "is_empty" => {
                        arity(0)?;
                        Ok(V::Bool(m.lock().unwrap().entries.is_empty()))
                    }
                    "size" => {
                        arity(0)?;
                        Ok(V::Int(m.lock().unwrap().entries.len() as i64))
                    }
                    "update" => {
                        if args.len() < 2 || args.len() > 3 {
                            return err("unexpected arguments for update");
                        }
                        if !key_ok(&args[0]) {
                            return unjudged("map key outside the modelled key kinds");
                        }
                        let (default, f) = if args.len() == 3 { (args[1].clone(), args[2].clone()) } else { (V::Null, args[1].clone()) };
                        let cur = m.lock().unwrap().entries.iter().find(|(k, _)| key_equal(k, &args[0])).map(|e| e.1.clone()).unwrap_or(default);
                        let new = self.call(&f, vec![cur], None)?;
                        let mut d = m.lock().unwrap();
                        match d.entries.iter_mut().find(|(k, _)| key_equal(k, &args[0])) {
                            Some(e) => e.1 = new.clone(),
                            None => d.entries.push((args[0].clone(), new.clone())),
                        }
                        drop(d);
                        if nesting_depth(recv, 0) > 40 {
                            return unjudged("cyclic container");
                        }
                        Ok(new)
                    }
                    "to_tuple" => {
                        arity(0)?;
                        Ok(vtuple(self.iterate(recv)?))
                    }
                    _ => unjudged("unmodelled map method"),
                }
            }
            _ => unjudged("method on an unmodelled receiver"),
        }
    }

    fn seq_read_method(&mut self, recv: &V, name: &str, args: &[V]) -> R {
        let items = self.iterate(recv)?;
        match (name, args.len()) {
            ("first", 0) => Ok(items.first().cloned().unwrap_or(V::Null)),
            ("last", 0) => Ok(items.last().cloned().unwrap_or(V::Null)),
            ("get", 1 | 2) => match &args[0] {
                V::Int(n) if *n >= 0 => Ok(items.get(*n as usize).cloned().unwrap_or_else(|| args.get(1).cloned().unwrap_or(V::Null))),
                V::Int(_) => unjudged("negative get index"),
                _ => err("expected a number"),
            },
            ("contains", 1) => {
                for x in &items {
                    if values_equal(x, &args[0])? {
                        return Ok(V::Bool(true));
                    }
                }
                Ok(V::Bool(false))
            }
            ("is_empty", 0) => Ok(V::Bool(items.is_empty())),
            ("size", 0) => Ok(V::Int(items.len() as i64)),
            ("to_tuple", 0) => Ok(vtuple(items)),
            ("to_list", 0) => Ok(vlist(items)),
            _ => err(format!("unexpected arguments for {name}")),
        }
    }
}

/// keys() / values() return iterators: modelled as a lazily consumed adaptor over a snapshot tuple
fn vtuple_iter(items: Vec<V>) -> V {
    V::Adapt(Arc::new(("iter".to_string(), vtuple(items), V::Null)))
}

/// nesting depth of a value; cyclic values report 65. Shared sub-structures are visited once.
pub fn nesting_depth(v: &V, d: usize) -> usize {
    fn ptr_of(v: &V) -> Option<usize> {
        match v {
            V::List(l) => Some(Arc::as_ptr(l) as usize),
            V::Map(m) => Some(Arc::as_ptr(m) as usize),
            V::Tuple(t) => Some(Arc::as_ptr(t) as *const u8 as usize),
            _ => None,
        }
    }
    fn go(v: &V, d: usize, path: &mut Vec<usize>, done: &mut HashMap<usize, usize>) -> usize {
        if d > 64 {
            return 65;
        }
        let Some(p) = ptr_of(v) else { return d };
        if path.contains(&p) {
            return 65; // cycle
        }
        if let Some(h) = done.get(&p) {
            return (d + h).min(65);
        }
        path.push(p);
        let kids: Vec<V> = match v {
            V::List(l) => match l.try_lock() {
                Ok(g) => g.clone(),
                Err(_) => {
                    path.pop();
                    return 65;
                }
            },
            V::Tuple(t) => (**t).clone(),
            V::Map(m) => match m.try_lock() {
                Ok(g) => g.entries.iter().map(|e| e.1.clone()).collect(),
                Err(_) => {
                    path.pop();
                    return 65;
                }
            },
            _ => vec![],
        };
        let mut deepest = d;
        for k in &kids {
            deepest = deepest.max(go(k, d + 1, path, done));
            if deepest >= 65 {
                break;
            }
        }
        path.pop();
        done.insert(p, deepest.saturating_sub(d));
        deepest
    }
    go(v, d, &mut vec![], &mut HashMap::new())
}

/// statements that are pure operators at the top (skipped by the compiler when unused)
pub fn is_pure_top(e: &E) -> bool {
    !matches!(
        e,
        E::Call(..) | E::Pipe(..) | E::Assign(..) | E::MultiAssign(..) | E::Let(..) | E::Export(..) | E::Print(_) | E::If(..) | E::Switch(..) | E::Match(..) | E::While(..) | E::For(..) | E::Loop(..) | E::Try(..) | E::Break(_) | E::Continue | E::Return(_) | E::Yield(_) | E::Throw(_) | E::Fn(..)
    )
}

/// "Descending ranges are considered to be empty" (core library docs)
pub fn range_len(a: i64, b: i64, inc: bool) -> i64 {
    let d = (b as i128 - a as i128) + if inc { 1 } else { 0 };
    d.max(0).min(i64::MAX as i128) as i64
}

pub fn visit_no_nested_fn(e: &E, f: &mut dyn FnMut(&E)) {
    walk(e, f);
}

fn walk(e: &E, f: &mut dyn FnMut(&E)) {
    if let E::Fn(..) = e {
        return;
    }
    f(e);
    let blk = |b: &Vec<E>, f: &mut dyn FnMut(&E)| {
        for x in b {
            walk(x, f)
        }
    };
    match e {
        E::Str(parts) => {
            for p in parts {
                if let SPart::Expr(x, _) = p {
                    walk(x, f)
                }
            }
        }
        E::List(v) | E::Tuple(v) | E::Print(v) => blk(v, f),
        E::Map(v) => {
            for (_, x) in v {
                walk(x, f)
            }
        }
        E::Range(a, b, _) => {
            if let Some(a) = a {
                walk(a, f)
            }
            if let Some(b) = b {
                walk(b, f)
            }
        }
        E::Neg(x) | E::Not(x) | E::Paren(x) | E::Yield(x) | E::Throw(x) | E::Export(_, x) | E::Let(_, x) => walk(x, f),
        E::Bin(_, a, b) | E::Index(a, b) | E::Pipe(a, b) => {
            walk(a, f);
            walk(b, f)
        }
        E::Dot(a, _) => walk(a, f),
        E::Call(c, args) => {
            walk(c, f);
            for (a, _) in args {
                walk(a, f)
            }
        }
        E::If(arms, els) => {
            for (c, b) in arms {
                walk(c, f);
                blk(b, f)
            }
            if let Some(b) = els {
                blk(b, f)
            }
        }
        E::Switch(arms) => {
            for (c, b) in arms {
                if let Some(c) = c {
                    walk(c, f)
                }
                blk(b, f)
            }
        }
        E::Match(s, arms, els) => {
            blk(s, f);
            for a in arms {
                if let Some(g) = &a.guard {
                    walk(g, f)
                }
                blk(&a.body, f)
            }
            if let Some(b) = els {
                blk(b, f)
            }
        }
        E::While(_, c, b) => {
            walk(c, f);
            blk(b, f)
        }
        E::For(_, it, b) => {
            walk(it, f);
            blk(b, f)
        }
        E::Loop(b) => blk(b, f),
        E::Break(x) | E::Return(x) => {
            if let Some(x) = x {
                walk(x, f)
            }
        }
        E::Assign(t, _, v) => {
            walk(t, f);
            walk(v, f)
        }
        E::MultiAssign(ts, v) => {
            blk(ts, f);
            walk(v, f)
        }
        E::Try(b, cs, fin) => {
            blk(b, f);
            for c in cs {
                blk(&c.body, f)
            }
            if let Some(b) = fin {
                blk(b, f)
            }
        }
        _ => {}
    }
}

//! Entry points for the supplementary coverage-guided targets in /verif/fuzz
use crate::core::*;

/// Runs the C06 text exercise; a panic whose signature matches a recorded finding is tolerated,
/// any other panic is re-raised so that the fuzzer records the input.
fn init() {
    // libfuzzer-sys installs a panic hook that aborts; the engine's hook records location and
    // backtrace signature instead, so that recorded findings can be told from new panics
    static ONCE: std::sync::Once = std::sync::Once::new();
    ONCE.call_once(install_panic_hook);
}

pub fn exercise_text_tolerating_known(prop: &str, text: &str) {
    init();
    let r = guarded(|| crate::props::c06::exercise_text(text, false));
    if let Err((loc, msg)) = r {
        let sig = crate::props::c06::text_panic_sig(text, &loc, &msg);
        let findings = load_findings();
        if match_finding(&findings, prop, &sig).is_some() || panic_is_harness(&loc) && false {
            return;
        }
        // resource exhaustion is not judged
        if sig.contains("capacity overflow") || sig.contains("memory allocation") {
            return;
        }
        panic!("C06 violation: unlisted panic {sig}\ninput: {text:?}");
    }
}

thread_local! {
    static RT: std::cell::RefCell<Option<crate::props::c20::Rt>> = const { std::cell::RefCell::new(None) };
}

pub fn serde_text(fmt: &str, text: &str) -> Option<Fail> {
    init();
    RT.with(|cell| {
        let mut slot = cell.borrow_mut();
        if slot.is_none() {
            *slot = Some(crate::props::c20::new_rt());
        }
        match guarded(|| crate::props::c20::eval_text_pub(slot.as_mut().unwrap(), text, fmt)) {
            Ok(ev) => ev.fail,
            Err((loc, msg)) => Some(Fail::new(panic_sig(&loc, &msg), format!("panic at {loc}: {msg}\ninput: {text:?}"))),
        }
    })
}

pub mod core;
pub mod corpus;
pub mod kx;
pub mod props;
pub mod textgen;

//! Engine-side AST for the modelled Koto subset and its printer.
//! Independent of koto_parser: the printer guarantees that Koto's precedence-climbing parser
//! rebuilds exactly this tree (parentheses are inserted from the binding-power table).
use serde::{Deserialize, Serialize};

#[derive(Clone, Copy, Debug, PartialEq, Eq, Hash, Serialize, Deserialize)]
pub enum Op {
    Add,
    Sub,
    Mul,
    Div,
    Rem,
    Pow,
    Eq,
    Ne,
    Lt,
    Le,
    Gt,
    Ge,
    And,
    Or,
}

impl Op {
    pub const ALL: [Op; 14] = [Op::Add, Op::Sub, Op::Mul, Op::Div, Op::Rem, Op::Pow, Op::Eq, Op::Ne, Op::Lt, Op::Le, Op::Gt, Op::Ge, Op::And, Op::Or];
    pub const ARITH: [Op; 6] = [Op::Add, Op::Sub, Op::Mul, Op::Div, Op::Rem, Op::Pow];
    pub const CMP: [Op; 6] = [Op::Eq, Op::Ne, Op::Lt, Op::Le, Op::Gt, Op::Ge];
    pub fn text(self) -> &'static str {
        match self {
            Op::Add => "+",
            Op::Sub => "-",
            Op::Mul => "*",
            Op::Div => "/",
            Op::Rem => "%",
            Op::Pow => "^",
            Op::Eq => "==",
            Op::Ne => "!=",
            Op::Lt => "<",
            Op::Le => "<=",
            Op::Gt => ">",
            Op::Ge => ">=",
            Op::And => "and",
            Op::Or => "or",
        }
    }
    /// (level, right_assoc) from the language's binding-power table
    pub fn level(self) -> (u8, bool) {
        match self {
            Op::Or => (5, false),
            Op::And => (7, false),
            Op::Eq | Op::Ne => (9, true),
            Op::Lt | Op::Le | Op::Gt | Op::Ge => (11, true),
            Op::Add | Op::Sub => (13, false),
            Op::Mul | Op::Div | Op::Rem => (15, false),
            Op::Pow => (17, false),
        }
    }
    pub fn is_cmp(self) -> bool {
        matches!(self, Op::Eq | Op::Ne | Op::Lt | Op::Le | Op::Gt | Op::Ge)
    }
    pub fn is_arith(self) -> bool {
        matches!(self, Op::Add | Op::Sub | Op::Mul | Op::Div | Op::Rem | Op::Pow)
    }
}

#[derive(Clone, Debug, PartialEq, Serialize, Deserialize)]
pub enum SPart {
    Lit(String),
    /// interpolated expression with optional raw format spec text (after ':')
    Expr(E, Option<String>),
}

#[derive(Clone, Debug, PartialEq, Serialize, Deserialize)]
pub struct FnArg {
    pub pat: Pat,
    pub default: Option<E>,
    pub variadic: bool,
}

/// Patterns: used by function arguments (unpacking), match arms, for/multi-assign targets
#[derive(Clone, Debug, PartialEq, Serialize, Deserialize)]
pub enum Pat {
    /// literal pattern (match only)
    Lit(E),
    /// identifier with optional type hint
    Id(String, Option<String>),
    /// `_` or `_name`, optional type hint
    Wild(Option<String>, Option<String>),
    /// `...` / `name...` inside a nested pattern
    Rest(Option<String>),
    /// (a, b, ...) tuple pattern; bool = written with [] (list pattern)
    Seq(Vec<Pat>, bool),
    /// {a, b as c}
    Map(Vec<(String, Option<String>)>),
}

#[derive(Clone, Debug, PartialEq, Serialize, Deserialize)]
pub struct Arm {
    /// alternatives (`or`), each a list of comma patterns
    pub alts: Vec<Vec<Pat>>,
    pub guard: Option<E>,
    pub body: Vec<E>,
}

#[derive(Clone, Debug, PartialEq, Serialize, Deserialize)]
pub struct Catch {
    pub name: String,
    pub ty: Option<String>,
    pub body: Vec<E>,
}

#[derive(Clone, Debug, PartialEq, Serialize, Deserialize)]
pub enum E {
    Null,
    Bool(bool),
    Int(i64),
    Float(f64),
    Str(Vec<SPart>),
    Id(String),
    List(Vec<E>),
    Tuple(Vec<E>),
    /// map literal with identifier keys (inline braces form)
    Map(Vec<(String, E)>),
    Range(Option<Box<E>>, Option<Box<E>>, bool),
    Neg(Box<E>),
    Not(Box<E>),
    Bin(Op, Box<E>, Box<E>),
    Paren(Box<E>),
    Index(Box<E>, Box<E>),
    Dot(Box<E>, String),
    /// call; bool per arg = packed (`xs...`)
    Call(Box<E>, Vec<(E, bool)>),
    /// a -> f b
    Pipe(Box<E>, Box<E>),
    If(Vec<(E, Vec<E>)>, Option<Vec<E>>),
    Switch(Vec<(Option<E>, Vec<E>)>),
    Match(Vec<E>, Vec<Arm>, Option<Vec<E>>),
    While(bool, Box<E>, Vec<E>),
    For(Vec<Pat>, Box<E>, Vec<E>),
    Loop(Vec<E>),
    Break(Option<Box<E>>),
    Continue,
    Return(Option<Box<E>>),
    Yield(Box<E>),
    Throw(Box<E>),
    /// target (Id / Index / Dot), compound op, value
    Assign(Box<E>, Option<Op>, Box<E>),
    /// a, b, _ = value   (targets: Id / Wild as Id("_") / Index / Dot)
    MultiAssign(Vec<E>, Box<E>),
    /// let x: T = value
    Let(Vec<(String, Option<String>)>, Box<E>),
    Fn(Vec<FnArg>, Option<String>, Vec<E>),
    Try(Vec<E>, Vec<Catch>, Option<Vec<E>>),
    /// print e1, e2
    Print(Vec<E>),
    Export(String, Box<E>),
}

pub fn id(s: &str) -> E {
    E::Id(s.to_string())
}
pub fn bx(e: E) -> Box<E> {
    Box::new(e)
}
pub fn lit_str(s: &str) -> E {
    E::Str(vec![SPart::Lit(s.to_string())])
}

impl E {
    pub fn is_atom(&self) -> bool {
        matches!(
            self,
            E::Null | E::Bool(_) | E::Int(_) | E::Float(_) | E::Str(_) | E::Id(_) | E::List(_) | E::Map(_) | E::Paren(_) | E::Index(..) | E::Dot(..)
        ) || matches!(self, E::Call(_, _)) || matches!(self, E::Tuple(_))
    }
    pub fn is_compound(&self) -> bool {
        matches!(self, E::If(..) | E::Switch(..) | E::Match(..) | E::While(..) | E::For(..) | E::Loop(..) | E::Try(..) | E::Fn(..))
    }
    /// Number of nodes
    pub fn size(&self) -> usize {
        let mut n = 0;
        self.visit(&mut |_| n += 1);
        n
    }
    pub fn visit(&self, f: &mut dyn FnMut(&E)) {
        f(self);
        let blk = |b: &Vec<E>, f: &mut dyn FnMut(&E)| {
            for e in b {
                e.visit(f)
            }
        };
        match self {
            E::Str(parts) => {
                for p in parts {
                    if let SPart::Expr(e, _) = p {
                        e.visit(f)
                    }
                }
            }
            E::List(v) | E::Tuple(v) | E::Print(v) => blk(v, f),
            E::Map(v) => {
                for (_, e) in v {
                    e.visit(f)
                }
            }
            E::Range(a, b, _) => {
                if let Some(a) = a {
                    a.visit(f)
                }
                if let Some(b) = b {
                    b.visit(f)
                }
            }
            E::Neg(e) | E::Not(e) | E::Paren(e) | E::Yield(e) | E::Throw(e) | E::Export(_, e) | E::Let(_, e) => e.visit(f),
            E::Bin(_, a, b) | E::Index(a, b) | E::Pipe(a, b) => {
                a.visit(f);
                b.visit(f)
            }
            E::Dot(a, _) => a.visit(f),
            E::Call(c, args) => {
                c.visit(f);
                for (a, _) in args {
                    a.visit(f)
                }
            }
            E::If(arms, els) => {
                for (c, b) in arms {
                    c.visit(f);
                    blk(b, f)
                }
                if let Some(b) = els {
                    blk(b, f)
                }
            }
            E::Switch(arms) => {
                for (c, b) in arms {
                    if let Some(c) = c {
                        c.visit(f)
                    }
                    blk(b, f)
                }
            }
            E::Match(subj, arms, els) => {
                blk(subj, f);
                for a in arms {
                    if let Some(g) = &a.guard {
                        g.visit(f)
                    }
                    blk(&a.body, f)
                }
                if let Some(b) = els {
                    blk(b, f)
                }
            }
            E::While(_, c, b) => {
                c.visit(f);
                blk(b, f)
            }
            E::For(_, it, b) => {
                it.visit(f);
                blk(b, f)
            }
            E::Loop(b) => blk(b, f),
            E::Break(e) | E::Return(e) => {
                if let Some(e) = e {
                    e.visit(f)
                }
            }
            E::Assign(t, _, v) => {
                t.visit(f);
                v.visit(f)
            }
            E::MultiAssign(ts, v) => {
                blk(ts, f);
                v.visit(f)
            }
            E::Fn(args, _, body) => {
                for a in args {
                    if let Some(d) = &a.default {
                        d.visit(f)
                    }
                }
                blk(body, f)
            }
            E::Try(b, cs, fin) => {
                blk(b, f);
                for c in cs {
                    blk(&c.body, f)
                }
                if let Some(b) = fin {
                    blk(b, f)
                }
            }
            _ => {}
        }
    }
}

/// Does a binary-op child need parentheses so that Koto's parser rebuilds this tree?
pub fn child_needs_parens(parent: Op, child: &E, is_right: bool) -> bool {
    match child {
        E::Bin(cop, _, _) => {
            let (pl, pr) = parent.level();
            let (cl, _) = cop.level();
            if cl < pl {
                true
            } else if cl == pl {
                // same level: left-assoc parents take an unparenthesised child on the left only,
                // right-assoc parents on the right only
                if pr { !is_right } else { is_right }
            } else {
                false
            }
        }
        E::Not(_) => true,
        E::Neg(_) => false,
        E::Int(n) if *n < 0 => false,
        E::Float(x) if *x < 0.0 => false,
        E::Range(..) | E::Pipe(..) | E::Assign(..) | E::MultiAssign(..) | E::Yield(_) | E::Throw(_) | E::Return(_) | E::Break(_) | E::Let(..) | E::Export(..) => true,
        e if e.is_compound() => true,
        E::Print(_) => true,
        _ => false,
    }
}

pub fn fmt_float(x: f64) -> String {
    // literal spelling of a finite float that Koto reads back as the same f64
    if x == x.trunc() && x.abs() < 1e15 {
        format!("{:.1}", x)
    } else {
        let s = format!("{:e}", x);
        // rust prints 1.5e300 / 1e-7: Koto accepts `1.5e300`, `1e-7`
        if s.contains('.') || !s.contains('e') {
            s
        } else {
            // "1e-7" -> "1.0e-7"
            let (m, e) = s.split_once('e').unwrap();
            format!("{m}.0e{e}")
        }
    }
}

#[derive(Clone, Debug, Default)]
pub struct Layout {
    /// stream of layout choices; empty = canonical layout
    pub choices: Vec<u8>,
    pos: std::cell::Cell<usize>,
    /// no comments / blank lines / trailing whitespace (spelling choices only)
    pub no_trivia: bool,
}
impl Layout {
    pub fn canonical() -> Self {
        Layout::default()
    }
    pub fn new(choices: Vec<u8>) -> Self {
        Layout { choices, pos: std::cell::Cell::new(0), no_trivia: false }
    }
    /// next choice in 0..n (0 for the canonical layout)
    pub fn pick(&self, n: u8) -> u8 {
        if self.choices.is_empty() || n <= 1 {
            return 0;
        }
        let p = self.pos.get();
        self.pos.set(p + 1);
        self.choices[p % self.choices.len()] % n
    }
}

pub struct Printer<'a> {
    pub out: String,
    pub layout: &'a Layout,
    /// > 0 while printing a header (condition, iterable, subject): no line breaks there
    pub no_break: u32,
    /// > 0 inside inline containers: function bodies must stay on the line
    pub inline_only: u32,
    /// indentation of the statement being printed (continuation lines go deeper)
    pub cur_ind: usize,
    /// line breaks already placed in the current statement (each continues deeper)
    pub breaks: usize,
    /// > 0 while printing a chain that is the whole right-hand side of an assignment
    pub chain_ok: u32,
}

pub fn print_program(prog: &[E], layout: &Layout) -> String {
    let mut p = Printer { out: String::new(), layout, no_break: 0, inline_only: 0, cur_ind: 0, breaks: 0, chain_ok: 0 };
    p.block(prog, 0);
    p.out
}

pub fn print_expr(e: &E) -> String {
    let l = Layout::canonical();
    let mut p = Printer { out: String::new(), layout: &l, no_break: 0, inline_only: 0, cur_ind: 0, breaks: 0, chain_ok: 0 };
    p.expr(e, 0);
    p.out
}

fn escape_lit(s: &str, quote: char) -> String {
    let mut o = String::new();
    for c in s.chars() {
        match c {
            '\\' => o.push_str("\\\\"),
            '\n' => o.push_str("\\n"),
            '\r' => o.push_str("\\r"),
            '\t' => o.push_str("\\t"),
            '{' => o.push_str("\\{"),
            c if c == quote => {
                o.push('\\');
                o.push(c)
            }
            c => o.push(c),
        }
    }
    o
}

impl Printer<'_> {
    fn indent(&mut self, ind: usize) {
        for _ in 0..ind {
            self.out.push(' ');
        }
    }

    pub fn block(&mut self, b: &[E], ind: usize) {
        for e in b {
            // layout freedom: blank lines and comments between statements
            match if self.layout.no_trivia { 0 } else { self.layout.pick(8) } {
                1 => self.out.push('\n'),
                2 => {
                    self.indent(ind);
                    self.out.push_str(["# comment\n", "# comment é 語\n", "# 😀 à\n"][self.layout.pick(3) as usize]);
                }
                3 => {
                    self.indent(ind);
                    self.out.push_str("#- multi\n   line -#\n");
                }
                4 => self.out.push_str("   \n"),
                _ => {}
            }
            self.indent(ind);
            // a line that starts with '-' would continue the previous expression: parenthesise
            let saved = std::mem::take(&mut self.out);
            let saved_ind = (self.cur_ind, self.breaks);
            self.cur_ind = ind;
            self.breaks = 0;
            self.stmt(e, ind);
            self.cur_ind = saved_ind.0;
            self.breaks = saved_ind.1;
            let text = std::mem::replace(&mut self.out, saved);
            if text.starts_with('-') {
                self.out.push('(');
                self.out.push_str(&text);
                self.out.push(')');
            } else {
                self.out.push_str(&text);
            }
            match if self.layout.no_trivia { 0 } else { self.layout.pick(6) } {
                1 => self.out.push_str("  "),
                2 => self.out.push_str([" # trailing", " # trailing é", " # 語"][self.layout.pick(3) as usize]),
                _ => {}
            }
            self.out.push('\n');
        }
    }

    /// a block in a position that may be inline (`then x`) when it is a single simple expression
    fn is_inlineable(b: &[E]) -> bool {
        b.len() == 1 && !b[0].is_compound() && !matches!(b[0], E::Assign(..) | E::MultiAssign(..) | E::Let(..) | E::Export(..)) && Self::no_nested_block(&b[0])
    }

    fn no_nested_block(e: &E) -> bool {
        let mut ok = true;
        e.visit(&mut |x| {
            if matches!(x, E::Fn(..) | E::While(..) | E::For(..) | E::Loop(..) | E::Try(..) | E::Match(..) | E::Switch(..)) {
                ok = false
            }
            if let E::If(arms, _) = x {
                if arms.iter().any(|(_, b)| b.len() != 1) {
                    ok = false
                }
            }
        });
        ok
    }

    fn stmt(&mut self, e: &E, ind: usize) {
        match e {
            E::If(arms, els) => {
                // block form, or inline form when every branch is a single simple expression
                let inline_ok = arms.len() == 1 && arms.iter().all(|(_, b)| Self::is_inlineable(b)) && els.as_ref().map(|b| Self::is_inlineable(b)).unwrap_or(true);
                if inline_ok && self.layout.pick(2) == 1 {
                    self.inline_if(arms, els);
                    return;
                }
                for (i, (c, b)) in arms.iter().enumerate() {
                    if i == 0 {
                        self.out.push_str("if ");
                    } else {
                        self.indent(ind);
                        self.out.push_str("else if ");
                    }
                    self.header(c);
                    self.out.push('\n');
                    self.block(b, ind + 2);
                }
                if let Some(b) = els {
                    self.indent(ind);
                    self.out.push_str("else\n");
                    self.block(b, ind + 2);
                }
                self.trim_nl();
            }
            E::Switch(arms) => {
                self.out.push_str("switch\n");
                for (c, b) in arms {
                    self.indent(ind + 2);
                    match c {
                        Some(c) => self.header(c),
                        None => self.out.push_str("else"),
                    }
                    self.arm_body(b, ind + 2, c.is_none());
                }
                self.trim_nl();
            }
            E::Match(subj, arms, els) => {
                self.out.push_str("match ");
                for (i, s) in subj.iter().enumerate() {
                    if i > 0 {
                        self.out.push_str(", ");
                    }
                    self.header(s);
                }
                self.out.push('\n');
                for a in arms {
                    self.indent(ind + 2);
                    for (ai, alt) in a.alts.iter().enumerate() {
                        if ai > 0 {
                            self.out.push_str(" or ");
                        }
                        for (pi, p) in alt.iter().enumerate() {
                            if pi > 0 {
                                self.out.push_str(", ");
                            }
                            self.pat(p);
                        }
                    }
                    if let Some(g) = &a.guard {
                        self.out.push_str(" if ");
                        self.header(g);
                    }
                    self.arm_body(&a.body, ind + 2, false);
                }
                if let Some(b) = els {
                    self.indent(ind + 2);
                    self.out.push_str("else");
                    self.arm_body(b, ind + 2, true);
                }
                self.trim_nl();
            }
            E::While(until, c, b) => {
                self.out.push_str(if *until { "until " } else { "while " });
                self.header(c);
                self.out.push('\n');
                self.block(b, ind + 2);
                self.trim_nl();
            }
            E::For(pats, it, b) => {
                self.out.push_str("for ");
                for (i, p) in pats.iter().enumerate() {
                    if i > 0 {
                        self.out.push_str(", ");
                    }
                    self.pat(p);
                }
                self.out.push_str(" in ");
                self.header(it);
                self.out.push('\n');
                self.block(b, ind + 2);
                self.trim_nl();
            }
            E::Loop(b) => {
                self.out.push_str("loop\n");
                self.block(b, ind + 2);
                self.trim_nl();
            }
            E::Try(b, cs, fin) => {
                self.out.push_str("try\n");
                self.block(b, ind + 2);
                for c in cs {
                    self.indent(ind);
                    self.out.push_str("catch ");
                    self.out.push_str(&c.name);
                    if let Some(t) = &c.ty {
                        self.out.push_str(": ");
                        self.out.push_str(t);
                    }
                    self.out.push('\n');
                    self.block(&c.body, ind + 2);
                }
                if let Some(f) = fin {
                    self.indent(ind);
                    self.out.push_str("finally\n");
                    self.block(f, ind + 2);
                }
                self.trim_nl();
            }
            E::Assign(t, op, v) => {
                self.expr(t, 0);
                match op {
                    Some(op) => {
                        self.out.push(' ');
                        self.out.push_str(op.text());
                        self.out.push_str("= ");
                    }
                    None => self.out.push_str(" = "),
                }
                self.rhs(v, ind);
            }
            E::MultiAssign(ts, v) => {
                for (i, t) in ts.iter().enumerate() {
                    if i > 0 {
                        self.out.push_str(", ");
                    }
                    self.expr(t, 0);
                }
                self.out.push_str(" = ");
                self.rhs(v, ind);
            }
            E::Let(names, v) => {
                self.out.push_str("let ");
                for (i, (n, t)) in names.iter().enumerate() {
                    if i > 0 {
                        self.out.push_str(", ");
                    }
                    self.out.push_str(n);
                    if let Some(t) = t {
                        self.out.push_str(": ");
                        self.out.push_str(t);
                    }
                }
                self.out.push_str(" = ");
                self.rhs(v, ind);
            }
            E::Export(n, v) => {
                self.out.push_str("export ");
                self.out.push_str(n);
                self.out.push_str(" = ");
                self.rhs(v, ind);
            }
            E::Return(Some(v)) => {
                self.out.push_str("return ");
                self.rhs(v, ind);
            }
            E::Break(Some(v)) => {
                self.out.push_str("break ");
                self.rhs(v, ind);
            }
            E::Throw(v) => {
                self.out.push_str("throw ");
                self.expr(v, 0);
            }
            E::Yield(v) => {
                self.out.push_str("yield ");
                self.expr(v, 0);
            }
            E::Print(args) => {
                let parens = args.is_empty() || self.layout.pick(2) == 1 || matches!(args.first(), Some(E::Neg(_)) | Some(E::Paren(_)) | Some(E::Tuple(_)) | Some(E::List(_)) | Some(E::Map(_)) | Some(E::Not(_))) || matches!(args.first(), Some(E::Int(n)) if *n < 0) || matches!(args.first(), Some(E::Float(x)) if *x < 0.0) || args.iter().any(|a| Self::starts_ambiguous(a));
                self.out.push_str("print");
                self.out.push(if parens { '(' } else { ' ' });
                for (i, a) in args.iter().enumerate() {
                    if i > 0 {
                        self.out.push_str(", ");
                    }
                    self.arg(a, ind);
                }
                if parens {
                    self.out.push(')');
                }
            }
            other => self.expr_ind(other, 0, ind),
        }
    }

    /// arguments of paren-free calls must not start with something that reads as an operator
    fn starts_ambiguous(e: &E) -> bool {
        match e {
            E::Bin(_, l, _) => Self::starts_ambiguous(l),
            E::Neg(_) | E::Paren(_) | E::Tuple(_) | E::List(_) | E::Map(_) | E::Not(_) | E::Range(..) => true,
            E::Int(n) => *n < 0,
            E::Float(x) => *x < 0.0,
            E::Index(a, _) | E::Dot(a, _) => Self::starts_ambiguous(a),
            E::Call(c, _) => Self::starts_ambiguous(c),
            e if e.is_compound() => true,
            _ => false,
        }
    }

    /// print an expression in a header position (no line breaks allowed)
    fn header(&mut self, e: &E) {
        self.no_break += 1;
        self.expr(e, 0);
        self.no_break -= 1;
    }

    fn trim_nl(&mut self) {
        while self.out.ends_with('\n') {
            self.out.pop();
        }
    }

    fn arm_body(&mut self, b: &[E], ind: usize, is_else: bool) {
        if Self::is_inlineable(b) && self.layout.pick(3) != 1 {
            self.out.push_str(if is_else { " " } else { " then " });
            self.header(&b[0]);
            self.out.push('\n');
        } else {
            self.out.push_str(if is_else { "\n" } else { " then\n" });
            self.block(b, ind + 2);
        }
    }

    fn inline_if(&mut self, arms: &[(E, Vec<E>)], els: &Option<Vec<E>>) {
        self.no_break += 1;
        self.out.push_str("if ");
        self.expr(&arms[0].0, 0);
        self.out.push_str(" then ");
        self.expr(&arms[0].1[0], 0);
        if let Some(b) = els {
            self.out.push_str(" else ");
            self.expr(&b[0], 0);
        }
        self.no_break -= 1;
    }

    /// right-hand side of an assignment: compound constructs go in block form on the same line
    /// chains rooted in an identifier or a string may be broken before `.`
    fn simple_chain_root(e: &E) -> bool {
        match e {
            E::Id(_) | E::Str(_) => true,
            E::Dot(a, _) | E::Index(a, _) | E::Call(a, _) => Self::simple_chain_root(a),
            _ => false,
        }
    }

    fn plain_str(parts: &[SPart]) -> bool {
        parts.iter().all(|p| matches!(p, SPart::Lit(_)))
    }

    /// a call whose arguments are plain atoms (nothing in them can itself span lines)
    fn multiline_args_ok(e: &E) -> bool {
        match e {
            E::Call(c, args) => {
                !args.is_empty()
                    && matches!(**c, E::Id(_) | E::Dot(..) | E::Index(..))
                    && args.iter().all(|(a, packed)| !*packed && (matches!(a, E::Int(n) if *n >= 0) || matches!(a, E::Id(_) | E::Bool(_) | E::Null | E::Float(_)) || matches!(a, E::Str(parts) if Self::plain_str(parts))))
            }
            _ => false,
        }
    }

    fn rhs(&mut self, v: &E, ind: usize) {
        match v {
            E::If(arms, els) => {
                let inline_ok = arms.len() == 1 && arms.iter().all(|(_, b)| Self::is_inlineable(b)) && els.as_ref().map(|b| Self::is_inlineable(b)).unwrap_or(true);
                if inline_ok && self.layout.pick(2) == 0 {
                    self.inline_if(arms, els);
                } else {
                    self.stmt(v, ind);
                }
            }
            E::Switch(..) | E::Match(..) | E::While(..) | E::For(..) | E::Loop(..) | E::Try(..) => self.stmt(v, ind),
            E::Map(entries) if !entries.is_empty() && entries.iter().any(|(_, x)| matches!(x, E::Fn(_, _, b) if !Self::is_inlineable(b))) => {
                // block map: one entry per indented line
                let saved = self.cur_ind;
                self.cur_ind = ind + 2;
                for (k, x) in entries {
                    self.out.push('\n');
                    self.indent(ind + 2);
                    self.out.push_str(k);
                    self.out.push_str(": ");
                    self.expr_ind(x, 0, ind + 2);
                }
                self.cur_ind = saved;
            }
            E::Fn(..) => self.expr_ind(v, 0, ind),
            E::Print(..) => self.stmt(v, ind),
            // spelling freedom: a tuple of two or more simple values may be written without parentheses
            E::Tuple(items)
                if items.len() >= 2
                    && self.no_break == 0
                    && self.inline_only == 0
                    && items.iter().all(|x| matches!(x, E::Int(n) if *n >= 0) || matches!(x, E::Id(_) | E::Str(_) | E::Index(..) | E::Dot(..) | E::Bool(_) | E::Null))
                    // (`a += 1, 2` is the tuple `(a += 1), 2`: not after a compound assignment operator)
                    && !["+= ", "-= ", "*= ", "/= ", "%= ", "^= "].iter().any(|op| self.out.ends_with(op))
                    && self.layout.pick(2) == 1 =>
            {
                self.inline_only += 1;
                self.items(items, ind);
                self.inline_only -= 1;
            }
            _ => {
                // layout freedom: the value starts on its own, deeper indented line
                let chain_like = matches!(v, E::Id(_) | E::Dot(..) | E::Call(..) | E::Index(..) | E::Str(_) | E::Bin(..) | E::List(_));
                if chain_like && self.no_break == 0 && self.inline_only == 0 && self.out.ends_with("= ") && self.layout.pick(10) == 1 {
                    self.out.pop();
                    self.out.push('\n');
                    self.indent(ind + 2);
                    let saved = (self.cur_ind, self.breaks);
                    self.cur_ind = ind + 2;
                    self.breaks = 0;
                    let chain = matches!(v, E::Dot(..) | E::Call(..) | E::Index(..)) && Self::simple_chain_root(v);
                    self.chain_ok += chain as u32;
                    self.expr_ind(v, 0, ind + 2);
                    self.chain_ok -= chain as u32;
                    self.cur_ind = saved.0;
                    self.breaks = saved.1;
                } else if let (E::Call(c, args), true) = (v, self.no_break == 0 && self.inline_only == 0 && Self::multiline_args_ok(v) && self.layout.pick(5) == 1) {
                    // layout freedom: the arguments of a call that ends the statement may each sit on their own,
                    // deeper indented line; the closing parenthesis follows the last one or sits on its own
                    // line at the indentation of the line that holds the opening one
                    let chain = Self::simple_chain_root(c);
                    self.chain_ok += chain as u32;
                    self.root(c, ind);
                    self.chain_ok -= chain as u32;
                    // (a statement is printed into its own buffer: its first line sits at cur_ind)
                    let line_indent = match self.out.rfind('\n') {
                        Some(i) => self.out[i + 1..].chars().take_while(|ch| *ch == ' ').count(),
                        None => self.cur_ind,
                    };
                    let deeper = line_indent + 2 + 2 * self.layout.pick(2) as usize;
                    self.out.push('(');
                    self.inline_only += 1;
                    for (i, (a, _)) in args.iter().enumerate() {
                        self.out.push('\n');
                        self.indent(deeper);
                        self.arg(a, ind);
                        if i + 1 < args.len() {
                            self.out.push(',');
                        }
                    }
                    self.inline_only -= 1;
                    if self.layout.pick(2) == 1 {
                        self.out.push('\n');
                        self.indent(line_indent);
                    }
                    self.out.push(')');
                } else {
                    let chain = matches!(v, E::Dot(..) | E::Call(..) | E::Index(..)) && Self::simple_chain_root(v);
                    self.chain_ok += chain as u32;
                    self.expr_ind(v, 0, ind);
                    self.chain_ok -= chain as u32;
                }
            }
        }
    }

    fn arg(&mut self, a: &E, ind: usize) {
        if a.is_compound() && !matches!(a, E::Fn(..)) || matches!(a, E::Assign(..) | E::MultiAssign(..) | E::Print(..)) {
            self.out.push('(');
            self.expr_ind(a, 0, ind);
            self.out.push(')');
        } else {
            self.expr_ind(a, 0, ind);
        }
    }

    pub fn pat(&mut self, p: &Pat) {
        match p {
            Pat::Lit(e) => self.expr(e, 0),
            Pat::Id(n, t) => {
                self.out.push_str(n);
                if let Some(t) = t {
                    self.out.push_str(": ");
                    self.out.push_str(t);
                }
            }
            Pat::Wild(n, t) => {
                self.out.push('_');
                if let Some(n) = n {
                    self.out.push_str(n);
                }
                if let Some(t) = t {
                    self.out.push_str(": ");
                    self.out.push_str(t);
                }
            }
            Pat::Rest(n) => {
                if let Some(n) = n {
                    self.out.push_str(n);
                }
                self.out.push_str("...");
            }
            Pat::Seq(ps, list) => {
                self.out.push(if *list { '[' } else { '(' });
                for (i, p) in ps.iter().enumerate() {
                    if i > 0 {
                        self.out.push_str(", ");
                    }
                    self.pat(p);
                }
                self.out.push(if *list { ']' } else { ')' });
            }
            Pat::Map(es) => {
                self.out.push('{');
                for (i, (k, r)) in es.iter().enumerate() {
                    if i > 0 {
                        self.out.push_str(", ");
                    }
                    self.out.push_str(k);
                    if let Some(r) = r {
                        self.out.push_str(" as ");
                        self.out.push_str(r);
                    }
                }
                self.out.push('}');
            }
        }
    }

    pub fn expr(&mut self, e: &E, ind_hint: usize) {
        self.expr_ind(e, 0, ind_hint)
    }

    fn paren_if(&mut self, cond: bool, e: &E, ind: usize) {
        if cond {
            self.out.push('(');
            self.expr_ind(e, 0, ind);
            self.out.push(')');
        } else {
            self.expr_ind(e, 0, ind);
        }
    }

    /// postfix roots (indexing, access, calls) need an atom on the left
    fn root(&mut self, e: &E, ind: usize) {
        let atom = matches!(e, E::Id(_) | E::Str(_) | E::List(_) | E::Map(_) | E::Paren(_) | E::Index(..) | E::Dot(..) | E::Call(..) | E::Tuple(_))
            || matches!(e, E::Int(n) if *n >= 0)
            || matches!(e, E::Float(x) if *x >= 0.0);
        // number literals followed by '.' would lex as floats / ranges: parenthesise
        let num = matches!(e, E::Int(_) | E::Float(_));
        self.paren_if(!atom || num, e, ind);
    }

    fn expr_ind(&mut self, e: &E, _min: u8, ind: usize) {
        match e {
            E::Null => self.out.push_str("null"),
            E::Bool(b) => self.out.push_str(if *b { "true" } else { "false" }),
            E::Int(n) => self.out.push_str(&n.to_string()),
            E::Float(x) => self.out.push_str(&fmt_float(*x)),
            E::Str(parts) => {
                let q = if self.layout.pick(2) == 1 { '"' } else { '\'' };
                self.out.push(q);
                for p in parts {
                    match p {
                        SPart::Lit(s) => self.out.push_str(&escape_lit(s, q)),
                        SPart::Expr(e, spec) => {
                            self.out.push('{');
                            // a map literal / string with same quote directly inside would confuse: wrap
                            let saved = std::mem::take(&mut self.out);
                            self.inline_only += 1;
                            self.no_break += 1;
                            self.expr_ind(e, 0, ind);
                            self.no_break -= 1;
                            self.inline_only -= 1;
                            let inner = std::mem::replace(&mut self.out, saved);
                            let needs = matches!(e, E::Map(_)) || e.is_compound() || matches!(e, E::Assign(..) | E::Print(..) | E::Not(_));
                            if needs {
                                self.out.push('(');
                                self.out.push_str(&inner);
                                self.out.push(')');
                            } else {
                                self.out.push_str(&inner);
                            }
                            if let Some(s) = spec {
                                self.out.push(':');
                                self.out.push_str(s);
                            }
                            self.out.push('}');
                        }
                    }
                }
                self.out.push(q);
            }
            E::Id(s) => self.out.push_str(s),
            E::List(v) => {
                self.out.push('[');
                self.inline_only += 1;
                self.items(v, ind);
                self.inline_only -= 1;
                self.out.push(']');
            }
            E::Tuple(v) => {
                self.out.push('(');
                self.inline_only += 1;
                self.items(v, ind);
                self.inline_only -= 1;
                if v.len() == 1 {
                    self.out.push(',');
                }
                self.out.push(')');
            }
            E::Map(v) => {
                self.out.push('{');
                self.inline_only += 1;
                for (i, (k, e)) in v.iter().enumerate() {
                    if i > 0 {
                        self.out.push_str(", ");
                    }
                    self.out.push_str(k);
                    self.out.push_str(": ");
                    self.arg(e, ind);
                }
                self.inline_only -= 1;
                self.out.push('}');
            }
            E::Range(a, b, inc) => {
                if let Some(a) = a {
                    let simple = matches!(**a, E::Int(_) | E::Id(_) | E::Paren(_)) && !matches!(**a, E::Int(n) if n < 0);
                    self.paren_if(!simple, a, ind);
                }
                self.out.push_str(if *inc { "..=" } else { ".." });
                if let Some(b) = b {
                    let simple = matches!(**b, E::Int(_) | E::Id(_) | E::Paren(_)) && !matches!(**b, E::Int(n) if n < 0);
                    self.paren_if(!simple, b, ind);
                }
            }
            E::Neg(x) => {
                self.out.push('-');
                let simple = matches!(**x, E::Id(_) | E::Paren(_) | E::Index(..) | E::Dot(..) | E::Call(..)) || matches!(**x, E::Int(n) if n >= 0) || matches!(**x, E::Float(f) if f >= 0.0);
                self.paren_if(!simple, x, ind);
            }
            E::Not(x) => {
                self.out.push_str("not ");
                self.expr_ind(x, 0, ind);
            }
            E::Bin(op, l, r) => {
                let lp = child_needs_parens(*op, l, false);
                let rp = child_needs_parens(*op, r, true);
                self.paren_if(lp, l, ind);
                // layout freedom: break after the operator onto an indented line
                if self.no_break == 0 && self.layout.pick(12) == 1 {
                    self.out.push(' ');
                    self.out.push_str(op.text());
                    self.out.push('\n');
                    let _ = ind;
                    self.breaks += 1;
                    self.indent(self.cur_ind + 4 * self.breaks + 2 * self.layout.pick(2) as usize);
                } else {
                    self.out.push(' ');
                    self.out.push_str(op.text());
                    self.out.push(' ');
                }
                self.paren_if(rp, r, ind);
            }
            E::Paren(x) => {
                // layout freedom inside brackets: a left-associative chain of one operator may put every
                // operand on its own line, all at the same indentation
                if let E::Bin(op, ..) = &**x {
                    if matches!(op, Op::Add | Op::Mul | Op::And | Op::Or) && self.no_break == 0 && self.inline_only == 0 && self.layout.pick(8) == 1 {
                        let mut operands: Vec<&E> = vec![];
                        let mut cur: &E = x;
                        while let E::Bin(o2, l, r) = cur {
                            if o2 != op || child_needs_parens(*op, r, true) {
                                break;
                            }
                            operands.push(r);
                            cur = l;
                        }
                        let is_simple = |o: &E| matches!(o, E::Id(_) | E::Str(_) | E::Bool(_) | E::Null | E::Index(..) | E::Dot(..) | E::Call(..) | E::Paren(_)) || matches!(o, E::Int(n) if *n >= 0) || matches!(o, E::Float(f) if *f >= 0.0);
                        if operands.len() >= 2 && !child_needs_parens(*op, cur, false) && is_simple(cur) && operands.iter().all(|o| is_simple(o)) {
                            operands.push(cur);
                            operands.reverse();
                            let inner = self.cur_ind + 4 * (self.breaks + 1) + 2;
                            self.out.push('(');
                            self.no_break += 1;
                            for (i, o) in operands.iter().enumerate() {
                                self.out.push('\n');
                                self.indent(inner);
                                let simple = matches!(o, E::Id(_) | E::Str(_) | E::Bool(_) | E::Null | E::Index(..) | E::Dot(..) | E::Call(..) | E::Paren(_)) || matches!(o, E::Int(n) if *n >= 0) || matches!(o, E::Float(f) if *f >= 0.0);
                                if simple {
                                    self.expr_ind(o, 0, ind);
                                } else {
                                    self.out.push('(');
                                    self.expr_ind(o, 0, ind);
                                    self.out.push(')');
                                }
                                if i + 1 < operands.len() {
                                    self.out.push(' ');
                                    self.out.push_str(op.text());
                                }
                            }
                            self.no_break -= 1;
                            self.out.push('\n');
                            self.indent(self.cur_ind + 4 * self.breaks + if self.breaks > 0 { 2 } else { 0 });
                            self.out.push(')');
                            return;
                        }
                    }
                }
                self.out.push('(');
                self.expr_ind(x, 0, ind);
                self.out.push(')');
            }
            E::Index(a, i) => {
                self.root(a, ind);
                self.out.push('[');
                let saved = std::mem::replace(&mut self.chain_ok, 0);
                self.expr_ind(i, 0, ind);
                self.chain_ok = saved;
                self.out.push(']');
            }
            E::Dot(a, k) => {
                self.root(a, ind);
                // layout freedom: a chain may be broken before `.` onto a deeper indented line
                if self.chain_ok > 0 && self.no_break == 0 && self.inline_only == 0 && Self::simple_chain_root(a) && self.layout.pick(4) == 1 {
                    self.out.push('\n');
                    self.breaks += 1;
                    self.indent(self.cur_ind + 4 * self.breaks + 2 * self.layout.pick(2) as usize);
                }
                self.out.push('.');
                self.out.push_str(k);
            }
            E::Call(c, args) => {
                self.root(c, ind);
                self.out.push('(');
                self.inline_only += 1;
                for (i, (a, packed)) in args.iter().enumerate() {
                    if i > 0 {
                        self.out.push_str(", ");
                    }
                    if *packed {
                        self.root(a, ind);
                        self.out.push_str("...");
                    } else {
                        self.arg(a, ind);
                    }
                }
                self.inline_only -= 1;
                self.out.push(')');
            }
            E::Pipe(a, f) => {
                let ap = !matches!(**a, E::Id(_) | E::Int(_) | E::Float(_) | E::Paren(_) | E::Call(..) | E::Index(..) | E::Dot(..) | E::Pipe(..) | E::Str(_) | E::List(_)) || matches!(**a, E::Int(n) if n < 0) || matches!(**a, E::Float(x) if x < 0.0);
                self.paren_if(ap, a, ind);
                self.out.push_str(" -> ");
                match &**f {
                    E::Call(c, args) if !args.is_empty() && !args.iter().any(|(x, p)| *p || Self::starts_ambiguous(x)) => {
                        // paren-free call: `a -> f b, c` is f(a, b, c)
                        self.root(c, ind);
                        self.out.push(' ');
                        for (i, (x, _)) in args.iter().enumerate() {
                            if i > 0 {
                                self.out.push_str(", ");
                            }
                            self.arg(x, ind);
                        }
                    }
                    other => self.expr_ind(other, 0, ind),
                }
            }
            E::If(arms, els) => {
                if arms.len() == 1 && arms.iter().all(|(_, b)| Self::is_inlineable(b)) && els.as_ref().map(|b| Self::is_inlineable(b)).unwrap_or(true) {
                    self.inline_if(arms, els);
                } else {
                    self.stmt(e, ind);
                }
            }
            E::Fn(args, ret, body) => {
                self.out.push('|');
                for (i, a) in args.iter().enumerate() {
                    if i > 0 {
                        self.out.push_str(", ");
                    }
                    self.pat(&a.pat);
                    if a.variadic {
                        self.out.push_str("...");
                    }
                    if let Some(d) = &a.default {
                        self.out.push_str(" = ");
                        self.no_break += 1;
                        self.inline_only += 1;
                        self.expr_ind(d, 0, ind);
                        self.inline_only -= 1;
                        self.no_break -= 1;
                    }
                }
                self.out.push('|');
                if let Some(r) = ret {
                    self.out.push_str(" -> ");
                    self.out.push_str(r);
                }
                if Self::is_inlineable(body) && !matches!(body[0], E::Return(_) | E::Yield(_) | E::Throw(_) | E::Print(_)) && (self.inline_only > 0 || self.layout.pick(3) != 1) {
                    self.out.push(' ');
                    self.no_break += 1;
                    self.expr_ind(&body[0], 0, ind);
                    self.no_break -= 1;
                } else {
                    self.out.push('\n');
                    self.block(body, self.cur_ind + 2);
                    self.trim_nl();
                }
            }
            E::Continue => self.out.push_str("continue"),
            E::Break(None) => self.out.push_str("break"),
            E::Return(None) => self.out.push_str("return"),
            other => self.stmt(other, ind),
        }
    }

    fn items(&mut self, v: &[E], ind: usize) {
        for (i, e) in v.iter().enumerate() {
            if i > 0 {
                self.out.push_str(", ");
            }
            self.arg(e, ind);
        }
    }
}

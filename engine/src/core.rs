//! Engine core: sharded exploration in isolated worker processes, crash/hang capture,
//! proptest-driven generation with library shrinking, known-findings matching, evidence.
use proptest::strategy::{Strategy, ValueTree};
use proptest::test_runner::{Config, RngAlgorithm, TestRng, TestRunner};
use serde::{Deserialize, Serialize};
use serde_json::{Value, json};
use std::collections::{BTreeMap, HashSet};
use std::io::{Read, Seek, SeekFrom, Write};
use std::panic::{AssertUnwindSafe, catch_unwind};
use std::path::{Path, PathBuf};
use std::process::{Command, Stdio};
use std::sync::atomic::{AtomicU64, Ordering};
use std::time::{Duration, Instant};

pub const VERIF: &str = "/verif";

#[derive(Clone, Copy, PartialEq, Eq, Debug)]
pub enum Tier {
    Quick,
    Thorough,
}
impl Tier {
    pub fn name(self) -> &'static str {
        match self {
            Tier::Quick => "quick",
            Tier::Thorough => "thorough",
        }
    }
    pub fn pick<T>(self, q: T, t: T) -> T {
        match self {
            Tier::Quick => q,
            Tier::Thorough => t,
        }
    }
}

/// A property check definition
pub struct Prop {
    pub id: &'static str,
    pub rule: &'static str,
    pub assumptions: &'static [&'static str],
    pub shards: fn(Tier) -> usize,
    pub run_shard: fn(&mut Ctx),
    /// Re-run one concrete case (bypassing generators); Some(fail) if the property is violated
    pub replay: fn(&Value) -> Option<Fail>,
    /// floor for nontrivial/evaluations below which the run is inconclusive
    pub min_nontrivial_fraction: f64,
}

#[derive(Clone, Debug, Serialize, Deserialize)]
pub struct Fail {
    /// stable signature used for known-finding matching and de-duplication
    pub sig: String,
    pub detail: String,
}
impl Fail {
    pub fn new(sig: impl Into<String>, detail: impl Into<String>) -> Self {
        Fail { sig: sig.into(), detail: detail.into() }
    }
}

/// Result of evaluating one case
#[derive(Default, Clone, Debug)]
pub struct Eval {
    pub fail: Option<Fail>,
    pub nontrivial: bool,
    pub classes: Vec<&'static str>,
    /// if set, not counted as an evaluation (generator-side discard)
    pub discard: bool,
}
impl Eval {
    pub fn pass(nontrivial: bool) -> Self {
        Eval { nontrivial, ..Default::default() }
    }
    pub fn failed(sig: impl Into<String>, detail: impl Into<String>) -> Self {
        Eval { fail: Some(Fail::new(sig, detail)), nontrivial: true, ..Default::default() }
    }
    pub fn class(mut self, c: &'static str) -> Self {
        self.classes.push(c);
        self
    }
    pub fn classes(mut self, c: &[&'static str]) -> Self {
        self.classes.extend_from_slice(c);
        self
    }
}

#[derive(Clone, Debug, Serialize, Deserialize)]
pub struct Failure {
    pub case: Value,
    pub sig: String,
    pub detail: String,
    #[serde(default)]
    pub shrunk: bool,
}

#[derive(Default, Clone, Debug, Serialize, Deserialize)]
pub struct ShardState {
    pub seqno_done: u64,
    pub evaluations: u64,
    pub nontrivial_total: u64,
    pub hashes_len: u64,
    pub classes: BTreeMap<String, u64>,
    pub excluded: BTreeMap<String, u64>,
    pub resource_events: u64,
    pub failures: Vec<Failure>,
    pub failure_overflow: u64,
    pub first: Option<Value>,
    pub last: Option<Value>,
    pub lowhash: Vec<(u64, Value)>,
    pub notes: Vec<String>,
    pub exhaustive_spaces: BTreeMap<String, u64>,
    pub done: bool,
    pub harness_errors: Vec<String>,
    /// failures that matched a listed known finding (not counted towards the failure cap)
    #[serde(default)]
    pub known_hits: BTreeMap<String, u64>,
}

pub fn fnv(data: &[u8]) -> u64 {
    let mut h: u64 = 0xcbf29ce484222325;
    for b in data {
        h ^= *b as u64;
        h = h.wrapping_mul(0x100000001b3);
    }
    // final avalanche
    h ^= h >> 33;
    h = h.wrapping_mul(0xff51afd7ed558ccd);
    h ^= h >> 33;
    h
}

pub fn hash_value(v: &Value) -> u64 {
    fnv(v.to_string().as_bytes())
}

// ---------------------------------------------------------------------------------------------
// panic capture

thread_local! {
    static LAST_PANIC: std::cell::RefCell<Option<(String, String)>> = const { std::cell::RefCell::new(None) };
}

pub fn install_panic_hook() {
    std::panic::set_hook(Box::new(|info| {
        let mut loc = info
            .location()
            .map(|l| format!("{}:{}", l.file(), l.line()))
            .unwrap_or_else(|| "?".into());
        let msg = if let Some(s) = info.payload().downcast_ref::<&str>() {
            s.to_string()
        } else if let Some(s) = info.payload().downcast_ref::<String>() {
            s.clone()
        } else {
            "<non-string panic payload>".into()
        };
        // find the innermost frame inside /repo (site of the defect) and its function name
        let bt = std::backtrace::Backtrace::force_capture().to_string();
        let mut prev_sym = String::new();
        let mut funcs: Vec<String> = vec![];
        let mut repo_loc = String::new();
        let shorten = |func: &str| -> String {
            // last two path segments without the hash suffix
            let segs = func.split("::").filter(|p| !(p.starts_with('h') && p.len() == 17)).collect::<Vec<_>>();
            let short = segs.iter().rev().take(2).rev().cloned().collect::<Vec<_>>().join("::");
            let short: String = short.chars().filter(|c| c.is_alphanumeric() || *c == '_' || *c == ':').take(48).collect();
            // closure numbering depends on unrelated code in the same function
            let mut out = String::new();
            let mut rest = short.as_str();
            while let Some(p) = rest.find("closure") {
                out.push_str(&rest[..p + 7]);
                rest = rest[p + 7..].trim_start_matches(|c: char| c.is_ascii_digit());
            }
            out.push_str(rest);
            out
        };
        for line in bt.lines() {
            let t = line.trim();
            if let Some(rest) = t.strip_prefix("at ") {
                if rest.starts_with("/repo/") && funcs.len() < 2 {
                    let f = shorten(&prev_sym);
                    if funcs.last() != Some(&f) {
                        funcs.push(f);
                    }
                    if repo_loc.is_empty() {
                        let mut parts: Vec<&str> = rest.rsplitn(2, ':').collect();
                        parts.reverse();
                        repo_loc = parts[0].to_string();
                    }
                }
            } else if let Some((_, sym)) = t.split_once(": ") {
                prev_sym = sym.to_string();
            }
        }
        if !loc.starts_with("/repo/") && !loc.contains("/verif/engine/") && !repo_loc.is_empty() {
            loc = repo_loc;
        }
        let short = funcs.join("<");
        LAST_PANIC.with(|p| *p.borrow_mut() = Some((format!("{loc}#{short}"), msg)));
    }));
}

/// Normalise a panic message: digits -> N so that the signature is stable over inputs
pub fn normalise_msg(msg: &str) -> String {
    // drop input-dependent tails
    let mut m = msg;
    for cut in ["; it is inside", " of `", ": `", " (bytes "] {
        if let Some(p) = m.find(cut) {
            m = &m[..p];
        }
    }
    let mut out = String::new();
    let mut in_num = false;
    for c in m.chars().take(90) {
        if c.is_ascii_digit() {
            if !in_num {
                out.push('N');
            }
            in_num = true;
        } else {
            in_num = false;
            out.push(if c == '\n' { ' ' } else { c });
        }
    }
    out
}

/// Run a closure catching panics. Returns Err((location, message)) on panic.
pub fn guarded<T>(f: impl FnOnce() -> T) -> Result<T, (String, String)> {
    LAST_PANIC.with(|p| *p.borrow_mut() = None);
    match catch_unwind(AssertUnwindSafe(f)) {
        Ok(v) => Ok(v),
        Err(_) => {
            let (loc, msg) = LAST_PANIC
                .with(|p| p.borrow_mut().take())
                .unwrap_or_else(|| ("?".into(), "?".into()));
            Err((loc, msg))
        }
    }
}

/// Signature for a panic: file (without line number) + function + normalised message
pub fn panic_sig(loc: &str, msg: &str) -> String {
    let (place, func) = loc.split_once('#').unwrap_or((loc, ""));
    let file = place.rsplit_once(':').map(|x| x.0).unwrap_or(place);
    let file = file.strip_prefix("/repo/").unwrap_or(file);
    format!("panic@{}:{}:{}", file, func, normalise_msg(msg))
}

pub fn panic_is_harness(loc: &str) -> bool {
    // the hook remaps std/dependency panics to the innermost /repo frame; no /repo frame at all
    // means the panic is the engine's own
    !loc.starts_with("/repo/")
}

// ---------------------------------------------------------------------------------------------
// shard context

static CASE_START_MS: AtomicU64 = AtomicU64::new(0);
static CASE_LIMIT_MS: AtomicU64 = AtomicU64::new(30_000);

pub struct Ctx {
    pub id: &'static str,
    pub tier: Tier,
    pub seed: u64,
    pub shard: usize,
    pub nshards: usize,
    pub st: ShardState,
    rundir: PathBuf,
    resume_after: u64,
    skip: HashSet<u64>,
    seqno: u64,
    inflight: std::fs::File,
    hashes: HashSet<u64>,
    new_hashes: Vec<u64>,
    hashes_file: std::fs::File,
    last_checkpoint: Instant,
    t0: Instant,
    pub max_failures: usize,
    /// wall-clock budget after which streams stop generating (reported as truncated)
    pub deadline: Option<Instant>,
    last_lazy: Option<u64>,
    shrinks_done: u32,
    /// failures whose signature matches are counted as resource-exhaustion events, not reported
    pub resource_filter: Option<fn(&str) -> bool>,
    findings: Vec<Finding>,
}

fn now_ms(t0: Instant) -> u64 {
    t0.elapsed().as_millis() as u64 + 1
}

impl Ctx {
    pub fn quick(&self) -> bool {
        self.tier == Tier::Quick
    }
    pub fn mine(&self, idx: u64) -> bool {
        (idx % self.nshards as u64) as usize == self.shard
    }
    pub fn set_case_limit_ms(&self, ms: u64) {
        CASE_LIMIT_MS.store(ms, Ordering::SeqCst);
    }
    pub fn sub_seed(&self, stream: &str, idx: u64) -> u64 {
        fnv(format!("{}/{}/{}/{}", self.seed, self.id, stream, idx).as_bytes())
    }
    pub fn note(&mut self, s: impl Into<String>) {
        let s = s.into();
        if !self.st.notes.contains(&s) && self.st.notes.len() < 40 {
            self.st.notes.push(s);
        }
    }
    pub fn exclude(&mut self, shape: &str) {
        *self.st.excluded.entry(shape.to_string()).or_insert(0) += 1;
    }
    pub fn count_class(&mut self, c: &str, n: u64) {
        *self.st.classes.entry(c.to_string()).or_insert(0) += n;
    }
    pub fn too_many_failures(&self) -> bool {
        self.st.failures.iter().filter(|f| match_finding(&self.findings, self.id, &f.sig).is_none()).count() >= self.max_failures
    }
    pub fn out_of_time(&self) -> bool {
        self.deadline.map(|d| Instant::now() > d).unwrap_or(false)
    }

    fn write_inflight(&mut self, case: &Value) {
        let body = serde_json::to_vec(&json!({"seqno": self.seqno, "case": case})).unwrap();
        let mut buf = Vec::with_capacity(body.len() + 4);
        buf.extend_from_slice(&(body.len() as u32).to_le_bytes());
        buf.extend_from_slice(&body);
        let _ = self.inflight.seek(SeekFrom::Start(0));
        let _ = self.inflight.write_all(&buf);
    }

    fn record_sample(&mut self, case: &Value, h: u64) {
        if self.st.first.is_none() {
            self.st.first = Some(case.clone());
        }
        if self.st.lowhash.len() < 3 || h < self.st.lowhash.last().unwrap().0 {
            if !self.st.lowhash.iter().any(|(x, _)| *x == h) {
                self.st.lowhash.push((h, case.clone()));
                self.st.lowhash.sort_by_key(|x| x.0);
                self.st.lowhash.truncate(3);
            }
        }
    }

    /// Evaluate one case under panic capture + watchdog; record everything.
    /// Returns the Eval (with fail set on panic).
    pub fn run_case(&mut self, case: &Value, f: impl FnOnce() -> Eval) -> Option<Eval> {
        self.seqno += 1;
        if self.seqno <= self.resume_after || self.skip.contains(&self.seqno) {
            return None;
        }
        self.write_inflight(case);
        let ev = self.guarded_eval(f);
        self.record(case, &ev);
        if !ev.discard {
            self.st.last = Some(case.clone());
        }
        self.st.seqno_done = self.seqno;
        self.maybe_checkpoint(false);
        Some(ev)
    }

    fn guarded_eval(&mut self, f: impl FnOnce() -> Eval) -> Eval {
        CASE_START_MS.store(now_ms(self.t0), Ordering::SeqCst);
        let r = guarded(f);
        CASE_START_MS.store(0, Ordering::SeqCst);
        match r {
            Ok(ev) => ev,
            Err((loc, msg)) => {
                if panic_is_harness(&loc) {
                    let e = format!("harness panic at {loc}: {msg}");
                    if self.st.harness_errors.len() < 10 {
                        self.st.harness_errors.push(e);
                    }
                    Eval { discard: true, ..Default::default() }
                } else {
                    Eval::failed(panic_sig(&loc, &msg), format!("panic at {loc}: {msg}"))
                }
            }
        }
    }

    fn record(&mut self, case: &Value, ev: &Eval) {
        let h = hash_value(case);
        self.record_lazy(h, ev, &|| case.clone());
    }

    fn record_lazy(&mut self, h: u64, ev: &Eval, case: &dyn Fn() -> Value) {
        if ev.discard {
            *self.st.classes.entry("discarded".into()).or_insert(0) += 1;
            for c in &ev.classes {
                *self.st.classes.entry(c.to_string()).or_insert(0) += 1;
            }
            return;
        }
        self.st.evaluations += 1;
        for c in &ev.classes {
            *self.st.classes.entry(c.to_string()).or_insert(0) += 1;
        }
        if ev.nontrivial {
            self.st.nontrivial_total += 1;
            if self.hashes.insert(h) {
                self.new_hashes.push(h);
            }
        }
        if self.st.first.is_none() || self.st.lowhash.len() < 3 || h < self.st.lowhash.last().unwrap().0 {
            let c = case();
            self.record_sample(&c, h);
        }
        self.last_lazy = Some(h);
        if let Some(f) = &ev.fail {
            if self.resource_filter.map(|flt| flt(&f.sig)).unwrap_or(false) {
                self.st.resource_events += 1;
                if self.st.notes.len() < 30 {
                    let c = case().to_string();
                    let tail: String = c.chars().rev().take(160).collect::<Vec<_>>().into_iter().rev().collect();
                    self.st.notes.push(format!("not judged [{}]: …{}", sig_class(&f.sig), tail));
                }
                *self.st.classes.entry(format!("not-judged:{}", sig_class(&f.sig).chars().take(40).collect::<String>())).or_insert(0) += 1;
            } else {
                let c = case();
                self.push_failure(&c, f, false);
            }
        }
    }

    /// Batch mode for very cheap cases: one in-flight record per batch.
    /// Returns false if the batch is to be skipped (resume / crashed before).
    pub fn begin_batch(&mut self, desc: &Value) -> bool {
        self.seqno += 1;
        if self.seqno <= self.resume_after || self.skip.contains(&self.seqno) {
            return false;
        }
        self.write_inflight(desc);
        CASE_START_MS.store(now_ms(self.t0), Ordering::SeqCst);
        true
    }
    pub fn batch_item(&mut self, h: u64, ev: &Eval, case: &dyn Fn() -> Value) {
        self.record_lazy(h, ev, case);
    }
    pub fn end_batch(&mut self, last_case: Value) {
        CASE_START_MS.store(0, Ordering::SeqCst);
        self.st.last = Some(last_case);
        self.st.seqno_done = self.seqno;
        self.maybe_checkpoint(false);
    }

    fn push_failure(&mut self, case: &Value, f: &Fail, shrunk: bool) {
        if let Some(k) = match_finding(&self.findings, self.id, &f.sig) {
            let id = k.id.clone();
            let n = self.st.known_hits.entry(id).or_insert(0);
            *n += 1;
            if *n > 1 {
                return;
            }
        }
        // keep at most 3 failures per signature
        let same = self.st.failures.iter().filter(|x| x.sig == f.sig).count();
        if same >= 3 || self.too_many_failures() {
            self.st.failure_overflow += 1;
            return;
        }
        self.st.failures.push(Failure {
            case: case.clone(),
            sig: f.sig.clone(),
            detail: f.detail.chars().take(4000).collect(),
            shrunk,
        });
        self.maybe_checkpoint(true);
    }

    pub fn maybe_checkpoint(&mut self, force: bool) {
        if !force && self.last_checkpoint.elapsed() < Duration::from_millis(700) {
            return;
        }
        self.checkpoint();
    }

    fn checkpoint(&mut self) {
        self.last_checkpoint = Instant::now();
        if !self.new_hashes.is_empty() {
            let mut buf = Vec::with_capacity(self.new_hashes.len() * 8);
            for h in self.new_hashes.drain(..) {
                buf.extend_from_slice(&h.to_le_bytes());
            }
            let _ = self.hashes_file.write_all(&buf);
            let _ = self.hashes_file.flush();
        }
        self.st.hashes_len = self.hashes.len() as u64;
        let tmp = self.rundir.join(format!("shard{}.state.tmp", self.shard));
        let fin = self.rundir.join(format!("shard{}.state.json", self.shard));
        if std::fs::write(&tmp, serde_json::to_vec(&self.st).unwrap()).is_ok() {
            let _ = std::fs::rename(&tmp, &fin);
        }
    }

    /// Explore `n` cases of a proptest strategy (case index -> own seeded runner). On failure the
    /// library's simplify/complicate loop is run against the same oracle.
    pub fn explore<S, J, E>(&mut self, stream: &str, n: u64, strat: &S, to_json: J, eval: E)
    where
        S: Strategy,
        J: Fn(&S::Value) -> Value,
        E: Fn(&S::Value) -> Eval,
    {
        self.explore_r(stream, n, strat, to_json, eval, None)
    }

    /// Like `explore`, with a case-specific reducer run after the library's shrinking:
    /// `post(value, fail)` returns a smaller failing case (JSON + failure) if it finds one.
    pub fn explore_r<S, J, E>(&mut self, stream: &str, n: u64, strat: &S, to_json: J, eval: E, post: Option<&dyn Fn(&S::Value, &Fail) -> Option<(Value, Fail)>>)
    where
        S: Strategy,
        J: Fn(&S::Value) -> Value,
        E: Fn(&S::Value) -> Eval,
    {
        for idx in 0..n {
            if !self.mine(idx) {
                continue;
            }
            if self.too_many_failures() {
                self.note(format!("stream {stream} stopped early: failure cap reached"));
                return;
            }
            if self.out_of_time() {
                self.note(format!("stream {stream} truncated at index {idx} of {n}: time budget"));
                return;
            }
            let mut runner = seeded_runner(self.sub_seed(stream, idx));
            let mut tree = match strat.new_tree(&mut runner) {
                Ok(t) => t,
                Err(_) => continue,
            };
            let v = tree.current();
            let case = to_json(&v);
            let Some(ev) = self.run_case(&case, || eval(&v)) else { continue };
            if let Some(f0) = ev.fail {
                if match_finding(&self.findings, self.id, &f0.sig).is_some() {
                    continue;
                }
                self.shrinks_done += 1;
                if self.shrinks_done > 4 {
                    continue;
                }
                // shrink with the library's value tree
                let mut best: Option<(Value, Fail)> = None;
                let t_shrink = Instant::now();
                let mut steps = 0;
                if tree.simplify() {
                    loop {
                        steps += 1;
                        if steps > 400 || t_shrink.elapsed() > Duration::from_secs(8) {
                            break;
                        }
                        let cur = tree.current();
                        let cj = to_json(&cur);
                        self.write_inflight(&cj);
                        let ev2 = self.guarded_eval(|| eval(&cur));
                        let still = ev2.fail.as_ref().map(|f| sig_class(&f.sig) == sig_class(&f0.sig)).unwrap_or(false);
                        if still {
                            best = Some((cj, ev2.fail.unwrap()));
                            if !tree.simplify() {
                                break;
                            }
                        } else if !tree.complicate() {
                            break;
                        }
                    }
                }
                let mut final_case: Option<(Value, Fail)> = best.as_ref().map(|(cj, f)| (cj.clone(), f.clone()));
                if let Some(post) = post {
                    let cur_val = tree.current();
                    // the tree's current value may be a passing candidate: re-evaluate
                    let (base_val, base_fail) = {
                        let ev3 = self.guarded_eval(|| eval(&cur_val));
                        match ev3.fail {
                            Some(f) if sig_class(&f.sig) == sig_class(&f0.sig) => (cur_val, f),
                            _ => (v, f0.clone()),
                        }
                    };
                    CASE_START_MS.store(now_ms(self.t0), Ordering::SeqCst);
                    let r = guarded(|| post(&base_val, &base_fail));
                    CASE_START_MS.store(0, Ordering::SeqCst);
                    if let Ok(Some((cj, f))) = r {
                        final_case = Some((cj, f));
                    }
                }
                if let Some((cj, f)) = final_case {
                    if let Some(pos) = self.st.failures.iter().rposition(|x| x.case == case) {
                        self.st.failures[pos] = Failure { case: cj, sig: f.sig, detail: f.detail.chars().take(4000).collect(), shrunk: true };
                        self.maybe_checkpoint(true);
                    }
                }
            }
        }
    }

    /// Explore an explicit list/iterator of cases (bounded-exhaustive or corpus driven).
    /// `idx` sharding is by position.
    pub fn explore_iter<T, I, J, E>(&mut self, stream: &str, items: I, to_json: J, eval: E)
    where
        I: Iterator<Item = T>,
        J: Fn(&T) -> Value,
        E: Fn(&T) -> Eval,
    {
        for (idx, item) in items.enumerate() {
            if !self.mine(idx as u64) {
                continue;
            }
            if self.too_many_failures() {
                self.note(format!("stream {stream} stopped early: failure cap reached"));
                return;
            }
            if self.out_of_time() {
                self.note(format!("stream {stream} truncated at index {idx}: time budget"));
                return;
            }
            let case = to_json(&item);
            self.run_case(&case, || eval(&item));
        }
    }

    /// Evaluate one case in a forked child process: aborts, stack overflows, allocation failures and
    /// hangs of the code under test end the child only. `timeout_ms` bounds the case.
    pub fn run_case_forked(&mut self, case: &Value, timeout_ms: u64, f: impl FnOnce() -> Eval) -> Option<Eval> {
        self.seqno += 1;
        if self.seqno <= self.resume_after || self.skip.contains(&self.seqno) {
            return None;
        }
        self.write_inflight(case);
        let ev = self.forked_eval(timeout_ms, f);
        self.record(case, &ev);
        if !ev.discard {
            self.st.last = Some(case.clone());
        }
        self.st.seqno_done = self.seqno;
        self.maybe_checkpoint(false);
        Some(ev)
    }

    pub fn forked_eval(&mut self, timeout_ms: u64, f: impl FnOnce() -> Eval) -> Eval {
        let errpath = self.rundir.join(format!("shard{}.child.stderr", self.shard));
        let mut fds = [0i32; 2];
        unsafe {
            if libc::pipe(fds.as_mut_ptr()) != 0 {
                return Eval { discard: true, ..Default::default() };
            }
        }
        let pid = unsafe { libc::fork() };
        if pid < 0 {
            unsafe {
                libc::close(fds[0]);
                libc::close(fds[1]);
            }
            self.st.harness_errors.push("fork failed".into());
            return Eval { discard: true, ..Default::default() };
        }
        if pid == 0 {
            // child
            unsafe {
                libc::close(fds[0]);
                if let Ok(cpath) = std::ffi::CString::new(errpath.to_string_lossy().as_bytes()) {
                    let fd = libc::open(cpath.as_ptr(), libc::O_WRONLY | libc::O_CREAT | libc::O_TRUNC, 0o644);
                    if fd >= 0 {
                        libc::dup2(fd, 2);
                        libc::close(fd);
                    }
                }
            }
            let r = guarded(f);
            let ev = match r {
                Ok(ev) => ev,
                Err((loc, msg)) => {
                    if panic_is_harness(&loc) {
                        let mut e = Eval { discard: true, ..Default::default() };
                        e.fail = Some(Fail::new("harness", format!("harness panic at {loc}: {msg}")));
                        e
                    } else {
                        Eval::failed(panic_sig(&loc, &msg), format!("panic at {loc}: {msg}"))
                    }
                }
            };
            let body = serde_json::to_vec(&json!({
                "fail": ev.fail, "nontrivial": ev.nontrivial, "classes": ev.classes, "discard": ev.discard
            }))
            .unwrap_or_default();
            unsafe {
                let mut off = 0;
                while off < body.len() {
                    let n = libc::write(fds[1], body[off..].as_ptr() as *const libc::c_void, body.len() - off);
                    if n <= 0 {
                        break;
                    }
                    off += n as usize;
                }
                libc::_exit(0);
            }
        }
        // parent
        unsafe { libc::close(fds[1]) };
        let t0 = Instant::now();
        let mut buf: Vec<u8> = Vec::new();
        unsafe {
            let flags = libc::fcntl(fds[0], libc::F_GETFL);
            libc::fcntl(fds[0], libc::F_SETFL, flags | libc::O_NONBLOCK);
        }
        let mut status: i32 = 0;
        let mut hang = false;
        let mut tmp = [0u8; 65536];
        let mut sleep_us = 20u64;
        loop {
            let n = unsafe { libc::read(fds[0], tmp.as_mut_ptr() as *mut libc::c_void, tmp.len()) };
            if n > 0 {
                buf.extend_from_slice(&tmp[..n as usize]);
                continue;
            }
            let w = unsafe { libc::waitpid(pid, &mut status, libc::WNOHANG) };
            if w == pid {
                // drain
                loop {
                    let n = unsafe { libc::read(fds[0], tmp.as_mut_ptr() as *mut libc::c_void, tmp.len()) };
                    if n > 0 {
                        buf.extend_from_slice(&tmp[..n as usize]);
                    } else {
                        break;
                    }
                }
                break;
            }
            if t0.elapsed() > Duration::from_millis(timeout_ms) {
                unsafe {
                    libc::kill(pid, libc::SIGKILL);
                    libc::waitpid(pid, &mut status, 0);
                }
                hang = true;
                break;
            }
            std::thread::sleep(Duration::from_micros(sleep_us));
            sleep_us = (sleep_us * 2).min(2000);
        }
        unsafe { libc::close(fds[0]) };
        if hang {
            return Eval::failed("hang", format!("case did not finish within {timeout_ms} ms"));
        }
        let exited_ok = libc::WIFEXITED(status) && libc::WEXITSTATUS(status) == 0;
        if exited_ok {
            if let Ok(v) = serde_json::from_slice::<Value>(&buf) {
                let fail: Option<Fail> = serde_json::from_value(v["fail"].clone()).ok().flatten();
                let discard = v["discard"].as_bool().unwrap_or(false);
                if discard {
                    if let Some(f) = &fail {
                        if self.st.harness_errors.len() < 10 {
                            self.st.harness_errors.push(f.detail.clone());
                        }
                    }
                    return Eval { discard: true, ..Default::default() };
                }
                let classes = v["classes"].as_array().map(|a| a.iter().filter_map(|x| x.as_str()).map(intern).collect()).unwrap_or_default();
                return Eval { fail, nontrivial: v["nontrivial"].as_bool().unwrap_or(false), classes, discard: false };
            }
        }
        let tail = std::fs::read(&errpath).map(|b| String::from_utf8_lossy(&b).to_string()).unwrap_or_default();
        let tail: String = tail.chars().rev().take(1200).collect::<Vec<_>>().into_iter().rev().collect();
        let sig = if tail.contains("memory allocation of") || tail.contains("capacity overflow") {
            "crash:alloc-failure".to_string()
        } else if tail.contains("has overflowed its stack") {
            "crash:stack-overflow".to_string()
        } else if libc::WIFSIGNALED(status) {
            let msg = tail.lines().rev().find(|l| !l.trim().is_empty()).unwrap_or("");
            format!("abort:signal{}:{}", libc::WTERMSIG(status), normalise_msg(msg))
        } else {
            format!("abort:exit{}", libc::WEXITSTATUS(status))
        };
        Eval::failed(sig, format!("child process ended abnormally (status {status}); stderr tail: {tail}"))
    }

    /// Replace the most recent failure for `orig_case` by a smaller failing case found by a
    /// property-specific delta pass.
    pub fn replace_failure(&mut self, orig_case: &Value, new_case: Value, f: Fail) {
        if let Some(pos) = self.st.failures.iter().rposition(|x| &x.case == orig_case) {
            self.st.failures[pos] =
                Failure { case: new_case, sig: f.sig, detail: f.detail.chars().take(4000).collect(), shrunk: true };
            self.maybe_checkpoint(true);
        }
    }

    /// Evaluate a candidate during property-specific shrinking (panic-safe, watchdog armed)
    pub fn probe(&mut self, case: &Value, f: impl FnOnce() -> Eval) -> Eval {
        self.write_inflight(case);
        self.guarded_eval(f)
    }
}

pub fn intern(s: &str) -> &'static str {
    use std::sync::Mutex;
    static TABLE: Mutex<Vec<&'static str>> = Mutex::new(Vec::new());
    let mut t = TABLE.lock().unwrap();
    if let Some(x) = t.iter().find(|x| **x == s) {
        return x;
    }
    let leaked: &'static str = Box::leak(s.to_string().into_boxed_str());
    t.push(leaked);
    leaked
}

/// Two signatures are of the same class if they agree up to the first '|' (detail suffix)
pub fn sig_class(sig: &str) -> &str {
    sig.split('|').next().unwrap_or(sig)
}

pub fn seeded_runner(seed: u64) -> TestRunner {
    let mut bytes = [0u8; 32];
    for i in 0..4 {
        let x = fnv(&[seed.to_le_bytes().as_slice(), &[i as u8]].concat());
        bytes[i * 8..i * 8 + 8].copy_from_slice(&x.to_le_bytes());
    }
    let cfg = Config { failure_persistence: None, cases: 1, ..Config::default() };
    TestRunner::new_with_rng(cfg, TestRng::from_seed(RngAlgorithm::ChaCha, &bytes))
}

// ---------------------------------------------------------------------------------------------
// worker entry

pub fn shard_main(prop: &'static Prop, tier: Tier, seed: u64, shard: usize, nshards: usize, rundir: &Path, resume: bool, skip: Vec<u64>) {
    install_panic_hook();
    set_rlimit_as(6 << 30);
    let t0 = Instant::now();
    let inflight = std::fs::OpenOptions::new()
        .create(true)
        .write(true)
        .truncate(true)
        .open(rundir.join(format!("shard{shard}.inflight")))
        .unwrap();
    let hashes_path = rundir.join(format!("shard{shard}.hashes"));
    let state_path = rundir.join(format!("shard{shard}.state.json"));
    let mut st = ShardState::default();
    let mut hashes = HashSet::new();
    if resume {
        if let Ok(b) = std::fs::read(&state_path) {
            if let Ok(s) = serde_json::from_slice::<ShardState>(&b) {
                st = s;
            }
        }
        if let Ok(mut f) = std::fs::File::open(&hashes_path) {
            let mut b = Vec::new();
            let _ = f.read_to_end(&mut b);
            for ch in b.chunks_exact(8).take(st.hashes_len as usize) {
                hashes.insert(u64::from_le_bytes(ch.try_into().unwrap()));
            }
        }
        // rewrite hashes file to the checkpointed prefix
        let mut buf = Vec::new();
        for h in &hashes {
            buf.extend_from_slice(&h.to_le_bytes());
        }
        let _ = std::fs::write(&hashes_path, &buf);
    } else {
        let _ = std::fs::remove_file(&hashes_path);
        let _ = std::fs::remove_file(&state_path);
    }
    let hashes_file = std::fs::OpenOptions::new().create(true).append(true).open(&hashes_path).unwrap();
    // watchdog
    {
        let rundir = rundir.to_path_buf();
        std::thread::spawn(move || {
            loop {
                std::thread::sleep(Duration::from_millis(200));
                let start = CASE_START_MS.load(Ordering::SeqCst);
                if start != 0 {
                    let now = now_ms(t0);
                    if now.saturating_sub(start) > CASE_LIMIT_MS.load(Ordering::SeqCst) {
                        let _ = std::fs::write(rundir.join(format!("shard{shard}.hang")), b"hang");
                        unsafe { libc::_exit(97) };
                    }
                }
            }
        });
    }
    let resume_after = st.seqno_done;
    let mut ctx = Ctx {
        id: prop.id,
        tier,
        seed,
        shard,
        nshards,
        st,
        rundir: rundir.to_path_buf(),
        resume_after,
        skip: skip.into_iter().collect(),
        seqno: 0,
        inflight,
        hashes,
        new_hashes: Vec::new(),
        hashes_file,
        last_checkpoint: Instant::now(),
        t0,
        max_failures: 24,
        deadline: None,
        last_lazy: None,
        shrinks_done: 0,
        resource_filter: None,
        findings: load_findings(),
    };
    let h = std::thread::Builder::new()
        .stack_size(1 << 30)
        .spawn(move || {
            install_panic_hook();
            (prop.run_shard)(&mut ctx);
            ctx.st.done = true;
            ctx.checkpoint();
        })
        .unwrap();
    if h.join().is_err() {
        eprintln!("harness panic in shard body");
        std::process::exit(98);
    }
}

pub fn set_rlimit_as(bytes: u64) {
    unsafe {
        let lim = libc::rlimit { rlim_cur: bytes, rlim_max: bytes };
        libc::setrlimit(libc::RLIMIT_AS, &lim);
    }
}

// ---------------------------------------------------------------------------------------------
// known findings

#[derive(Clone, Debug, Serialize, Deserialize)]
pub struct Finding {
    pub id: String,
    /// "known" or "fixed"
    pub status: String,
    pub properties: Vec<String>,
    pub what: String,
    /// signature prefixes (up to '|') that identify this defect
    #[serde(default)]
    pub sigs: Vec<String>,
    /// concrete repro cases: {"property": "C06", "case": {...}}
    #[serde(default)]
    pub repros: Vec<Value>,
    #[serde(default)]
    pub commit: Option<String>,
}

pub fn load_findings() -> Vec<Finding> {
    let p = Path::new(VERIF).join("known_findings.json");
    match std::fs::read(&p) {
        Ok(b) => {
            let v: Value = serde_json::from_slice(&b).expect("known_findings.json must parse");
            serde_json::from_value(v["findings"].clone()).expect("known_findings.json: bad findings")
        }
        Err(_) => vec![],
    }
}

/// glob match with '*' standing for any (possibly empty) substring
pub fn glob_match(pat: &str, text: &str) -> bool {
    let parts: Vec<&str> = pat.split('*').collect();
    if parts.len() == 1 {
        return pat == text;
    }
    let mut pos = 0;
    for (i, part) in parts.iter().enumerate() {
        if i == 0 {
            if !text.starts_with(part) {
                return false;
            }
            pos = part.len();
        } else if i == parts.len() - 1 {
            return text.len() >= pos + part.len() && text[pos..].ends_with(part);
        } else {
            match text[pos..].find(part) {
                Some(p) => pos += p + part.len(),
                None => return false,
            }
        }
    }
    true
}

pub fn match_finding<'a>(findings: &'a [Finding], prop: &str, sig: &str) -> Option<&'a Finding> {
    let cls = sig_class(sig);
    findings.iter().find(|f| f.status == "known" && (f.properties.iter().any(|p| p == prop || p == "*")) && f.sigs.iter().any(|s| glob_match(s, cls)))
}

// ---------------------------------------------------------------------------------------------
// parent

struct Child {
    shard: usize,
    proc: std::process::Child,
    crashes: u32,
    skip: Vec<u64>,
}

fn spawn_shard(prop: &Prop, tier: Tier, seed: u64, shard: usize, nshards: usize, rundir: &Path, resume: bool, skip: &[u64]) -> std::process::Child {
    let exe = std::env::current_exe().unwrap();
    let stderr = std::fs::File::create(rundir.join(format!("shard{shard}.stderr"))).unwrap();
    let mut cmd = Command::new(exe);
    cmd.arg("shard")
        .arg(prop.id)
        .arg(tier.name())
        .arg(seed.to_string())
        .arg(shard.to_string())
        .arg(nshards.to_string())
        .arg(rundir)
        .arg(if resume { "resume" } else { "fresh" })
        .arg(skip.iter().map(|x| x.to_string()).collect::<Vec<_>>().join(","))
        .stdin(Stdio::null())
        .stdout(Stdio::null())
        .stderr(stderr);
    cmd.spawn().expect("spawn shard")
}

fn read_inflight(rundir: &Path, shard: usize) -> Option<(u64, Value)> {
    let b = std::fs::read(rundir.join(format!("shard{shard}.inflight"))).ok()?;
    if b.len() < 4 {
        return None;
    }
    let n = u32::from_le_bytes(b[0..4].try_into().unwrap()) as usize;
    let v: Value = serde_json::from_slice(b.get(4..4 + n)?).ok()?;
    Some((v["seqno"].as_u64()?, v["case"].clone()))
}

fn stderr_tail(rundir: &Path, shard: usize) -> String {
    let s = std::fs::read(rundir.join(format!("shard{shard}.stderr"))).unwrap_or_default();
    let s = String::from_utf8_lossy(&s).to_string();
    let n = s.len();
    let mut start = n.saturating_sub(1500);
    while !s.is_char_boundary(start) {
        start += 1;
    }
    s[start..].to_string()
}

pub fn classify_crash(status: &std::process::ExitStatus, hang: bool, stderr: &str) -> (String, bool) {
    use std::os::unix::process::ExitStatusExt;
    // returns (sig, is_resource_exhaustion)
    if hang {
        return ("hang".into(), false);
    }
    if stderr.contains("memory allocation of") || stderr.contains("capacity overflow") {
        return ("crash:alloc-failure".into(), true);
    }
    if stderr.contains("has overflowed its stack") {
        return ("crash:stack-overflow".into(), true);
    }
    if let Some(sig) = status.signal() {
        let msg = stderr.lines().rev().find(|l| !l.trim().is_empty()).unwrap_or("");
        return (format!("abort:signal{}:{}", sig, normalise_msg(msg)), false);
    }
    (format!("abort:exit{}", status.code().unwrap_or(-1)), false)
}

pub struct Merged {
    pub st: ShardState,
    pub distinct_nontrivial: u64,
    pub incomplete_shards: u32,
}

pub fn run_check(prop: &'static Prop, tier: Tier, seed: u64) -> i32 {
    let t0 = Instant::now();
    let rundir = PathBuf::from(VERIF).join("engine/run").join(format!("{}-{}", prop.id, tier.name()));
    let _ = std::fs::remove_dir_all(&rundir);
    std::fs::create_dir_all(&rundir).unwrap();
    let nshards = (prop.shards)(tier).max(1);
    let mut children: Vec<Child> = (0..nshards)
        .map(|k| Child { shard: k, proc: spawn_shard(prop, tier, seed, k, nshards, &rundir, false, &[]), crashes: 0, skip: vec![] })
        .collect();
    let mut crash_failures: Vec<(Failure, bool)> = vec![]; // (failure, resource)
    let mut incomplete = 0u32;
    let mut finished: Vec<usize> = vec![];
    while !children.is_empty() {
        std::thread::sleep(Duration::from_millis(30));
        let mut i = 0;
        while i < children.len() {
            let done = children[i].proc.try_wait().unwrap();
            if let Some(status) = done {
                let k = children[i].shard;
                if status.success() {
                    finished.push(k);
                    children.swap_remove(i);
                    continue;
                }
                // abnormal end
                let hang = rundir.join(format!("shard{k}.hang")).exists();
                let _ = std::fs::remove_file(rundir.join(format!("shard{k}.hang")));
                let tail = stderr_tail(&rundir, k);
                let (sig, resource) = classify_crash(&status, hang, &tail);
                let inflight = read_inflight(&rundir, k);
                let (seqno, case) = inflight.unwrap_or((0, json!({"kind": "unknown"})));
                let may_exhaust = case.get("may_exhaust").and_then(|v| v.as_bool()).unwrap_or(false);
                crash_failures.push((
                    Failure { case, sig, detail: format!("worker ended abnormally ({status}); stderr tail: {tail}"), shrunk: false },
                    (resource || hang) && may_exhaust,
                ));
                children[i].crashes += 1;
                if seqno > 0 {
                    children[i].skip.push(seqno);
                }
                if children[i].crashes >= 400 || seqno == 0 {
                    incomplete += 1;
                    finished.push(k);
                    children.swap_remove(i);
                    continue;
                }
                let skip = children[i].skip.clone();
                children[i].proc = spawn_shard(prop, tier, seed, k, nshards, &rundir, true, &skip);
            }
            i += 1;
        }
    }
    // merge
    let mut m = ShardState::default();
    let mut all_hashes: HashSet<u64> = HashSet::new();
    for k in 0..nshards {
        let st: ShardState = std::fs::read(rundir.join(format!("shard{k}.state.json")))
            .ok()
            .and_then(|b| serde_json::from_slice(&b).ok())
            .unwrap_or_default();
        if !st.done {
            incomplete += if finished.contains(&k) { 0 } else { 1 };
        }
        m.evaluations += st.evaluations;
        m.nontrivial_total += st.nontrivial_total;
        m.resource_events += st.resource_events;
        m.failure_overflow += st.failure_overflow;
        for (c, n) in st.known_hits {
            *m.known_hits.entry(c).or_insert(0) += n;
        }
        for (c, n) in st.classes {
            *m.classes.entry(c).or_insert(0) += n;
        }
        for (c, n) in st.excluded {
            *m.excluded.entry(c).or_insert(0) += n;
        }
        for (c, n) in st.exhaustive_spaces {
            *m.exhaustive_spaces.entry(c).or_insert(0) += n;
        }
        m.failures.extend(st.failures);
        if m.first.is_none() {
            m.first = st.first;
        }
        if st.last.is_some() {
            m.last = st.last;
        }
        m.lowhash.extend(st.lowhash);
        for n in st.notes {
            if !m.notes.contains(&n) {
                m.notes.push(n);
            }
        }
        m.harness_errors.extend(st.harness_errors);
        if let Ok(b) = std::fs::read(rundir.join(format!("shard{k}.hashes"))) {
            for ch in b.chunks_exact(8) {
                all_hashes.insert(u64::from_le_bytes(ch.try_into().unwrap()));
            }
        }
    }
    // generator-side exclusions are reported by classes named "excluded:<shape>"
    let ex: Vec<(String, u64)> = m.classes.iter().filter(|(k, _)| k.starts_with("excluded:")).map(|(k, v)| (k.clone(), *v)).collect();
    for (k, v) in ex {
        m.classes.remove(&k);
        *m.excluded.entry(k["excluded:".len()..].to_string()).or_insert(0) += v;
    }
    m.lowhash.sort_by_key(|x| x.0);
    m.lowhash.dedup_by_key(|x| x.0);
    m.lowhash.truncate(3);
    let mut resource_events = m.resource_events;
    for (f, res) in crash_failures {
        if res {
            resource_events += 1;
        } else {
            m.failures.push(f);
        }
    }

    // known findings
    let findings = load_findings();
    let mut known_hits: BTreeMap<String, u64> = BTreeMap::new();
    let mut violations: Vec<Failure> = vec![];
    for f in &m.failures {
        if let Some(k) = match_finding(&findings, prop.id, &f.sig) {
            known_hits.entry(k.id.clone()).or_insert(0);
        } else {
            violations.push(f.clone());
        }
    }
    for (id, n) in &m.known_hits {
        *known_hits.entry(id.clone()).or_insert(0) += n;
    }
    // replay listed repros
    let mut known_lines: Vec<String> = vec![];
    let mut reproduced: Vec<String> = vec![];
    for fd in &findings {
        for (ri, r) in fd.repros.iter().enumerate() {
            if r["property"].as_str() != Some(prop.id) {
                continue;
            }
            let res = replay_isolated(prop, &r["case"], &rundir, &format!("{}-{}", fd.id, ri));
            match (fd.status.as_str(), res) {
                ("known", Some(f)) => {
                    let same = fd.sigs.iter().any(|s| glob_match(s, sig_class(&f.sig)));
                    if same {
                        if !reproduced.contains(&fd.id) {
                            reproduced.push(fd.id.clone());
                            known_lines.push(format!("KNOWN-FINDING: property={} {} [{}]", prop.id, fd.what, fd.id));
                        }
                    } else {
                        violations.push(Failure { case: r["case"].clone(), sig: f.sig, detail: format!("listed repro of {} now fails differently: {}", fd.id, f.detail), shrunk: false });
                    }
                }
                ("known", None) => {}
                ("fixed", Some(f)) => {
                    violations.push(Failure { case: r["case"].clone(), sig: f.sig, detail: format!("regression of fixed finding {}: {}", fd.id, f.detail), shrunk: false });
                }
                _ => {}
            }
        }
    }
    for (id, _) in &known_hits {
        if !reproduced.contains(id) {
            let fd = findings.iter().find(|f| &f.id == id).unwrap();
            reproduced.push(id.clone());
            known_lines.push(format!("KNOWN-FINDING: property={} {} [{}]", prop.id, fd.what, fd.id));
        }
    }

    // write replay files, de-duplicated by signature class
    let mut seen: HashSet<String> = HashSet::new();
    let mut viol_lines = vec![];
    let replay_dir = PathBuf::from(VERIF).join("replays");
    let _ = std::fs::create_dir_all(&replay_dir);
    for v in &violations {
        if !seen.insert(sig_class(&v.sig).to_string()) {
            continue;
        }
        let body = json!({"property": prop.id, "sig": v.sig, "detail": v.detail, "case": v.case, "shrunk": v.shrunk, "seed": seed, "tier": tier.name()});
        let h = fnv(format!("{}{}", v.sig, v.case).as_bytes());
        let path = replay_dir.join(format!("{}-{:016x}.json", prop.id, h));
        let _ = std::fs::write(&path, serde_json::to_string_pretty(&body).unwrap());
        viol_lines.push(format!("VIOLATION property={} replay={}", prop.id, path.display()));
        if viol_lines.len() >= 12 {
            break;
        }
    }

    // evidence
    let distinct = all_hashes.len() as u64;
    let mut samples: Vec<Value> = vec![];
    if let Some(f) = &m.first {
        samples.push(f.clone());
    }
    for (_, v) in &m.lowhash {
        if !samples.contains(v) {
            samples.push(v.clone());
        }
    }
    if let Some(l) = &m.last {
        if !samples.contains(l) {
            samples.push(l.clone());
        }
    }
    let samples: Vec<Value> = samples.into_iter().map(truncate_sample).collect();
    let frac = if m.evaluations > 0 { m.nontrivial_total as f64 / m.evaluations as f64 } else { 0.0 };
    let wall = t0.elapsed().as_secs_f64();
    let mut assumptions: Vec<String> = prop.assumptions.iter().map(|s| s.to_string()).collect();
    assumptions.push("engine built with opt-level 2, debug assertions and overflow checks ON, --cfg koto_verif".into());
    let evidence = json!({
        "property_id": prop.id,
        "tier": tier.name(),
        "seed": seed,
        "level": "exploration",
        "coverage": {
            "evaluations": m.evaluations,
            "distinct_nontrivial": distinct,
            "nontrivial_evaluations": m.nontrivial_total,
            "nontrivial_fraction": (frac * 10000.0).round() / 10000.0,
            "rule": prop.rule,
            "samples": samples,
            "class_histogram": m.classes,
            "excluded_known_shapes": m.excluded,
            "known_findings_reproduced": reproduced,
            "known_finding_hits_in_search": known_hits,
            "resource_exhaustion_events": resource_events,
            "exhaustive": !m.exhaustive_spaces.is_empty() && m.notes.iter().all(|n| !n.contains("truncated")),
            "exhaustive_spaces": m.exhaustive_spaces,
            "incomplete_shards": incomplete,
            "failures_beyond_cap": m.failure_overflow,
            "notes": m.notes,
            "shards": nshards,
        },
        "assumptions": assumptions,
        "wall_s": (wall * 100.0).round() / 100.0,
        "violations": violations.len(),
    });
    let evdir = PathBuf::from(VERIF).join("evidence");
    let _ = std::fs::create_dir_all(&evdir);
    std::fs::write(evdir.join(format!("{}.json", prop.id)), serde_json::to_string_pretty(&evidence).unwrap()).unwrap();

    for l in &known_lines {
        println!("{l}");
    }
    for l in &viol_lines {
        println!("{l}");
    }
    println!(
        "{} {}: evaluations={} distinct_nontrivial={} violations={} known_hits={} resource_events={} wall={:.1}s",
        prop.id,
        tier.name(),
        m.evaluations,
        distinct,
        violations.len(),
        known_hits.values().sum::<u64>(),
        resource_events,
        wall
    );
    if !violations.is_empty() {
        return 1;
    }
    if !m.harness_errors.is_empty() {
        eprintln!("INCONCLUSIVE: harness errors: {:?}", &m.harness_errors[..m.harness_errors.len().min(3)]);
        return 2;
    }
    if incomplete > 0 {
        eprintln!("INCONCLUSIVE: {incomplete} shard(s) did not complete");
        return 2;
    }
    if m.evaluations == 0 || distinct < 2 || frac < prop.min_nontrivial_fraction {
        eprintln!("INCONCLUSIVE: vacuous run (evaluations={}, distinct_nontrivial={}, fraction={:.4})", m.evaluations, distinct, frac);
        return 2;
    }
    0
}

fn truncate_sample(v: Value) -> Value {
    match v {
        Value::String(s) if s.len() > 1500 => {
            let mut end = 1500;
            while !s.is_char_boundary(end) {
                end -= 1;
            }
            Value::String(format!("{}…[{} bytes]", &s[..end], s.len()))
        }
        Value::Array(a) => {
            let n = a.len();
            let mut out: Vec<Value> = a.into_iter().take(12).map(truncate_sample).collect();
            if n > 12 {
                out.push(json!(format!("…[{} items]", n)));
            }
            Value::Array(out)
        }
        Value::Object(o) => Value::Object(o.into_iter().map(|(k, v)| (k, truncate_sample(v))).collect()),
        other => other,
    }
}

/// Replay one case in a child process; returns Some(fail) if the property is violated there.
pub fn replay_isolated(prop: &Prop, case: &Value, rundir: &Path, tag: &str) -> Option<Fail> {
    let inp = rundir.join(format!("replay-{tag}.in.json"));
    let out = rundir.join(format!("replay-{tag}.out.json"));
    let _ = std::fs::remove_file(&out);
    std::fs::write(&inp, serde_json::to_vec(case).unwrap()).unwrap();
    let exe = std::env::current_exe().unwrap();
    let errf = rundir.join(format!("replay-{tag}.stderr"));
    let mut child = Command::new(exe)
        .arg("replay-raw")
        .arg(prop.id)
        .arg(&inp)
        .arg(&out)
        .stdin(Stdio::null())
        .stdout(Stdio::null())
        .stderr(std::fs::File::create(&errf).unwrap())
        .spawn()
        .unwrap();
    let t0 = Instant::now();
    let status = loop {
        if let Some(s) = child.try_wait().unwrap() {
            break Some(s);
        }
        if t0.elapsed() > Duration::from_secs(120) {
            let _ = child.kill();
            let _ = child.wait();
            break None;
        }
        std::thread::sleep(Duration::from_millis(10));
    };
    match status {
        None => Some(Fail::new("hang", "replay did not finish within 120 s")),
        Some(s) if s.success() => {
            let v: Value = serde_json::from_slice(&std::fs::read(&out).ok()?).ok()?;
            if v.is_null() { None } else { serde_json::from_value(v).ok() }
        }
        Some(s) => {
            let tail = String::from_utf8_lossy(&std::fs::read(&errf).unwrap_or_default()).to_string();
            let hang = s.code() == Some(97);
            let (sig, _res) = classify_crash(&s, hang, &tail);
            Some(Fail::new(sig, format!("replay process ended abnormally ({s}): {tail}")))
        }
    }
}

pub fn replay_raw_main(prop: &'static Prop, inp: &Path, out: &Path) {
    install_panic_hook();
    set_rlimit_as(6 << 30);
    let case: Value = serde_json::from_slice(&std::fs::read(inp).unwrap()).unwrap();
    // watchdog
    std::thread::spawn(|| {
        std::thread::sleep(Duration::from_secs(100));
        unsafe { libc::_exit(97) };
    });
    let r = guarded(|| (prop.replay)(&case));
    let res: Option<Fail> = match r {
        Ok(x) => x,
        Err((loc, msg)) => Some(Fail::new(panic_sig(&loc, &msg), format!("panic at {loc}: {msg}"))),
    };
    std::fs::write(out, serde_json::to_vec(&res).unwrap()).unwrap();
}

/// `./check <id> --replay FILE`
pub fn replay_cmd(prop: &'static Prop, file: &Path) -> i32 {
    let v: Value = match std::fs::read(file).ok().and_then(|b| serde_json::from_slice(&b).ok()) {
        Some(v) => v,
        None => {
            eprintln!("cannot read replay file {}", file.display());
            return 2;
        }
    };
    let case = if v.get("case").is_some() { v["case"].clone() } else { v };
    let rundir = PathBuf::from(VERIF).join("engine/run").join(format!("{}-replay", prop.id));
    let _ = std::fs::create_dir_all(&rundir);
    match replay_isolated(prop, &case, &rundir, "cmd") {
        Some(f) => {
            println!("replay fails: sig={} detail={}", f.sig, f.detail);
            let findings = load_findings();
            if let Some(k) = match_finding(&findings, prop.id, &f.sig) {
                println!("KNOWN-FINDING: property={} {} [{}]", prop.id, k.what, k.id);
                return 0;
            }
            println!("VIOLATION property={} replay={}", prop.id, file.display());
            1
        }
        None => {
            println!("replay passes: property {} holds on this case", prop.id);
            0
        }
    }
}

//! Structure-agnostic delta reduction over the serde_json form of a case (AST, op list, ...):
//! delete array elements, hoist descendants, replace nodes by minimal leaves. A candidate is kept
//! only if it still deserialises into the case type and the oracle still fails the same way.
use serde::{Serialize, de::DeserializeOwned};
use serde_json::Value;
use std::time::{Duration, Instant};

#[derive(Clone, Debug)]
enum Seg {
    Idx(usize),
    Key(String),
}

fn get<'a>(v: &'a Value, path: &[Seg]) -> Option<&'a Value> {
    let mut cur = v;
    for s in path {
        cur = match s {
            Seg::Idx(i) => cur.as_array()?.get(*i)?,
            Seg::Key(k) => cur.as_object()?.get(k)?,
        };
    }
    Some(cur)
}

fn get_mut<'a>(v: &'a mut Value, path: &[Seg]) -> Option<&'a mut Value> {
    let mut cur = v;
    for s in path {
        cur = match s {
            Seg::Idx(i) => cur.as_array_mut()?.get_mut(*i)?,
            Seg::Key(k) => cur.as_object_mut()?.get_mut(k)?,
        };
    }
    Some(cur)
}

fn all_paths(v: &Value, cur: &mut Vec<Seg>, out: &mut Vec<Vec<Seg>>) {
    out.push(cur.clone());
    match v {
        Value::Array(a) => {
            for (i, x) in a.iter().enumerate() {
                cur.push(Seg::Idx(i));
                all_paths(x, cur, out);
                cur.pop();
            }
        }
        Value::Object(o) => {
            for (k, x) in o.iter() {
                cur.push(Seg::Key(k.clone()));
                all_paths(x, cur, out);
                cur.pop();
            }
        }
        _ => {}
    }
}

fn descendants(v: &Value, depth: usize, out: &mut Vec<Value>) {
    if depth == 0 || out.len() > 24 {
        return;
    }
    match v {
        Value::Array(a) => {
            for x in a {
                if x.is_object() || x.is_string() {
                    out.push(x.clone());
                }
                descendants(x, depth - 1, out);
            }
        }
        Value::Object(o) => {
            for x in o.values() {
                if x.is_object() || x.is_string() {
                    out.push(x.clone());
                }
                descendants(x, depth - 1, out);
            }
        }
        _ => {}
    }
}

pub fn size(v: &Value) -> usize {
    match v {
        Value::Array(a) => 1 + a.iter().map(size).sum::<usize>(),
        Value::Object(o) => 1 + o.values().map(size).sum::<usize>(),
        Value::String(s) => 1 + s.len() / 8,
        _ => 1,
    }
}

/// Reduce `start` while `fails` keeps returning true. `leaves` are JSON spellings of minimal
/// nodes tried as replacements (e.g. "Null", {"Int":0}).
pub fn reduce<T: Serialize + DeserializeOwned>(start: &T, leaves: &[Value], fails: &mut dyn FnMut(&T) -> bool, budget: Duration) -> T {
    let t0 = Instant::now();
    let mut cur = serde_json::to_value(start).unwrap();
    let mut tried = 0usize;
    loop {
        let mut progress = false;
        let mut paths = vec![];
        all_paths(&cur, &mut vec![], &mut paths);
        // larger subtrees first (preorder already does roughly that)
        for path in paths {
            if t0.elapsed() > budget || tried > 20_000 {
                return serde_json::from_value(cur).unwrap();
            }
            let Some(node) = get(&cur, &path) else { continue };
            let node = node.clone();
            let mut cands: Vec<Value> = vec![];
            // a. delete array elements (try removing each)
            if let Value::Array(a) = &node {
                for i in 0..a.len() {
                    let mut b = a.clone();
                    b.remove(i);
                    cands.push(Value::Array(b));
                }
            }
            // b. hoist descendants, c. minimal leaves
            if node.is_object() {
                let mut d = vec![];
                descendants(&node, 3, &mut d);
                cands.extend(d);
                cands.extend(leaves.iter().cloned());
            }
            // strings: shorten
            if let Value::String(s) = &node {
                if s.len() > 1 && !s.chars().next().map(|c| c.is_uppercase()).unwrap_or(false) {
                    cands.push(Value::String(s.chars().take(1).collect()));
                }
            }
            let before = size(&node);
            for c in cands {
                if size(&c) >= before {
                    continue;
                }
                let mut trial = cur.clone();
                let Some(slot) = get_mut(&mut trial, &path) else { break };
                *slot = c;
                let Ok(t) = serde_json::from_value::<T>(trial.clone()) else { continue };
                tried += 1;
                if fails(&t) {
                    cur = trial;
                    progress = true;
                    break;
                }
                if t0.elapsed() > budget {
                    break;
                }
            }
        }
        if !progress {
            break;
        }
    }
    serde_json::from_value(cur).unwrap()
}

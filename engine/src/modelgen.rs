//! Generators of the reference model: each generator instance runs its body on a helper thread
//! with strict hand-off, so that side effects of producer and consumer interleave exactly as a
//! lazy generator prescribes.
use crate::model::*;
use std::sync::mpsc::{Receiver, Sender, channel};
use std::sync::{Arc, Mutex};

pub enum ToGen {
    Resume,
    Abort,
}
pub enum FromGen {
    Yield(V),
    Done,
    Failed(Ctl),
}

pub struct GenHandle {
    to_gen: Sender<ToGen>,
    from_gen: Receiver<FromGen>,
    join: Option<std::thread::JoinHandle<()>>,
}

impl Drop for GenHandle {
    fn drop(&mut self) {
        let _ = self.to_gen.send(ToGen::Abort);
        if let Some(j) = self.join.take() {
            let _ = j.join();
        }
    }
}

pub struct YieldSink {
    to_consumer: Sender<FromGen>,
    from_consumer: Receiver<ToGen>,
}

pub fn make_generator(it: &mut Interp, c: Arc<Closure>, args: Vec<V>, self_val: Option<V>) -> R {
    // bind arguments now (arity errors are raised by the call), run the body lazily
    let depth_before = it.frames.len();
    if let Err(e) = it.bind_args(&c, args, self_val) {
        it.frames.truncate(depth_before);
        return Err(e);
    }
    let frame = it.frames.pop().unwrap();
    let (to_gen, from_consumer) = channel::<ToGen>();
    let (to_consumer, from_gen) = channel::<FromGen>();
    let mut child = Interp {
        out: it.out.clone(),
        frames: vec![frame],
        exports: it.exports.clone(),
        fuel: it.fuel.clone(),
        type_checks: it.type_checks,
        yield_sink: None,
        depth: 0,
        used: true,
    };
    let body = c.body.clone();
    let ret = c.ret.clone();
    let join = std::thread::Builder::new()
        .stack_size(64 << 20)
        .spawn(move || {
            // wait for the first resume
            match from_consumer.recv() {
                Ok(ToGen::Resume) => {}
                _ => return,
            }
            let to_c = to_consumer.clone();
            child.yield_sink = Some(YieldSink { to_consumer, from_consumer });
            let _ = &ret;
            let r = child.block(&body);
            let msg = match r {
                Ok(_) | Err(Ctl::Return(_)) => FromGen::Done,
                Err(Ctl::Abort) => return,
                Err(e) => FromGen::Failed(e),
            };
            let _ = to_c.send(msg);
        })
        .expect("spawn generator thread");
    Ok(V::Gen(Arc::new(Mutex::new(GenState { chan: Some(GenHandle { to_gen, from_gen, join: Some(join) }), done: false }))))
}

pub fn do_yield(it: &mut Interp, v: V) -> R {
    let Some(sink) = &it.yield_sink else {
        return Err(Ctl::Unjudged("yield outside of a generator frame".into()));
    };
    if it.frames.len() != 1 {
        return Err(Ctl::Unjudged("yield in a nested call frame".into()));
    }
    if sink.to_consumer.send(FromGen::Yield(v)).is_err() {
        return Err(Ctl::Abort);
    }
    match sink.from_consumer.recv() {
        Ok(ToGen::Resume) => Ok(V::Null),
        _ => Err(Ctl::Abort),
    }
}

/// Pull the next value of a generator (None = finished)
pub fn gen_next(_it: &mut Interp, g: &Arc<Mutex<GenState>>) -> Result<Option<V>, Ctl> {
    let mut st = g.lock().unwrap();
    if st.done {
        return Ok(None);
    }
    let Some(h) = &st.chan else { return Ok(None) };
    if h.to_gen.send(ToGen::Resume).is_err() {
        st.done = true;
        return Ok(None);
    }
    match h.from_gen.recv() {
        Ok(FromGen::Yield(v)) => Ok(Some(v)),
        Ok(FromGen::Done) | Err(_) => {
            st.done = true;
            st.chan = None;
            Ok(None)
        }
        Ok(FromGen::Failed(e)) => {
            st.done = true;
            st.chan = None;
            Err(e)
        }
    }
}

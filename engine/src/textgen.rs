//! Token-level mutation neighbourhood and token soups (shared by C05, C06, C10, C11, C12)
use koto_lexer::{Lexer, Token};
use proptest::prelude::*;
use std::ops::Range;

/// Token byte ranges of a text (whitespace and comments included). If the lexer reports an error
/// the rest of the text becomes one final chunk.
/// All tokens up to (and excluding) the first Error token. The lexer keeps yielding Error tokens
/// without advancing after some malformed inputs, so iteration is always cut at the first one.
pub fn lex_all(src: &str) -> Vec<koto_lexer::LexedToken> {
    let mut out = vec![];
    for t in Lexer::new(src) {
        if t.token == Token::Error || out.len() > 2 * src.len() + 3 {
            break;
        }
        out.push(t);
    }
    out
}

pub fn token_ranges(src: &str) -> Vec<Range<usize>> {
    let mut out = vec![];
    let mut end = 0;
    for t in Lexer::new(src) {
        if t.token == Token::Error || t.source_bytes.start != end || t.source_bytes.end > src.len() {
            break;
        }
        if t.source_bytes.end > t.source_bytes.start {
            out.push(t.source_bytes.clone());
        }
        end = t.source_bytes.end;
        if out.len() > 20_000 {
            break;
        }
    }
    if end < src.len() && src.is_char_boundary(end) {
        out.push(end..src.len());
    }
    out
}

pub const POOL: [&str; 40] = [
    "if", "then", "else", "for", "in", "while", "match", "switch", "try", "catch", "finally", "return", "yield", "throw", "and", "or", "not", "null", "self", "export", "(", ")", "[", "]", "{", "}", "|", ",", ":", ".", "...", "..", "=", "+", "-", "->", "@", "'", "ïd", "9",
];

pub const PER_TOKEN: usize = 3 + POOL.len();

/// Number of mutants in the single-token neighbourhood
pub fn neighbourhood_size(src: &str, toks: &[Range<usize>]) -> usize {
    toks.len() * PER_TOKEN + src.lines().count() * 4
}

/// The k-th mutant of the neighbourhood (None if the mutation is a no-op)
pub fn mutant(src: &str, toks: &[Range<usize>], k: usize) -> Option<String> {
    let nt = toks.len() * PER_TOKEN;
    if k < nt {
        let i = k / PER_TOKEN;
        let m = k % PER_TOKEN;
        let r = toks[i].clone();
        let mut out = String::with_capacity(src.len() + 8);
        match m {
            0 => {
                out.push_str(&src[..r.start]);
                out.push_str(&src[r.end..]);
            }
            1 => {
                out.push_str(&src[..r.end]);
                out.push_str(&src[r.clone()]);
                out.push_str(&src[r.end..]);
            }
            2 => {
                let r2 = toks.get(i + 1)?.clone();
                out.push_str(&src[..r.start]);
                out.push_str(&src[r2.clone()]);
                out.push_str(&src[r.clone()]);
                out.push_str(&src[r2.end..]);
            }
            _ => {
                let rep = POOL[m - 3];
                if &src[r.clone()] == rep {
                    return None;
                }
                out.push_str(&src[..r.start]);
                out.push_str(rep);
                out.push_str(&src[r.end..]);
            }
        }
        if out == src { None } else { Some(out) }
    } else {
        let k = k - nt;
        let line = k / 4;
        let delta: i32 = [1, 2, -1, -2][k % 4];
        let mut out = String::with_capacity(src.len() + 2);
        let mut changed = false;
        for (li, l) in src.split_inclusive('\n').enumerate() {
            if li == line {
                if delta > 0 {
                    for _ in 0..delta {
                        out.push(' ');
                    }
                    out.push_str(l);
                    changed = true;
                } else {
                    let lead = l.len() - l.trim_start_matches(' ').len();
                    let cut = (-delta) as usize;
                    if lead >= cut {
                        out.push_str(&l[cut..]);
                        changed = true;
                    } else {
                        out.push_str(l);
                    }
                }
            } else {
                out.push_str(l);
            }
        }
        if changed { Some(out) } else { None }
    }
}

const VOCAB: [&str; 96] = [
    "x", "y", "f", "foo", "_", "_a", "self", "1", "0", "2.5", "0xff", "1e3", "'a'", "\"b\"", "'{x}'", "'{x:>5}'", "r'c'", "true", "false", "null", "(", ")", "[", "]", "{", "}", "|", "||", ",", ":", ";", ".", "..", "..=", "...", "=", "+", "-", "*", "/", "%", "^", "+=", "-=", "*=", "==", "!=", "<", "<=", ">", ">=", "->", "@", "?", "and", "or", "not", "if", "then", "else if", "else", "for", "in", "while", "until", "loop", "break", "continue", "return", "yield", "throw", "try", "catch", "finally", "match", "switch", "export", "import", "from", "as", "let", "debug", "@type", "@display", "@+", "@index", "@test", "@main", "@meta", "@base", "x.size()", "x.next()", "print", "assert", "Number", "String",
];

/// Token soups: tokens from the lexer's vocabulary joined by spaces/newlines/indentation
pub fn soup() -> impl Strategy<Value = String> {
    let tok = prop_oneof![
        12 => proptest::sample::select(VOCAB.to_vec()).prop_map(|s| s.to_string()),
        1 => "[a-zé]{1,3}",
        1 => "[0-9]{1,3}",
    ];
    let sep = prop_oneof![
        10 => Just(" ".to_string()),
        2 => Just("".to_string()),
        3 => Just("\n".to_string()),
        3 => Just("\n  ".to_string()),
        2 => Just("\n    ".to_string()),
        1 => Just(" # c\n".to_string()),
    ];
    proptest::collection::vec((tok, sep), 3..40).prop_map(|v| {
        let mut s = String::new();
        for (t, p) in v {
            s.push_str(&t);
            s.push_str(&p);
        }
        s
    })
}

/// Valid UTF-8 noise with a bias to characters the lexer cares about
pub fn noise() -> impl Strategy<Value = String> {
    proptest::collection::vec(
        prop_oneof![
            6 => proptest::sample::select(vec!['\'', '"', '{', '}', '\\', '#', '-', '\n', '\r', ' ', '\t', '(', ')', '[', ']', '|', ':', '.', ',', '=', '@', '_', '0', '9', 'a', 'r', 'e', 'x', 'é', '語', '😀', '\u{301}', '\u{200d}', '$', '`', '~', '!', '&', '\u{0}', '\u{7f}', '\u{feff}', '\u{2028}']),
            2 => any::<char>(),
        ],
        0..60,
    )
    .prop_map(|v| v.into_iter().collect())
}
